#!/bin/bash
# usage: baseline_commit.sh <commit>...   -- runs the unedited baseline suite on each commit of /repo in its own scratch worktree (in parallel),
# prints the cmp.py line per commit, removes the worktrees and its own data directories.  Results: /tmp/blc/<commit>.cmp
mkdir -p /tmp/blc
for c in "$@"; do
  (
    wt=/tmp/blc/wt_$c
    git -C /repo worktree add -q --detach $wt $c || exit 1
    cd $wt
    dd=$(mktemp -d /tmp/blc/bcl_$c.XXXX)
    BCL_DATA_DIR=$dd /venv/bin/python -m pytest -ra -q -p no:cacheprovider --timeout=900 --continue-on-collection-errors --junitxml=/tmp/blc/$c.xml > /tmp/blc/$c.log 2>&1
    /venv/bin/python /verif/notes/experiments/cmp.py /tmp/blc/$c.xml > /tmp/blc/$c.cmp 2>&1
    cd /; git -C /repo worktree remove --force $wt; rm -rf $dd
    echo "$c $(cat /tmp/blc/$c.cmp)"
  ) &
done
wait
