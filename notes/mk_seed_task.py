"""usage: mk_seed_task.py <suffix> <property id>...
Prepares one seeded-change task per property: /tmp/mut/<id><suffix>/TASK.md (the property text and nothing else from /verif,
plus one-sentence summaries of the changes already delivered for that property) and a scratch worktree /tmp/mut/wt_<id><suffix>
of /repo's HEAD.  A fresh sub-agent is then told to read that TASK.md (see DESIGN.md §10.5)."""
import json, os, sys, glob, shutil, subprocess
TPL = """# Task: seed one realistic defect for a verification experiment

You work ONLY inside the git worktree `/tmp/mut/wt_{id}` (a checkout of the pure-Python Bitcoin library *bitcoinlib*, current
development head) and the output directory `/tmp/mut/{id}/`.  Do NOT read, list or touch `/verif`, `/repo`, or the directories of
other tasks under `/tmp/mut`.  Do not use the network (there is none).  Do not commit anything.

## The property (given text; this is all you get about what will be checked)

```json
{prop}
```
{taken}
## What to produce

ONE small, realistic source change under `/tmp/mut/wt_{id}/bitcoinlib/` (not in `tests/`, no new files in the package) that makes the
property FALSE for some inputs / histories, such that:

1. the package still imports and the existing test-suite still passes exactly as before.  Run it like this (about 3 minutes, run it
   serially, once, in the background if you like):

       cd /tmp/mut/wt_{id} && BCL_DATA_DIR=$(mktemp -d /tmp/mut/{id}/bcl.XXXX) /venv/bin/python -m pytest -q -p no:cacheprovider --timeout=900 \\
           --continue-on-collection-errors --junitxml=/tmp/mut/{id}/junit.xml > /tmp/mut/{id}/pytest.log 2>&1
       /venv/bin/python /tmp/mut/cmp.py /tmp/mut/{id}/junit.xml

   The last command must print `baseline tests not passing: 0`.  (Many tests fail or error for lack of network both with and without
   your change; only the 536 baseline tests that `cmp.py` knows matter.)  If a baseline test fails, change your edit and try again.
   From inside the worktree `import bitcoinlib` picks up the worktree's copy (check `bitcoinlib.__file__` if in doubt).
2. the change looks like something a developer could plausibly write by accident or as a "simplification" (an off-by-one, a wrong
   comparison, a dropped or reordered step, a wrong field, a stale cache, a swallowed error ...), NOT a sabotage like `if x == 1234`.
3. PREFER a change that needs something specific to manifest - a particular size or boundary, a particular combination of options, a
   particular order of operations, a particular state or history - over one that breaks every call.  Changes that break the common
   path are usually caught by the existing tests anyway.

Then write a demonstration `/tmp/mut/{id}/demo.py` which, run as `cd /tmp/mut/wt_{id} && BCL_DATA_DIR=$(mktemp -d) /venv/bin/python /tmp/mut/{id}/demo.py`,
exercises the real library and prints clearly how the property fails on the changed tree (e.g. the wrong value next to the value the
property demands, computed independently or taken from the specification), and exits with status 1 when the property is violated and
0 when it holds (so on the ORIGINAL tree it must exit 0; verify both).  In demo.py insert the current directory at the front of
sys.path so that the worktree's bitcoinlib is imported.

Note: do not use `git stash` (stashes are shared between worktrees of this repository and other people work in parallel); to look at
the original tree use `git diff > /tmp/mut/{id}/patch.diff; git apply -R /tmp/mut/{id}/patch.diff` and re-apply with
`git apply /tmp/mut/{id}/patch.diff`.

Finally save:

* `/tmp/mut/{id}/patch.diff`  =  `git -C /tmp/mut/wt_{id} diff` (must apply with `git apply` to a clean checkout of the same commit)
* `/tmp/mut/{id}/demo.py`
* `/tmp/mut/{id}/meta.json` = {{"property": "{pid}", "summary": "...one sentence...", "files": ["..."], "trigger": "what specific
  condition is needed for the defect to show", "observable": "what a user observes", "baseline_tests_not_passing": 0}}

Leave the change applied in the worktree (uncommitted).  Remove the `bcl.*` temp directories you created.  In your final answer give
a 5-line summary: the change, the trigger, what demo.py prints on the changed and on the original tree, and the cmp.py line.
"""
suffix, ids = sys.argv[1], sys.argv[2:]
os.makedirs('/tmp/mut', exist_ok=True)
shutil.copy('/verif/notes/experiments/cmp.py', '/tmp/mut/cmp.py')
props = {json.loads(l)['id']: json.loads(l) for l in open('/verif/properties.jsonl')}
for pid in ids:
    d = props[pid]
    keep = {k: d[k] for k in ('id', 'title', 'statement', 'quantifier', 'why_tests_cant', 'anchors')}
    prev = []
    for mdir in sorted(glob.glob('/verif/seeded/%s*' % pid)):
        prev.append(json.load(open(mdir + '/meta.json'))['summary'])
    taken = ''
    if prev:
        taken = ('\n## Already taken (choose something in a DIFFERENT function / mechanism)\n\nPrevious participants already delivered these '
                 'changes, do not repeat them or close variants:\n%s\n' % '\n'.join('> %d. %s' % (i + 1, p) for i, p in enumerate(prev)))
    nid = pid + suffix
    os.makedirs('/tmp/mut/' + nid, exist_ok=True)
    open('/tmp/mut/%s/TASK.md' % nid, 'w').write(TPL.format(id=nid, pid=pid, prop=json.dumps(keep, indent=1), taken=taken))
    subprocess.check_call(['git', '-C', '/repo', 'worktree', 'add', '-q', '--detach', '/tmp/mut/wt_' + nid, 'HEAD'])
    print('prepared', nid, len(prev), 'taken')
