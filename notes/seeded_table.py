"""regenerate the table of section 10.5 of DESIGN.md from /verif/seeded/*/meta.json"""
import json, glob, os, re
rows = []
for d in sorted(glob.glob('/verif/seeded/*/')):
    m = json.load(open(d + 'meta.json'))
    sid = os.path.basename(d.rstrip('/'))
    caught = [k for k, v in m.get('checks', {}).items() if v['exit'] == 1]
    what = ''
    for k, v in m.get('checks', {}).items():
        if v.get('what'):
            what = v['what']
            break
    note = m.get('strengthened', '')
    rows.append('| %s | %s | %s | %s | %s |' % (sid, m['summary'].replace('|', '/')[:230], m.get('trigger', '').replace('|', '/')[:160],
                                               ('caught: ' + ', '.join(caught)) if caught else 'MISSED', (what[:110] + (' — ' + note if note else '')).replace('|', '/')))
n_total = len(rows)
n_str = sum(1 for d in glob.glob('/verif/seeded/*/') if 'strengthened' in json.load(open(d + 'meta.json')))
stats = ('%d changes were delivered in eight rounds (one per property and round; '
         'each participant was told which changes were already taken). %d were reported by the quick check as it stood when the change arrived; for the other %d '
         'the check was first strengthened (what was added is noted in the last column and in `meta.json`), after which every one of the %d '
         'is reported (`caught` lists the check/seed runs that exit 1). What the misses had in common: the proofs and models were not the '
         'weak point, the generators were - an entry point, an input form, or an object *history* (call A, then B on the same object) that '
         'the correspondence did not exercise. Two of the strengthened generators then found further genuine defects on the clean tree '
         '(F45, F46) and one a new listed finding (F47).\n\n' % (n_total, n_total - n_str, n_str, n_total))
table = (stats + 'Each change was produced by a fresh sub-agent that saw only the text of one property and a scratch worktree; it compiles, keeps '
         'the 536 baseline tests passing, and comes with a demonstration that exits 1 on the changed tree and 0 on the original (re-run and '
         'confirmed by me before it was kept). `patch.diff`, `demo.py`, `meta.json` (with the outcome of the quick check, seeds 0 and 1) are in '
         '`/verif/seeded/<id>/`.\n\n| id | change | needs | quick check | reported as |\n|---|---|---|---|---|\n' + '\n'.join(rows) + '\n')
p = '/verif/DESIGN.md'
s = open(p).read()
if 'SEEDED_TABLE' in s:
    s = s.replace('SEEDED_TABLE', '<!-- seeded:begin -->\n' + table + '<!-- seeded:end -->')
else:
    s = re.sub(r'<!-- seeded:begin -->.*<!-- seeded:end -->', lambda _: '<!-- seeded:begin -->\n' + table + '<!-- seeded:end -->', s, flags=re.S)
open(p, 'w').write(s)
print(len(rows), 'rows')
