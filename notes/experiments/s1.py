import os, json, types, sys
import bitcoinlib  # triggers init + copy of data files
from bitcoinlib.config.config import BCL_DATA_DIR
print("data dir", BCL_DATA_DIR, sorted(os.listdir(BCL_DATA_DIR))[:8])
# write providers.json with fakes
provs={}
for i,(prio,) in enumerate([(10,),(20,),(5,)]):
    provs['fake%d'%i]={"provider":"fakeprov","network":"bitcoin","client_class":"FakeClient%d"%i,"provider_coin_id":"","url":"http://x/","api_key":"","priority":prio,"denominator":1,"network_overrides":None,"timeout":0}
json.dump(provs, open(os.path.join(BCL_DATA_DIR,'providers.json'),'w'))
import bitcoinlib.services as services
from bitcoinlib.services.baseclient import BaseClient, ClientError
calls=[]
OUT={}
def mk(i):
    class C(BaseClient):
        def __init__(self, network, base_url, denominator, *args):
            super().__init__(network, 'fake%d'%i, base_url, denominator, *args)
        def blockcount(self):
            calls.append(('blockcount',i)); return 800000
        def getrawtransaction(self, txid):
            calls.append(('getrawtransaction',i))
            o=OUT[i]
            if o=='exc': raise ClientError("boom")
            if o=='false': return False
            return 'raw-from-%d'%i
    C.__name__='FakeClient%d'%i
    return C
mod=types.ModuleType('bitcoinlib.services.fakeprov')
for i in range(3): setattr(mod,'FakeClient%d'%i, mk(i))
services.fakeprov=mod; sys.modules['bitcoinlib.services.fakeprov']=mod
from bitcoinlib.services.services import Service, ServiceError
import itertools
for assign in itertools.product(['ok','exc','false'], repeat=3):
    for i in range(3): OUT[i]=assign[i]
    calls.clear()
    srv=Service(network='bitcoin', providers=['fakeprov'], cache_uri='sqlite:////tmp/exp/w/bcl2/cache.sqlite')
    calls.clear()
    try:
        r=srv.getrawtransaction('aa'*32)
    except ServiceError as e: r='RAISE'
    print(assign, '->', r, [c[1] for c in calls], 'errors', sorted(srv.errors), 'results', sorted(srv.results))
