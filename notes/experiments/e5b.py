from bitcoinlib.encoding import *
from bitcoinlib.scripts import *
from bitcoinlib.transactions import *
from bitcoinlib.keys import *
import struct
# Build a segwit tx raw by hand with witness item = single 0x00 byte
def vi(n): 
    return bytes([n]) if n<0xfd else (b'\xfd'+struct.pack('<H',n))
prev=bytes(range(32))
def mk(wit_items, lock=b'\x00\x14'+bytes(20), scriptsig=b''):
    raw=struct.pack('<I',2)+b'\x00\x01'+vi(1)+prev+struct.pack('<I',0)+vi(len(scriptsig))+scriptsig+struct.pack('<I',0xffffffff)
    raw+=vi(1)+struct.pack('<Q',1000)+vi(len(lock))+lock
    raw+=vi(len(wit_items))+b''.join(vi(len(w))+w for w in wit_items)
    raw+=struct.pack('<I',0)
    return raw
for items in ([b'\x00'], [b''], [b'\x01\x02', b''], [b'\x00', b'\x51']):
    raw=mk(items)
    try:
        t=Transaction.parse(raw, strict=False)
        r2=t.raw()
        print(items, "roundtrip equal:", r2==raw, "" if r2==raw else (raw.hex(), r2.hex()))
    except Exception as e: print(items,"EXC",type(e).__name__,e)
# output script single byte 00
raw=mk([b'\x01'], lock=b'\x00')
try:
    t=Transaction.parse(raw, strict=False); print("lock=00 roundtrip", t.raw()==raw, t.raw().hex()[-40:], raw.hex()[-40:])
except Exception as e: print("lock=00 EXC", type(e).__name__, e)
# legacy tx with scriptsig 00
def mkleg(scriptsig, lock):
    raw=struct.pack('<I',1)+vi(1)+prev+struct.pack('<I',0)+vi(len(scriptsig))+scriptsig+struct.pack('<I',0xffffffff)
    raw+=vi(1)+struct.pack('<Q',1000)+vi(len(lock))+lock+struct.pack('<I',0)
    return raw
for ss,lk in ((b'\x00', b'\x51'), (b'\x51', b'\x00'), (b'', b''), (b'\x51', b'\x6a'), (b'\x01\x00', b'\x51')):
    raw=mkleg(ss,lk)
    try:
        t=Transaction.parse(raw, strict=False); print("legacy ss",ss.hex(),"lock",lk.hex(),"roundtrip", t.raw()==raw, "txid ok", t.txid==double_sha256(raw)[::-1].hex())
    except Exception as e: print("legacy", ss.hex(), lk.hex(), "EXC", type(e).__name__, e)
