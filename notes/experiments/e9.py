from bitcoinlib.keys import *
from bitcoinlib.transactions import *
from bitcoinlib.networks import *
import random, itertools
random.seed(5)
nets=list(NETWORK_DEFINITIONS.keys()); print(nets)
# C12: HDKey wif roundtrip
bad=[]
for net in nets:
    for wt in ['legacy','p2sh-segwit','segwit']:
        for ms in [False, True]:
            try:
                k=HDKey(network=net, witness_type=wt, multisig=ms)
                c=k.subkey_for_path("m/1'/2/3")
            except Exception as e:
                bad.append((net,wt,ms,'create',str(e)[:60])); continue
            for priv in (True, False):
                try:
                    w=c.wif(is_private=priv)
                    k2=HDKey(w)  # no hints
                    ok=(k2.public_hex==c.public_hex and k2.chain==c.chain and k2.depth==c.depth and k2.child_index==c.child_index and k2.parent_fingerprint==c.parent_fingerprint and k2.is_private==priv and (not priv or k2.private_hex==c.private_hex))
                    meta=(k2.network.name==net, k2.witness_type==wt, k2.multisig==ms)
                    if not ok: bad.append((net,wt,ms,priv,'KEYDIFF'))
                    k3=HDKey(w, network=net)
                    meta3=(k3.network.name==net, k3.witness_type==wt, k3.multisig==ms)
                    if not all(meta3): bad.append((net,wt,ms,priv,'META-with-hint',meta3, k3.witness_type, k3.multisig))
                except Exception as e:
                    bad.append((net,wt,ms,priv,'EXC',type(e).__name__,str(e)[:70]))
print("C12 problems:", len(bad))
for b in bad[:40]: print("  ",b)
