from bitcoinlib.transactions import *
from bitcoinlib.keys import *
import copy, random, itertools
random.seed(2)
def build(kind, m=2, n=3):
    t=Transaction(network='bitcoin', witness_type='segwit')
    ks=[Key(random.randrange(1,2**200)) for _ in range(n)]
    pubs=[k.public() for k in ks]
    txid=bytes(range(32))
    if kind=='p2sh_ms': t.add_input(txid,0,keys=pubs,script_type='p2sh_multisig',sigs_required=m,value=100000,witness_type='legacy')
    if kind=='p2wsh_ms': t.add_input(txid,0,keys=pubs,script_type='p2sh_multisig',sigs_required=m,value=100000,witness_type='segwit')
    if kind=='p2sh_p2wsh_ms': t.add_input(txid,0,keys=pubs,script_type='p2sh_p2wsh',sigs_required=m,value=100000,witness_type='p2sh-segwit')
    t.add_output(90000, lock_script=b'\x00\x14'+bytes(20))
    return t,ks
for kind in ('p2sh_ms','p2wsh_ms','p2sh_p2wsh_ms'):
    for order in itertools.permutations(range(3)):
        t,ks=build(kind)
        res=[]
        for idx in order:
            t.sign([ks[idx]]); res.append((t.verify(), len(t.inputs[0].signatures)))
        raw=t.raw(); t2=Transaction.parse(raw); t2.inputs[0].value=100000
        print(kind, order, res, "reparse verify", t2.verify(), "nsig parsed", len(t2.inputs[0].signatures), t2.inputs[0].sigs_required)
    t9,ks9=build(kind); fk=Key(12345)
    t9.sign([ks9[0]]); 
    try:
        t9.sign([fk], fail_on_unknown_key=False); print("  foreign signer after 1:", t9.verify(), len(t9.inputs[0].signatures))
    except Exception as e: print("  foreign EXC", e)
    t10,ks10=build(kind); t10.sign([ks10[1]]); t10.sign([ks10[1]]); print("  same key twice:", t10.verify(), len(t10.inputs[0].signatures))
    t11,ks11=build(kind); t11.sign([ks11[1]]); t11.inputs[0].signatures=t11.inputs[0].signatures*2; print("  dup sig injected:", t11.verify())
    t12,ks12=build(kind); t12.sign([ks12[0]]); t12.sign([ks12[2]]); s=t12.inputs[0].signatures; t12.inputs[0].signatures=[s[1],s[0]]; print("  swapped sig order:", t12.verify())
