from bitcoinlib.scripts import *
from bitcoinlib.keys import *
import random
random.seed(3)
ks=[Key(i+1) for i in range(3)]
redeem=Script(script_types=['multisig'], keys=ks, sigs_required=2)
rs=redeem.serialize()
sig=sign('%064x'%5, ks[0]); sig2=sign('%064x'%5, ks[1])
ss=Script([op.op_0, sig.as_der_encoded(), sig2.as_der_encoded(), rs]).serialize()
p=Script.parse_bytes(ss)
print("cmd types", [type(c).__name__ for c in p.commands], p.script_types)
try:
    print("serialize()==orig", p.serialize()==ss)
except Exception as e: print("serialize EXC", type(e).__name__, e)
# generic roundtrip over random cmd lists
nonpush=[o for o in range(79,186)]+[0]
bad=0; exc=0; tot=0; examples=[]
for _ in range(3000):
    n=random.randrange(1,6)
    cmds=[]
    for _ in range(n):
        if random.random()<0.5: cmds.append(random.choice(nonpush))
        else:
            L=random.choice([1,2,3,4,5,19,20,21,32,33,64,65,70,75,76,77,255,256,300])
            cmds.append(bytes(random.randrange(256) for _ in range(L)))
    raw=Script(cmds).serialize()
    tot+=1
    try:
        p=Script.parse_bytes(raw)
        r2=p.serialize()
        if r2!=raw:
            bad+=1
            if len(examples)<6: examples.append((raw.hex()[:80], r2.hex()[:80], [c if isinstance(c,int) else ('d%d'%len(c)) for c in cmds]))
    except Exception as e:
        exc+=1
        if exc<6: print("EXC", type(e).__name__, str(e)[:80], [c if isinstance(c,int) else ('d%d:%s'%(len(c),c[:1].hex())) for c in cmds])
print("tot",tot,"bad",bad,"exc",exc)
for e in examples: print(e)
