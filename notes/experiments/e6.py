from bitcoinlib.mnemonic import *
from bitcoinlib.values import *
import math, random, hashlib, unicodedata
print("log(2048,2)=",math.log(2048,2), "log(256,2048)", math.log(256,2048))
def ref_mnemonic(ent, wl):
    h=hashlib.sha256(ent).digest()
    bits=bin(int.from_bytes(ent,'big'))[2:].zfill(len(ent)*8)+bin(int.from_bytes(h,'big'))[2:].zfill(256)[:len(ent)*8//32]
    return ' '.join(wl[int(bits[i:i+11],2)] for i in range(0,len(bits),11))
m=Mnemonic('english'); wl=m.wordlist()
bad=0; tot=0; badent=0
random.seed(1)
cases=[]
for L in (16,20,24,28,32):
    cases += [bytes(L), b'\xff'*L, b'\x00'*(L-1)+b'\x01', b'\x00\x00'+b'\xff'*(L-2), b'\x00'*8+bytes(random.randrange(256) for _ in range(L-8)), b'\x80'+bytes(L-1), b'\x00\x10'+bytes(L-2)]
    cases += [bytes(random.randrange(256) for _ in range(L)) for _ in range(200)]
    cases += [bytes([0]*k)+bytes(random.randrange(1,256) for _ in range(L-k)) for k in range(1,L)]
for ent in cases:
    tot+=1
    try:
        s=m.to_mnemonic(ent, check_on_curve=False)
    except Exception as e:
        print("to_mnemonic EXC", ent.hex(), type(e).__name__, e); bad+=1; continue
    if s!=ref_mnemonic(ent,wl):
        bad+=1; print("MISMATCH", ent.hex(), s, '|', ref_mnemonic(ent,wl))
    try:
        e2=m.to_entropy(ref_mnemonic(ent,wl))
        if e2!=ent: badent+=1; print("to_entropy mismatch", ent.hex(), e2.hex() if isinstance(e2,bytes) else e2)
    except Exception as e:
        badent+=1; print("to_entropy EXC", ent.hex(), type(e).__name__, str(e)[:100])
print("mnemonic tot",tot,"bad",bad,"badent",badent)
