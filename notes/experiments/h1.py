import random, sys, traceback
import bitcoinlib.wallets as W
from bitcoinlib.wallets import *
from bitcoinlib.keys import HDKey
from bitcoinlib.transactions import Transaction
class FakeService:
    def __init__(self, *a, **k): self.results={'fake':1}; self.errors={}; self.complete=True
    def estimatefee(self, blocks=3, priority=''): return 20000
    def blockcount(self): return 800000
    def sendrawtransaction(self, raw): return {'txid': Transaction.parse_hex(raw).txid, 'response_dict': {}}
W.Service=FakeService
EXT={'segwit':'bc1qw508d6qejxtdg4y5r3zarvary0c5xw7kv8f3t4','legacy':'1BvBMSEYstWetqTFn5Au4m4GFg7xJaNVN2','p2sh-segwit':'3J98t1WpEZ73CNmQviecrnyiWrnqRhWNLy'}
def run(seed, wt, nops=14):
    rnd=random.Random(seed)
    db='sqlite:////tmp/exp/w/bcl4/h_%s_%d.sqlite'%(wt.replace('-','_'),seed)
    w=Wallet.create('h', keys=HDKey.from_seed(bytes([seed%256])*32, witness_type=wt), witness_type=wt, network='bitcoin', db_uri=db)
    model={}   # (txid,n) -> [value, address, spent]
    txn=0; sent=[]; problems=[]
    def check(tag):
        nonlocal w
        bal=w.balance()
        ut=w.utxos()
        su=sum(u['value'] for u in ut)
        exp=sum(v[0] for v in model.values() if not v[2])
        fresh=Wallet('h', db_uri=db)
        kb=sum(k.balance for k in fresh.keys(depth=5))
        kb_same=sum(k.balance for k in w.keys(depth=5))
        if not (bal==su==exp==kb):
            problems.append((tag,'bal',bal,'utxos',su,'model',exp,'keybal_fresh',kb,'keybal_same_session',kb_same))
        mset=sorted((k[0],k[1],v[0]) for k,v in model.items() if not v[2])
        uset=sorted((u['txid'],u['output_n'],u['value']) for u in ut)
        if mset!=uset: problems.append((tag,'utxo-set-diff',[x for x in mset if x not in uset][:2],[x for x in uset if x not in mset][:2]))
    for step in range(nops):
        op=rnd.choice(['add','add','send','send','sweep','delete','reopen','newkey'])
        try:
            if op=='add':
                k=rnd.choice(w.keys(depth=5) or [w.get_key()]); txn+=1
                txid='%064x'%(seed*1000+txn); n=rnd.randrange(3); val=rnd.choice([600,10000,50000,123456,10**6])
                conf=rnd.choice([0,1,6])
                w.utxo_add(k.address, val, txid, n, confirmations=conf)
                model[(txid,n)]=[val,k.address,False,conf]
            elif op=='newkey':
                w.new_key() if rnd.random()<0.5 else w.new_key_change()
            elif op=='send':
                amt=rnd.choice([1000,20000,60000,500000]); fee=rnd.choice([500,2000,None])
                try:
                    t=w.send_to(EXT[wt], amt, fee=fee, broadcast=True, min_confirms=rnd.choice([0,1]))
                except WalletError as e:
                    t=None
                if t is not None and t.pushed:
                    for i in t.inputs:
                        key=(i.prev_txid.hex(), i.output_n_int)
                        if key not in model or model[key][2]: problems.append((step,'SPENT-OR-UNKNOWN-INPUT',key))
                        else: model[key][2]=True
                    if sum(i.value for i in t.inputs)!=sum(o.value for o in t.outputs)+t.fee: problems.append((step,'conservation'))
                    for o in t.outputs:
                        if o.address!=EXT[wt]: model[(t.txid,o.output_n)]=[o.value,o.address,False,0]
                    sent.append(t)
                elif t is not None: problems.append((step,'not pushed',t.error))
            elif op=='sweep':
                try:
                    t=w.sweep(EXT[wt], broadcast=True, min_confirms=0, fee=1000)
                except WalletError as e: t=None
                if t is not None and t.pushed:
                    for i in t.inputs:
                        key=(i.prev_txid.hex(), i.output_n_int)
                        if key not in model or model[key][2]: problems.append((step,'SWEEP SPENT-OR-UNKNOWN-INPUT',key))
                        else: model[key][2]=True
                    sent.append(t)
            elif op=='delete' and sent:
                t=sent.pop()
                w.transaction_delete(t.txid)
                for i in t.inputs: model[(i.prev_txid.hex(), i.output_n_int)][2]=False
                for o in t.outputs: model.pop((t.txid,o.output_n),None)
            elif op=='reopen':
                w=Wallet('h', db_uri=db)
        except Exception as e:
            problems.append((step,op,'EXC',type(e).__name__,str(e)[:90]))
        check((step,op))
    return problems
tot=0
for wt in ('segwit','legacy','p2sh-segwit'):
    for seed in range(1,9):
        pr=run(seed, wt)
        tot+=1
        if pr:
            print(wt, seed, len(pr)); 
            for p in pr[:3]: print("    ",p)
print("histories", tot)
