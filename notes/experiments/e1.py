from bitcoinlib.encoding import *
from bitcoinlib.scripts import *
from bitcoinlib.keys import *
print("varint 0xfc..", [int_to_varbyteint(x).hex() for x in (0xfc,0xfd,0xfffe,0xffff,0x10000,0xfffffffe,0xffffffff,0x100000000)])
print("varstr(b'\\0')", varstr(b'\0').hex(), "varstr(b'')", varstr(b'').hex())
# base58 address dropped leading 1
a='1111111111111111111114oLvT2'
print(addr_base58_to_pubkeyhash(a).hex())
for bad in (a[1:], a[3:], '1'+a):
    try: print("accepted", bad, addr_base58_to_pubkeyhash(bad).hex())
    except Exception as e: print("rejected", bad, type(e).__name__, e)
a2='1AGNa15ZQXAZUgFiqJ2i7Z2DPU2J6hW62i'
for bad in (a2[1:], '1'+a2):
    try: print("accepted", bad, addr_base58_to_pubkeyhash(bad).hex())
    except Exception as e: print("rejected", bad, type(e).__name__, e)
    try: print("deser accepted", bad, deserialize_address(bad)['public_key_hash'])
    except Exception as e: print("deser rejected", bad, type(e).__name__, e)
# xpub with corrupted checksum
k=HDKey()
w=k.wif_private()
wp=k.wif_public()
def corrupt(s,i):
    alphabet='123456789ABCDEFGHJKLMNPQRSTUVWXYZabcdefghijkmnopqrstuvwxyz'
    c=alphabet[(alphabet.index(s[i])+1)%58]
    return s[:i]+c+s[i+1:]
for s in (w,wp):
    for i in (len(s)-1, len(s)-3, 50):
        b=corrupt(s,i)
        try:
            kk=HDKey(b); print("HDKey accepted corrupted at",i, kk.private_hex==k.private_hex, kk.public_hex==k.public_hex, kk.chain==k.chain)
        except Exception as e: print("HDKey rejected", i, type(e).__name__, e)
        try:
            kk=HDKey.from_wif(b); print("from_wif accepted corrupted at",i)
        except Exception as e: print("from_wif rejected", i, type(e).__name__, e)
# WIF
kw=Key().wif()
for i in (len(kw)-1, 10):
    try: Key(corrupt(kw,i)); print("Key wif accepted corrupt", i)
    except Exception as e: print("Key wif rejected", i, type(e).__name__, e)
