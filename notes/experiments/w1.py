import os, time, hashlib
t0=time.time()
import bitcoinlib.wallets as W
from bitcoinlib.wallets import *
from bitcoinlib.keys import HDKey
print("import", round(time.time()-t0,2))
class FakeService:
    sent=[]
    def __init__(self, *a, **k):
        self.results={'fake':1}; self.errors={}; self.complete=True; self.network=k.get('network')
    def estimatefee(self, blocks=3, priority=''): return 10000
    def blockcount(self): return 800000
    def sendrawtransaction(self, raw):
        txid=hashlib.sha256(hashlib.sha256(bytes.fromhex(raw)).digest()).digest()[::-1].hex()
        FakeService.sent.append(raw); return {'txid': None, 'response_dict': {}} if False else {'txid': 'PLACEHOLDER', 'response_dict': {}}
    def getutxos(self, *a, **k): return []
    def gettransactions(self, *a, **k): return []
    def getbalance(self, *a, **k): return 0
W.Service=FakeService
db='sqlite:////tmp/exp/w/bcl/test.sqlite'
t0=time.time()
w=Wallet.create('w1', keys=HDKey(b'\x01'*32+b'\x02'*32), witness_type='segwit', network='bitcoin', db_uri=db)
print("create", round(time.time()-t0,2))
ks=w.get_keys(number_of_keys=3)
for i,k in enumerate(ks):
    w.utxo_add(k.address, 100000*(i+1), ('%02x'%(i+1))*32, i, confirmations=5)
print("balance", w.balance(), [ (k.address_index, k.balance) for k in w.keys(depth=5)], len(w.utxos()))
# send with broadcast: need txid from result
def send_ok(self, raw):
    from bitcoinlib.transactions import Transaction
    t=Transaction.parse_hex(raw)
    return {'txid': t.txid, 'response_dict': {}}
FakeService.sendrawtransaction=send_ok
t0=time.time()
t=w.send_to('bc1qw508d6qejxtdg4y5r3zarvary0c5xw7kv8f3t4', 150000, fee=2000, broadcast=True)
print("send", round(time.time()-t0,2), t.pushed, t.error, "in", [i.value for i in t.inputs], "out", [(o.value,o.change) for o in t.outputs], "fee", t.fee)
print("balance after", w.balance(), "utxos", sorted((u['value']) for u in w.utxos()), "keybal", [(k.path, k.balance) for k in w.keys(depth=5) if k.balance])
w2=Wallet('w1', db_uri=db)
print("reopen balance", w2.balance(), sorted(u['value'] for u in w2.utxos()))
wt=w2.transaction(t.txid)
print("reload equal raw:", wt.raw_hex()==t.raw_hex(), wt.txid==t.txid, wt.fee, t.fee)
# delete the sent tx
w2.transaction_delete(t.txid)
print("after delete balance", w2.balance(), sorted(u['value'] for u in w2.utxos()), "keybal", [(k.path, k.balance) for k in w2.keys(depth=5) if k.balance], " WalletKey.balance():", [w2.key(k.id).balance() for k in w2.keys(depth=5)])
