import hashlib, itertools, random
from bitcoinlib.keys import *
from bitcoinlib.networks import NETWORK_DEFINITIONS
from bitcoinlib.transactions import Output
random.seed(8)
A58='123456789ABCDEFGHJKLMNPQRSTUVWXYZabcdefghijkmnopqrstuvwxyz'
def b58(b):
    n=int.from_bytes(b,'big'); s=''
    while n: n,r=divmod(n,58); s=A58[r]+s
    return '1'*(len(b)-len(b.lstrip(b'\0')))+s
def b58c(b): return b58(b+hashlib.sha256(hashlib.sha256(b).digest()).digest()[:4])
def h160(b): return hashlib.new('ripemd160', hashlib.sha256(b).digest()).digest()
CH="qpzry9x8gf2tvdw0s3jn54khce6mua7l"
def polymod(v):
    G=[0x3b6a57b2,0x26508e6d,0x1ea119fa,0x3d4233dd,0x2a1462b3]; c=1
    for x in v:
        b=c>>25; c=(c&0x1ffffff)<<5^x
        for i in range(5): c^=G[i] if (b>>i)&1 else 0
    return c
def bech(hrp,witver,prog):
    acc=0;bits=0;d=[]
    for x in prog:
        acc=(acc<<8)|x; bits+=8
        while bits>=5: bits-=5; d.append((acc>>bits)&31)
    if bits: d.append((acc<<(5-bits))&31)
    d=[witver]+d
    const=1 if witver==0 else 0x2bc830a3
    e=[ord(c)>>5 for c in hrp]+[0]+[ord(c)&31 for c in hrp]
    pm=polymod(e+d+[0]*6)^const
    return hrp+'1'+''.join(CH[x] for x in d+[(pm>>5*(5-i))&31 for i in range(6)])
bad=[]; n=0
for net,nd in NETWORK_DEFINITIONS.items():
    pa=bytes.fromhex(nd['prefix_address']); ps=bytes.fromhex(nd['prefix_address_p2sh']); hrp=nd['prefix_bech32']
    for _ in range(6):
        sec=random.choice([1,2,secp256k1_n-1,random.randrange(1,secp256k1_n), random.randrange(1,2**64)])
        for comp in (True,False):
            k=Key(sec, network=net, compressed=comp)
            pk=k.public_byte
            exp={}
            exp[('base58','p2pkh')]=b58c(pa+h160(pk))
            if comp:
                exp[('base58','p2sh_p2wpkh')]=b58c(ps+h160(b'\x00\x14'+h160(pk)))
                exp[('bech32','p2wpkh')]=bech(hrp,0,h160(pk))
                exp[('bech32','p2wsh')]=bech(hrp,0,hashlib.sha256(pk).digest())
                exp[('bech32','p2tr')]=bech(hrp,1,hashlib.sha256(pk).digest())
            for (enc,st),e in exp.items():
                n+=1
                try:
                    got=Key(sec, network=net, compressed=comp).address(encoding=enc, script_type=st)
                except Exception as x: got='EXC '+type(x).__name__+' '+str(x)[:50]
                if got!=e: bad.append((net,comp,enc,st,got,e))
                try:
                    got2=Address(pk, encoding=enc, script_type=st, network=net).address
                except Exception as x: got2='EXC '+type(x).__name__+' '+str(x)[:50]
                if got2!=e: bad.append((net,comp,enc,st,'Address()',got2,e))
                # Output from that address gives the standard script
                try:
                    o=Output(1000, address=e, network=net)
                    prog={'p2pkh':b'\x76\xa9\x14'+h160(pk)+b'\x88\xac','p2sh_p2wpkh':b'\xa9\x14'+h160(b'\x00\x14'+h160(pk))+b'\x87','p2wpkh':b'\x00\x14'+h160(pk),'p2wsh':b'\x00\x20'+hashlib.sha256(pk).digest(),'p2tr':b'\x51\x20'+hashlib.sha256(pk).digest()}[st]
                    if o.lock_script!=prog: bad.append((net,enc,st,'OUTPUT',o.lock_script.hex(),prog.hex()))
                    o2=Output(1000, lock_script=prog, network=net)
                    if o2.address!=e: bad.append((net,enc,st,'OUT->ADDR',o2.address,e))
                except Exception as x: bad.append((net,enc,st,'OUTPUT EXC',type(x).__name__,str(x)[:60]))
print("checked",n,"bad",len(bad))
seen=set()
for b in bad:
    key=(b[0],)+tuple(b[2:4]) if len(b)<7 else b[:4]
    if key in seen: continue
    seen.add(key); print(b)
