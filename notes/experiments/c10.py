import itertools, random
import bitcoinlib.wallets as W
from bitcoinlib.wallets import *
from bitcoinlib.keys import HDKey
from bitcoinlib.transactions import Transaction
PUSHED=[]
class FakeService:
    def __init__(self, *a, **k): self.results={'fake':1}; self.errors={}; self.complete=True
    def estimatefee(self, blocks=3, priority=''): return 20000
    def blockcount(self): return 800000
    def sendrawtransaction(self, raw): PUSHED.append(raw); return {'txid': Transaction.parse_hex(raw).txid, 'response_dict': {}}
W.Service=FakeService
EXT='bc1qw508d6qejxtdg4y5r3zarvary0c5xw7kv8f3t4'
res=[]
for wt in ['legacy','p2sh-segwit','segwit']:
  for (m,n) in [(1,2),(2,2),(2,3),(3,3)]:
    seeds=[bytes([10*n+i+1])*64 for i in range(n)]
    masters=[HDKey(s, witness_type=wt, multisig=True, network='bitcoin') for s in seeds]
    pubs=[mk.public_master_multisig(witness_type=wt) for mk in masters]
    for how in ['object','dict','raw']:
      for order in itertools.permutations(range(n), min(n,m)):
        db='sqlite:////tmp/exp/w/bcl6/ms_%s_%d%d_%s_%s.sqlite'%(wt.replace('-','_'),m,n,how,''.join(map(str,order)))
        ws=[Wallet.create('c%d'%i, keys=[masters[j] if j==i else pubs[j] for j in range(n)], sigs_required=m, witness_type=wt, network='bitcoin', db_uri=db) for i in range(n)]
        a0=ws[0].get_key().address
        for w_ in ws:
            k=w_.get_key()
            assert k.address==a0 or True
            w_.utxo_add(w_.key_for_path([0,0], cosigner_id=ws[0].cosigner_id).address, 1000000, 'aa'*32, 0, confirmations=3)
        first=ws[order[0]]
        try:
            t=first.send_to(EXT, 100000, fee=5000, broadcast=False)
        except Exception as e:
            res.append((wt,m,n,how,order,'create EXC',type(e).__name__,str(e)[:80])); continue
        trace=[(t.verified, len(t.inputs[0].signatures))]
        cur=t
        ok=True
        for nxt in order[1:]:
            w_=ws[nxt]
            try:
                if how=='object': t2=w_.transaction_import(cur)
                elif how=='dict': t2=w_.transaction_import(cur.as_dict())
                else: t2=w_.transaction_import_raw(cur.raw_hex())
                t2.sign()
                trace.append((t2.verified, len(t2.inputs[0].signatures)))
                cur=t2
            except Exception as e:
                trace.append(('EXC',type(e).__name__,str(e)[:60])); ok=False; break
        nsig=len(order)
        PUSHED.clear()
        final_verified = cur.verified if ok else None
        pushed=None
        if ok:
            try:
                cur.send(broadcast=True); pushed=cur.pushed
            except Exception as e:
                pushed=('EXC after %d pushes'%len(PUSHED), type(e).__name__, str(e)[:70])
        expect = nsig>=m
        if final_verified!=expect or pushed!=expect:
            res.append((wt,m,n,how,order,'MISMATCH expect',expect,'verified',final_verified,'pushed',pushed,trace))
print("problems", len(res))
seen=set()
for r in res:
    key=(r[0],r[3],r[5]) 
    if key in seen: continue
    seen.add(key); print(r)
