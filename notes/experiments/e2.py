from bitcoinlib.encoding import *
from bitcoinlib.scripts import *
from bitcoinlib.keys import *
from bitcoinlib.config.secp256k1 import *
import copy, pickle
alphabet='123456789ABCDEFGHJKLMNPQRSTUVWXYZabcdefghijkmnopqrstuvwxyz'
def corrupt(s,i):
    c=alphabet[(alphabet.index(s[i])+1)%58]
    return s[:i]+c+s[i+1:]
k=HDKey('xprv9s21ZrQH143K4LvcS93AHEZh7gBiYND6zMoRiZQGL5wqbpCU2KJDY87Txuv9dduk9hAcsL76F8b5JKzDREf8EmXjbUwN1c4nR9GEx56QGg2')
w=k.wif_private()
acc=0; diff=0
for i in range(len(w)):
    try:
        kk=HDKey(corrupt(w,i)); acc+=1
        if kk.private_hex!=k.private_hex or kk.chain!=k.chain or kk.depth!=k.depth: diff+=1
    except Exception as e: pass
print("xprv single-substitution: accepted",acc,"of",len(w),"with different key material",diff)
# C03
pub=k.public()
for path in ["M/0'", "0'", "0h", "2147483648", "M/2147483648"]:
    try:
        c=pub.subkey_for_path(path); print("public parent path",path,"->",c.child_index, c.public_hex[:16], "same as nonhardened 0:", c.public_hex==pub.child_public(0).public_hex)
    except Exception as e: print("public parent path",path,"rejected",type(e).__name__,e)
try:
    c=pub.child_public(0x80000000); print("child_public(2^31) accepted", c.child_index)
except Exception as e: print("child_public(2^31) rejected", e)
c1=k.child_private(0x80000000, hardened=False); c2=k.child_private(0, hardened=True)
print("child_private(2^31,hardened=False)==child_private(0,hardened=True):", c1.private_hex==c2.private_hex, c1.child_index, c2.child_index)
print("subkey m/2147483648 == m/0' :", k.subkey_for_path("m/2147483648").private_hex==k.subkey_for_path("m/0'").private_hex)
# C04 invalid keys
for sec in (0, secp256k1_n, secp256k1_n+5, 2**256-1):
    try:
        kk=Key(sec); print("Key(",hex(sec)[:12],") accepted; pub", kk.public_hex, kk.address())
    except Exception as e: print("Key(",hex(sec)[:12],") rejected", type(e).__name__, str(e)[:80])
    try:
        kk=Key(sec.to_bytes(32,'big')); print("Key(bytes",hex(sec)[:12],") accepted; pub", kk.public_hex)
    except Exception as e: print("Key(bytes",hex(sec)[:12],") rejected", type(e).__name__, str(e)[:80])
# off-curve x: x=5? check
def oncurve(x):
    ys=(pow(x,3,secp256k1_p)+7)%secp256k1_p
    y=pow(ys,(secp256k1_p+1)//4,secp256k1_p)
    return (y*y)%secp256k1_p==ys
xs=[x for x in range(1,30) if not oncurve(x)][:2]
for x in xs:
    h='02'+'%064x'%x
    try:
        kk=Key(h); print("off-curve x",x,"accepted; uncompressed",kk.public_uncompressed_hex[:20],"addr",kk.address(), kk.address_uncompressed())
    except Exception as e: print("off-curve rejected",type(e).__name__,e)
# uncompressed with wrong y
g=Key(1)
bad='04'+g.x_hex+'%064x'%((g.y+1)%secp256k1_p)
try:
    kk=Key(bad); print("wrong-y uncompressed accepted", kk.address())
except Exception as e: print("wrong-y rejected",e)
# x >= p
try:
    kk=Key('02'+'%064x'%(secp256k1_p+1)); print("x>=p accepted", kk.public_uncompressed_hex[:12])
except Exception as e: print("x>=p rejected",e)
# C16
kk=Key()
wifp=kk.wif()
pubk=kk.public()
print("public() leaks _wif:", pubk._wif==wifp, wifp in repr(pickle.dumps(pubk)) or wifp.encode() in pickle.dumps(pubk))
hk=HDKey()
hk.wif_key(); 
ph=hk.public()
print("HDKey.public() leaks _wif:", ph._wif is not None, " key_hex attr:", getattr(ph,'key_hex',None)==ph.public_hex)
d=ph.__dict__
sec=hk.private_hex
print("any attr contains private hex:", [a for a,v in d.items() if isinstance(v,(str,bytes)) and (sec in (v if isinstance(v,str) else v.hex()))])
