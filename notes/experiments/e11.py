from bitcoinlib.transactions import *
from bitcoinlib.keys import *
import copy, random
random.seed(2)
def build(kind):
    t=Transaction(network='bitcoin', witness_type='segwit')
    ks=[Key(random.randrange(1,2**200)) for _ in range(3)]
    txid=bytes(range(32))
    if kind=='p2wpkh': t.add_input(txid,0,keys=[ks[0]],script_type='sig_pubkey',value=100000,witness_type='segwit')
    if kind=='p2pkh': t.add_input(txid,0,keys=[ks[0]],script_type='sig_pubkey',value=100000,witness_type='legacy')
    if kind=='p2sh_ms': t.add_input(txid,0,keys=ks,script_type='p2sh_multisig',sigs_required=2,value=100000,witness_type='legacy')
    if kind=='p2wsh_ms': t.add_input(txid,0,keys=ks,script_type='p2sh_multisig',sigs_required=2,value=100000,witness_type='segwit')
    t.add_output(90000, lock_script=b'\x00\x14'+bytes(20))
    return t,ks
for kind in ('p2wpkh','p2pkh','p2sh_ms','p2wsh_ms'):
    t,ks=build(kind)
    if 'ms' in kind:
        t.sign([ks[0]]); v1=t.verify()
        t.sign([ks[2]]); v2=t.verify()
        print(kind,"1 sig verify:",v1,"2 sigs verify:",v2, "nsigs", len(t.inputs[0].signatures))
    else:
        t.sign([ks[0]]); print(kind,"verify:",t.verify())
    raw=t.raw()
    t2=Transaction.parse(raw)
    t2.inputs[0].value=100000
    print("  reparsed verify:", t2.verify())
    # tamper output
    t3=copy.deepcopy(t); t3.outputs[0].value=90001; print("  tamper out value:", t3.verify())
    t4=copy.deepcopy(t); t4.inputs[0].value=100001; print("  tamper in value:", t4.verify())
    t5=copy.deepcopy(t); t5.locktime=5; print("  tamper locktime:", t5.verify())
    t6=copy.deepcopy(t); t6.inputs[0].sequence=7; print("  tamper seq:", t6.verify())
    t7=copy.deepcopy(t); t7.inputs[0].output_n=(1).to_bytes(4,'big'); t7.inputs[0].output_n_int=1; print("  tamper outpoint n:", t7.verify())
    t8=copy.deepcopy(t); t8.version=b'\0\0\0\3'; t8.version_int=3; print("  tamper version:", t8.verify())
    # foreign key sig in multisig
    if 'ms' in kind:
        t9,ks9=build(kind); fk=Key(12345)
        try:
            t9.sign([ks9[0]]); t9.sign([fk], fail_on_unknown_key=False); print("  foreign signer:", t9.verify(), len(t9.inputs[0].signatures))
        except Exception as e: print("  foreign EXC", e)
        # same key twice
        t10,ks10=build(kind); t10.sign([ks10[1]]); t10.sign([ks10[1]]); print("  same key twice:", t10.verify(), len(t10.inputs[0].signatures))
        # duplicate signature injection
        t11,ks11=build(kind); t11.sign([ks11[1]]); t11.inputs[0].signatures=t11.inputs[0].signatures*2; print("  dup sig injected:", t11.verify())
