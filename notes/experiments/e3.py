from bitcoinlib.encoding import *
from bitcoinlib.scripts import *
from bitcoinlib.keys import *
from bitcoinlib.config.secp256k1 import *
import inspect
n=secp256k1_n
print("float n/2 == 2**255:", n/2 == 2**255, " n//2 < 2**255:", n//2 < 2**255)
d=0x1234567890abcdef1234567890abcdef1234567890abcdef1234567890abcdef
kn=0xabcdef
R=ec_point(kn); r=R.x % n
s_target = n//2 + 1
z=(s_target*kn - r*d) % n
sig=sign('%064x'%z, Key(d), k=kn)
print("s == n//2+1 (high S, not normalised):", sig.s==s_target, sig.s > n//2)
# other twin
s_t2 = n - s_target
z2=(s_t2*kn - r*d)%n
sig2=sign('%064x'%z2, Key(d), k=kn); print("low twin ok:", sig2.s<=n//2)
print("verify high-s sig:", verify('%064x'%z, sig, Key(d).public()))
# determinism
a=sign('%064x'%z, Key(d)); b=sign('%064x'%z, Key(d)); print("deterministic:", a.r==b.r and a.s==b.s, "k:", a.k==b.k)
# C15 default args
import bitcoinlib.keys as K
print(inspect.signature(K.bip38_create_new_encrypted_wif))
ip=K.bip38_intermediate_password("pw")
ip2=K.bip38_intermediate_password("pw")
print("intermediate same across calls:", ip==ip2)
r1=K.bip38_create_new_encrypted_wif(ip); r2=K.bip38_create_new_encrypted_wif(ip)
print("new encrypted wif same across calls:", r1['encrypted_wif']==r2['encrypted_wif'], r1['address']==r2['address'])
