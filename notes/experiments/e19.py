import json, time, random
from bitcoinlib.keys import *
random.seed(4)
vec=json.load(open('/repo/tests/bip38_protected_key_tests.json'))
print(type(vec), len(vec), list(vec[0].keys()) if isinstance(vec,list) else list(vec.keys())[:5])
t0=time.time()
k=Key(random.randrange(1,2**250)); 
for comp in (True, False):
    kk=Key(k.secret, compressed=comp)
    for pw in ('test', 'pässwörd', ''):
        try:
            e=kk.encrypt(pw)
            d=Key(e, password=pw)
            print("comp",comp,"pw",repr(pw),"roundtrip", d.secret==kk.secret, d.compressed==comp, e[:6])
            try:
                w=Key(e, password=pw+'x'); print("   WRONG PW ACCEPTED", w.secret==kk.secret)
            except Exception as x: print("   wrong pw rejected:", type(x).__name__)
        except Exception as x: print("comp",comp,"pw",repr(pw),"EXC",type(x).__name__,str(x)[:80])
print("time", round(time.time()-t0,1))
# other networks
for net in ('testnet','litecoin','dogecoin'):
    kk=Key(k.secret, network=net)
    e=kk.encrypt('pw')
    try:
        d=Key(e, password='pw', network=net); print(net, "roundtrip", d.secret==kk.secret)
    except Exception as x: print(net,"EXC",type(x).__name__,str(x)[:80])
    try:
        d=Key(e, password='pw'); print(net, "no-network-hint decrypt:", d.secret==kk.secret, d.network.name)
    except Exception as x: print(net,"no hint EXC",type(x).__name__,str(x)[:80])
# EC multiplied
ip=bip38_intermediate_password("TestingOneTwoThree", owner_salt=bytes(range(8)))
r=bip38_create_new_encrypted_wif(ip, seed=bytes(range(24)))
pk,ah,comp,info=bip38_decrypt(r['encrypted_wif'],"TestingOneTwoThree")
print("EC roundtrip address equal:", info['address']==r['address'], comp)
try:
    bip38_decrypt(r['encrypted_wif'],"wrong"); print("EC wrong pw ACCEPTED")
except Exception as x: print("EC wrong pw rejected", type(x).__name__)
ip2=bip38_intermediate_password("pw", lot=123456, sequence=7, owner_salt=bytes(range(4)))
r2=bip38_create_new_encrypted_wif(ip2, seed=bytes(range(24)), compressed=False)
pk,ah,comp,info=bip38_decrypt(r2['encrypted_wif'],"pw")
print("EC lot/seq roundtrip:", info['address']==r2['address'], comp, info['lot'], info['sequence'])
