import bitcoinlib.wallets as W
from bitcoinlib.wallets import *
from bitcoinlib.keys import HDKey
from bitcoinlib.transactions import Transaction
class FakeService:
    def __init__(self, *a, **k): self.results={'fake':1}; self.errors={}; self.complete=True
    def estimatefee(self, blocks=3, priority=''): return 20000
    def blockcount(self): return 800000
    def sendrawtransaction(self, raw): return {'txid': Transaction.parse_hex(raw).txid, 'response_dict': {}}
W.Service=FakeService
EXT='bc1qw508d6qejxtdg4y5r3zarvary0c5xw7kv8f3t4'
wt='p2sh-segwit'; m=n=3
seeds=[bytes([10*n+i+1])*64 for i in range(n)]
masters=[HDKey(s, witness_type=wt, multisig=True, network='bitcoin') for s in seeds]
pubs=[mk.public_master_multisig(witness_type=wt) for mk in masters]
db='sqlite:////tmp/exp/w/bcl7/x.sqlite'
ws=[Wallet.create('c%d'%i, keys=[masters[j] if j==i else pubs[j] for j in range(n)], sigs_required=m, witness_type=wt, network='bitcoin', db_uri=db) for i in range(n)]
for w_ in ws:
    w_.utxo_add(w_.key_for_path([0,0], cosigner_id=ws[0].cosigner_id).address, 1000000, 'aa'*32, 0, confirmations=3)
t=ws[0].send_to(EXT, 100000, fee=5000, broadcast=False)
print("step0 verified", t.verified, "sigs", len(t.inputs[0].signatures), "required", t.inputs[0].sigs_required, "type", t.inputs[0].script_type, t.inputs[0].witness_type)
raw=t.raw_hex()
print("raw has witness?", '0001' == raw[8:12], len(raw))
t2=ws[1].transaction_import_raw(raw)
i=t2.inputs[0]
print("imported: sigs", len(i.signatures), "required", i.sigs_required, "keys", len(i.keys), "type", i.script_type, i.witness_type, "value", i.value)
t2.sign()
i=t2.inputs[0]
print("after sign: verified", t2.verified, "verify()", t2.verify(), "sigs", len(i.signatures), "required", i.sigs_required, "keys", len(i.keys), "redeemscript", i.redeemscript.hex()[:8], "valid", i.valid)
t2.send(broadcast=True); print("pushed:", t2.pushed, t2.error)
