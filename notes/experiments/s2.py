import os, json, types, sys, random, struct
import bitcoinlib
from bitcoinlib.config.config import BCL_DATA_DIR
from datetime import datetime, timezone
provs={'fake0':{"provider":"fakeprov","network":"bitcoin","client_class":"FakeClient0","provider_coin_id":"","url":"http://x/","api_key":"","priority":10,"denominator":1,"network_overrides":None,"timeout":0}}
json.dump(provs, open(os.path.join(BCL_DATA_DIR,'providers.json'),'w'))
import bitcoinlib.services as services
from bitcoinlib.services.baseclient import BaseClient, ClientError
from bitcoinlib.transactions import Transaction
from bitcoinlib.keys import Key
calls=[]
TXS={}
class FakeClient0(BaseClient):
    def __init__(self, network, base_url, denominator, *args):
        super().__init__(network, 'fake0', base_url, denominator, *args)
    def blockcount(self): return 800000
    def gettransaction(self, txid):
        calls.append(txid); return TXS[txid]()
mod=types.ModuleType('bitcoinlib.services.fakeprov'); mod.FakeClient0=FakeClient0
services.fakeprov=mod; sys.modules['bitcoinlib.services.fakeprov']=mod
from bitcoinlib.services.services import Service
random.seed(3)
def mk(kind):
    k=Key(random.randrange(1,2**200)); ks=[Key(random.randrange(1,2**200)) for _ in range(3)]
    t=Transaction(network='bitcoin', witness_type='segwit')
    txid=bytes(random.randrange(256) for _ in range(32))
    if kind=='p2wpkh': t.add_input(txid,1,keys=[k],script_type='sig_pubkey',value=100000,witness_type='segwit')
    if kind=='p2pkh': t.add_input(txid,1,keys=[k],script_type='sig_pubkey',value=100000,witness_type='legacy')
    if kind=='p2sh_p2wpkh': t.add_input(txid,1,keys=[k],script_type='p2sh_p2wpkh',value=100000,witness_type='p2sh-segwit')
    if kind=='p2sh_ms': t.add_input(txid,0,keys=ks,script_type='p2sh_multisig',sigs_required=2,value=100000,witness_type='legacy')
    if kind=='p2wsh_ms': t.add_input(txid,0,keys=ks,script_type='p2sh_multisig',sigs_required=2,value=100000,witness_type='segwit')
    if kind=='p2sh_p2wsh_ms': t.add_input(txid,0,keys=ks,script_type='p2sh_p2wsh',sigs_required=2,value=100000,witness_type='p2sh-segwit')
    t.add_output(60000, lock_script=b'\x00\x14'+bytes(20)); t.add_output(30000, lock_script=b'\x76\xa9\x14'+bytes([5]*20)+b'\x88\xac')
    t.sign([k] if 'ms' not in kind else ks[:2])
    return t.raw_hex()
srv=Service(network='bitcoin', providers=['fakeprov'], cache_uri='sqlite:////tmp/exp/w/bcl3/cache.sqlite')
for kind in ('p2pkh','p2wpkh','p2sh_p2wpkh','p2sh_ms','p2wsh_ms','p2sh_p2wsh_ms'):
    raw=mk(kind)
    def prov(raw=raw):
        t=Transaction.parse_hex(raw)
        t.block_height=700000; t.confirmations=100001; t.date=datetime(2021,1,1,tzinfo=timezone.utc); t.status='confirmed'
        for i in t.inputs: i.value=100000
        t.update_totals(); return t
    txid=prov().txid; TXS[txid]=prov
    calls.clear()
    a=srv.gettransaction(txid); n1=len(calls)
    b=srv.gettransaction(txid); n2=len(calls)
    print(kind, "provider calls", n1, n2, "cache_n", srv.results_cache_n, "raw equal:", b.raw_hex()==raw, "txid equal:", b.txid==txid, "fee", a.fee, b.fee, "in", [(i.value,i.address[:8]) for i in b.inputs]==[(i.value,i.address[:8]) for i in a.inputs], "verify", b.verify())
    if b.raw_hex()!=raw: print("   ", raw[:120]); print("   ", b.raw_hex()[:120])
