from bitcoinlib.encoding import *
from bitcoinlib.scripts import *
from bitcoinlib.transactions import *
def ev(cmds):
    s=Script(cmds)
    try:
        r=s.evaluate(); return r, [x.hex() if isinstance(x,bytes) else x for x in s.stack]
    except Exception as e: return 'EXC '+type(e).__name__, None
print("5 3 SUB -> expect 2:", ev([op.op_5, op.op_3, op.op_sub, op.op_2, op.op_equal]))
print("3 5 LESSTHAN expect true:", ev([op.op_3, op.op_5, op.op_lessthan]))
print("1 2 3 4 2SWAP:", ev([op.op_1,op.op_2,op.op_3,op.op_4,op.op_2swap, op.op_1]))
print("1 2 TUCK:", ev([op.op_1,op.op_2,op.op_tuck,op.op_1]))
print("7 8 9 0 PICK:", ev([op.op_7,op.op_8,op.op_9,op.op_0,op.op_pick,op.op_1]))
print("7 8 9 1 ROLL:", ev([op.op_7,op.op_8,op.op_9,op.op_1,op.op_roll,op.op_1]))
print("3 2 4 WITHIN (x=3,min=2,max=4 expect true):", ev([op.op_3,op.op_2,op.op_4,op.op_within]))
print("push 00 as final (consensus false):", ev([b'\x00']))
print("push 80 as final (neg zero, consensus false):", ev([b'\x80']))
print("00 VERIFY 1:", ev([b'\x00', op.op_verify, op.op_1]))
print("00 NOT (expect 1):", ev([b'\x00', op.op_not]))
print("00 0 NUMEQUAL (expect true):", ev([b'\x00', op.op_0, op.op_numequal]))
print("CSV with anything:", Script([op.op_1, op.op_checksequenceverify]).evaluate(env_data={'sequence':0xffffffff,'version':1}))
print("CLTV 100 with tx locktime 60000000 seq 0:", Script([b'\x64', op.op_checklocktimeverify]).evaluate(env_data={'sequence':0,'locktime':60000000}))
print("0 IF ELSE 1 ELSE 0 ENDIF-like multiple else:", ev([op.op_0, op.op_if, op.op_0, op.op_else, op.op_1, op.op_else, op.op_0, op.op_endif]))
print("opcodes", [ (k,v) for k,v in opcodenames.items() if k in (0xb1,0xb2,0x6b,0x6c,0xab)])
print(sorted(m for m in dir(Stack) if m.startswith('op_')))
