from bitcoinlib.values import *
import random
from decimal import Decimal
random.seed(7)
def fmt(n):  # n sat -> decimal string BTC
    return "%d.%08d" % (n//10**8, n%10**8)
bad=[]
N=400000
for _ in range(N):
    n=random.randrange(0, 21*10**14+1)
    if value_to_satoshi(fmt(n)+' BTC')!=n: bad.append(('str',n))
    if Value.from_satoshi(n).value_sat!=n: bad.append(('from_sat',n))
print("random: bad", len(bad), bad[:10])
bad=[]
for n in range(21*10**14-300000, 21*10**14+1):
    if value_to_satoshi(fmt(n)+' BTC')!=n: bad.append(('str',n))
    if Value.from_satoshi(n).value_sat!=n: bad.append(('from_sat',n))
print("top range: bad", len(bad), bad[:10])
# str round trip
bad=[]
for _ in range(100000):
    n=random.randrange(0, 21*10**14+1)
    s=Value.from_satoshi(n).str(1)
    if value_to_satoshi(s)!=n: bad.append((n,s))
print("str(1) roundtrip bad", len(bad), bad[:5])
for den in ('m','µ','sat','k','fin','c','msat'):
    bad=[]
    for _ in range(20000):
        n=random.randrange(0, 21*10**14+1)
        try:
            s=Value.from_satoshi(n).str(den)
            if value_to_satoshi(s)!=n: bad.append((n,s,value_to_satoshi(s)))
        except Exception as e:
            bad.append((n,'EXC',str(e))); break
    print("den",den,"bad",len(bad),bad[:3])
print(Value.from_satoshi(123456789).str('m'), Value.from_satoshi(2099999999999999).str(1), Value('0.1 BTC').value_sat, Value('0.29 BTC').value_sat, value_to_satoshi('20999999.99999999 BTC'))
print(value_to_satoshi('1.5 sat'), value_to_satoshi('2.5 sat'), value_to_satoshi('0.000000015 BTC'), value_to_satoshi('-1 BTC'))
