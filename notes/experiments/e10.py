import hashlib, struct, random
from bitcoinlib.transactions import *
from bitcoinlib.keys import *
from bitcoinlib.scripts import *
def dsha(b): return hashlib.sha256(hashlib.sha256(b).digest()).digest()
def cs(n):
    if n<0xfd: return bytes([n])
    if n<=0xffff: return b'\xfd'+struct.pack('<H',n)
    if n<=0xffffffff: return b'\xfe'+struct.pack('<I',n)
    return b'\xff'+struct.pack('<Q',n)
def vs(b): return cs(len(b))+b
def h160(b): return hashlib.new('ripemd160', hashlib.sha256(b).digest()).digest()
def legacy_sighash(ver, ins, outs, lt, i, scriptcode, ht=1):
    r=struct.pack('<I',ver)+cs(len(ins))
    for j,(txid,n,seq) in enumerate(ins):
        r+=txid[::-1]+struct.pack('<I',n)+(vs(scriptcode) if j==i else b'\x00')+struct.pack('<I',seq)
    r+=cs(len(outs))
    for v,spk in outs: r+=struct.pack('<Q',v)+vs(spk)
    r+=struct.pack('<I',lt)+struct.pack('<I',ht)
    return dsha(r)
def bip143(ver, ins, outs, lt, i, scriptcode, amount, ht=1):
    hp=dsha(b''.join(t[::-1]+struct.pack('<I',n) for t,n,s in ins))
    hs=dsha(b''.join(struct.pack('<I',s) for t,n,s in ins))
    ho=dsha(b''.join(struct.pack('<Q',v)+vs(spk) for v,spk in outs))
    t,n,s=ins[i]
    return dsha(struct.pack('<I',ver)+hp+hs+t[::-1]+struct.pack('<I',n)+vs(scriptcode)+struct.pack('<Q',amount)+struct.pack('<I',s)+ho+struct.pack('<I',lt)+struct.pack('<I',ht))
random.seed(11)
def rk(): return Key(random.randrange(1,2**200))
def ms_script(m,keys): return bytes([80+m])+b''.join(vs(k.public_byte) for k in keys)+bytes([80+len(keys),0xae])
kinds=['p2pkh','p2pk','p2sh_ms','p2wpkh','p2wsh_ms','p2sh_p2wpkh','p2sh_p2wsh_ms', 'p2pkh_unc']
problems=[]
for trial in range(120):
    nin=random.randrange(1,5); nout=random.randrange(1,4)
    ver=random.choice([1,2]); lt=random.choice([0,0,500000, 1700000000])
    t=Transaction(version=ver, locktime=lt, network='bitcoin', witness_type='segwit')
    ins=[]; meta=[]
    for i in range(nin):
        kind=random.choice(kinds)
        txid=bytes(random.randrange(256) for _ in range(32)); n=random.randrange(0,5)
        seq=random.choice([0xffffffff,0xfffffffe,0xfffffffd,5,0])
        val=random.choice([1000, 2**32+5, 21*10**14, 123456789])
        if kind in('p2pkh','p2pkh_unc'):
            k=rk(); 
            if kind=='p2pkh_unc': k=Key(k.secret, compressed=False)
            t.add_input(txid,n,keys=[k],script_type='sig_pubkey',sequence=seq,value=val,witness_type='legacy', compressed=k.compressed)
            pk=k.public_byte
            sc=b'\x76\xa9\x14'+h160(pk)+b'\x88\xac'; meta.append(('legacy',sc,val))
        elif kind=='p2pk':
            k=rk(); t.add_input(txid,n,keys=[k],script_type='signature',sequence=seq,value=val,witness_type='legacy')
            sc=vs(k.public_byte)+b'\xac'; meta.append(('legacy',sc,val))
        elif kind=='p2sh_ms':
            nk=random.randrange(1,5); m=random.randrange(1,nk+1); ks=[rk() for _ in range(nk)]
            t.add_input(txid,n,keys=ks,script_type='p2sh_multisig',sigs_required=m,sequence=seq,value=val,witness_type='legacy')
            meta.append(('legacy',ms_script(m,ks),val))
        elif kind=='p2wpkh':
            k=rk(); t.add_input(txid,n,keys=[k],script_type='sig_pubkey',sequence=seq,value=val,witness_type='segwit')
            meta.append(('segwit',b'\x76\xa9\x14'+h160(k.public_byte)+b'\x88\xac',val))
        elif kind=='p2sh_p2wpkh':
            k=rk(); t.add_input(txid,n,keys=[k],script_type='p2sh_p2wpkh',sequence=seq,value=val,witness_type='p2sh-segwit')
            meta.append(('segwit',b'\x76\xa9\x14'+h160(k.public_byte)+b'\x88\xac',val))
        elif kind=='p2wsh_ms':
            nk=random.randrange(1,5); m=random.randrange(1,nk+1); ks=[rk() for _ in range(nk)]
            t.add_input(txid,n,keys=ks,script_type='p2sh_multisig',sigs_required=m,sequence=seq,value=val,witness_type='segwit')
            meta.append(('segwit',ms_script(m,ks),val))
        elif kind=='p2sh_p2wsh_ms':
            nk=random.randrange(1,5); m=random.randrange(1,nk+1); ks=[rk() for _ in range(nk)]
            t.add_input(txid,n,keys=ks,script_type='p2sh_p2wsh',sigs_required=m,sequence=seq,value=val,witness_type='p2sh-segwit')
            meta.append(('segwit',ms_script(m,ks),val))
        ins.append((txid,n,seq))
    outs=[]
    for o in range(nout):
        v=random.choice([0,546,10**8,21*10**14, 2**32])
        spk=random.choice([b'\x76\xa9\x14'+bytes(20)+b'\x88\xac', b'\xa9\x14'+bytes([7]*20)+b'\x87', b'\x00\x14'+bytes([9]*20), b'\x00\x20'+bytes([3]*32), b'\x51\x20'+bytes([4]*32), b'\x6a\x04abcd'])
        if spk[0]==0x6a: v=0
        t.add_output(v, lock_script=spk); outs.append((v,spk))
    ver_eff=t.version_int
    for i in range(nin):
        wt,sc,val=meta[i]
        try:
            h=t.signature_hash(i, 1, t.inputs[i].witness_type)
        except Exception as e:
            problems.append((trial,i,'EXC',str(e)[:80])); continue
        exp = legacy_sighash(ver_eff,ins,outs,lt,i,sc) if wt=='legacy' else bip143(ver_eff,ins,outs,lt,i,sc,val)
        if h!=exp: problems.append((trial,i,t.inputs[i].script_type,t.inputs[i].witness_type,'MISMATCH', ver, ver_eff, t.version.hex()))
print("sighash problems", len(problems)); 
for p in problems[:15]: print(p)
