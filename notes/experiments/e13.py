from bitcoinlib.transactions import *
from bitcoinlib.keys import *
from bitcoinlib.encoding import *
for witver,L in [(0,20),(0,32),(1,32),(1,20),(2,32),(16,2),(2,40),(1,33)]:
    prog=bytes(range(1,L+1))
    try:
        a=pubkeyhash_to_addr_bech32(prog, 'bc', witver=witver)
    except Exception as e: print("enc EXC",witver,L,e); continue
    try:
        o=Output(1000, address=a)
        exp=bytes([0x50+witver if witver else 0, L])+prog
        print(witver,L,a, "script", o.lock_script.hex(), "OK" if o.lock_script==exp else "WRONG expected "+exp.hex(), o.script_type)
    except Exception as e: print(witver,L,a,"Output EXC",type(e).__name__,str(e)[:90])
# script -> address
for s in ['5120'+'11'*32, '5220'+'11'*32, '5114'+'11'*20, '6002aabb', '0014'+'22'*20, 'a914'+'33'*20+'87', '76a914'+'44'*20+'88ac', '0020'+'55'*32]:
    try:
        o=Output(1000, lock_script=bytes.fromhex(s)); print(s[:12], o.script_type, o.address)
    except Exception as e: print(s[:12],"EXC",type(e).__name__,str(e)[:80])
# wrong network
for addr,net in [('tb1qw508d6qejxtdg4y5r3zarvary0c5xw7kxpjzsx','bitcoin'), ('mipcBbFg9gMiCh81Kj8tqqdgoZub1ZJRfn','bitcoin'), ('LM2WMpR1Rp6j3Sa59cMXMs1SPzj9eXpGc1','bitcoin'), ('1BvBMSEYstWetqTFn5Au4m4GFg7xJaNVN2','litecoin'), ('bc1qw508d6qejxtdg4y5r3zarvary0c5xw7kv8f3t4','regtest'),('1BvBMSEYstWetqTFn5Au4m4GFg7xJaNVN2','regtest')]:
    try:
        t=Transaction(network=net); t.add_output(1000, addr); print(addr[:12],net,"ACCEPTED", t.outputs[0].lock_script.hex())
    except Exception as e: print(addr[:12],net,"rejected",type(e).__name__)
