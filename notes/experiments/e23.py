import io, contextlib, json, pickle, copy
import bitcoinlib.wallets as W
from bitcoinlib.wallets import *
from bitcoinlib.keys import HDKey, Key
class FakeService:
    def __init__(self, *a, **k): self.results={'fake':1}; self.errors={}; self.complete=True
    def estimatefee(self, blocks=3, priority=''): return 10000
    def blockcount(self): return 800000
W.Service=FakeService
db='sqlite:////tmp/exp/bclD/k.sqlite'
m=HDKey.from_seed(bytes(range(64)), network='bitcoin', witness_type='segwit')
w=Wallet.create('leak', keys=m, witness_type='segwit', network='bitcoin', db_uri=db)
k=w.new_key()
def encodings(hk):
    encs=set()
    sec=hk.secret
    encs|={hk.private_hex, hk.private_hex.upper(), str(sec), hk.wif_key(), Key(sec,compressed=False).wif(), hk.wif_private()}
    encs|={hk.private_byte}
    return encs
secrets=set()
for wk in w.keys():
    if wk.is_private:
        hk=HDKey.from_wif(wk.wif, network='bitcoin')
        secrets|=encodings(hk)
secrets|=encodings(m)
def scan(label, blob):
    if isinstance(blob,str): b=blob.encode('utf8','replace')
    else: b=blob
    hits=[s if isinstance(s,str) else s.hex() for s in secrets if (s.encode() if isinstance(s,str) else s) in b]
    print(label, "LEAK %d"%len(hits) if hits else "clean", [h[:12] for h in hits[:3]])
scan("w.as_dict()", json.dumps(w.as_dict(), default=str))
scan("w.as_json()", w.as_json())
buf=io.StringIO()
with contextlib.redirect_stdout(buf): w.info()
scan("w.info()", buf.getvalue())
scan("w.wif(is_private=False)", str(w.wif(is_private=False)))
scan("w.public_master().wif", str(w.public_master().wif))
pm=w.public_master()
scan("public_master as_dict", json.dumps(pm.as_dict(), default=str))
scan("WalletKey.public() as_dict", json.dumps(k.public().as_dict(), default=str))
scan("repr(w.keys())", repr(w.keys())); scan("repr(WalletKey)", repr(k)); scan("repr(Wallet)", repr(w)+str(w))
scan("k.as_dict()", json.dumps(k.as_dict(), default=str))
hk=HDKey.from_wif(k.wif, network="bitcoin"); print("k.key() is_private:", k.key().is_private, "k.is_private", k.is_private)
hk.wif_key(); hk.wif_private()
scan("HDKey.public() pickle after wif calls", pickle.dumps(hk.public()))
scan("HDKey.as_dict()", json.dumps(hk.as_dict(), default=str))
scan("HDKey.as_json()", hk.as_json())
scan("repr/str HDKey", repr(hk)+str(hk))
buf=io.StringIO()
with contextlib.redirect_stdout(buf): hk.public().info()
scan("HDKey.public().info()", buf.getvalue())
# Transaction as_dict/json of wallet tx
for i,kk in enumerate(w.get_keys(number_of_keys=2)): w.utxo_add(kk.address, 100000, ('%02x'%(i+1))*32, i, confirmations=5)
t=w.send_to('bc1qw508d6qejxtdg4y5r3zarvary0c5xw7kv8f3t4', 50000, fee=1000, broadcast=False)
scan("tx.as_dict", json.dumps(t.as_dict(), default=str)); scan("tx.as_json", t.as_json())
buf=io.StringIO()
with contextlib.redirect_stdout(buf): t.info()
scan("tx.info()", buf.getvalue())
scan("tx pickle (to_transaction)", pickle.dumps(t.to_transaction()))
# plain db file
w.session.commit()
scan("sqlite file (no encryption)", open('/tmp/exp/bclD/k.sqlite','rb').read())
