import random, sys
import bitcoinlib.wallets as W
from bitcoinlib.wallets import *
from bitcoinlib.keys import HDKey
from bitcoinlib.transactions import Transaction
FEE=[20000]
class FakeService:
    def __init__(self, *a, **k): self.results={'fake':1}; self.errors={}; self.complete=True
    def estimatefee(self, blocks=3, priority=''): return FEE[0]
    def blockcount(self): return 800000
    def sendrawtransaction(self, raw): return {'txid': Transaction.parse_hex(raw).txid, 'response_dict': {}}
W.Service=FakeService
EXT={'segwit':['bc1qw508d6qejxtdg4y5r3zarvary0c5xw7kv8f3t4','bc1qrp33g0q5c5txsp9arysrx4k6zdkfs4nce4xj0gdcccefvpysxf3qccfmv3','1BvBMSEYstWetqTFn5Au4m4GFg7xJaNVN2'],
     'legacy':['1BvBMSEYstWetqTFn5Au4m4GFg7xJaNVN2','3J98t1WpEZ73CNmQviecrnyiWrnqRhWNLy','bc1qw508d6qejxtdg4y5r3zarvary0c5xw7kv8f3t4'],
     'p2sh-segwit':['3J98t1WpEZ73CNmQviecrnyiWrnqRhWNLy','1BvBMSEYstWetqTFn5Au4m4GFg7xJaNVN2','bc1qw508d6qejxtdg4y5r3zarvary0c5xw7kv8f3t4']}
stats={'ok':0,'err':0}; problems=[]; errs={}
def one(seed, wt):
    rnd=random.Random(seed)
    db='sqlite:////tmp/exp/w/bcl5/c_%s_%d.sqlite'%(wt.replace('-','_'),seed)
    w=Wallet.create('c', keys=HDKey.from_seed(bytes([seed%256])*32, witness_type=wt), witness_type=wt, network='bitcoin', db_uri=db)
    ks=w.get_keys(number_of_keys=rnd.randrange(1,5))
    utx={}
    for j in range(rnd.randrange(1,8)):
        k=rnd.choice(ks); val=rnd.choice([300,546,1000,5000,5000,20000,100000,100000,10**6,10**8, 21*10**14//10**6])
        conf=rnd.choice([0,1,1,6]); txid='%064x'%(seed*100+j); n=rnd.randrange(2)
        w.utxo_add(k.address, val, txid, n, confirmations=conf); utx[(txid,n)]=(val,conf,k.address)
    own=set(k.address for k in w.keys())
    for trial in range(6):
        nrec=rnd.choice([1,1,2,3]); recs=[(rnd.choice(EXT[wt]), rnd.choice([600,1000,5000,50000,100000,999999,10**7])) for _ in range(nrec)]
        fee=rnd.choice([None,None,'low','high',500,2000,100000]); FEE[0]=rnd.choice([1000,20000,200000])
        nco=rnd.choice([1,1,2,3,0]); minc=rnd.choice([0,1,1,3]); mu=rnd.choice([None,None,1,2])
        total=sum(a for _,a in recs)
        try:
            t=w.transaction_create(recs, fee=fee, number_of_change_outputs=nco, min_confirms=minc, max_utxos=mu)
        except (WalletError, Exception) as e:
            stats['err']+=1; errs[type(e).__name__+':'+str(e)[:50]]=errs.get(type(e).__name__+':'+str(e)[:50],0)+1
            continue
        stats['ok']+=1
        tag=(wt,seed,trial,recs,fee,nco,minc,mu)
        tin=sum(i.value for i in t.inputs); tout=sum(o.value for o in t.outputs)
        if tin!=tout+t.fee: problems.append((tag,'conservation',tin,tout,t.fee))
        if t.fee<0: problems.append((tag,'negfee',t.fee))
        if any(o.value<0 for o in t.outputs): problems.append((tag,'negout'))
        if any(not isinstance(o.value,int) for o in t.outputs): problems.append((tag,'nonint', [type(o.value).__name__ for o in t.outputs]))
        # recipients exactly once
        outs=[(o.address,o.value) for o in t.outputs]
        rem=list(outs)
        for r in recs:
            if r in rem: rem.remove(r)
            else: problems.append((tag,'recipient missing',r,outs))
        for a,v in rem:
            if a not in set(k.address for k in w.keys()): problems.append((tag,'extra output not own',a,v))
        seen=set()
        for i in t.inputs:
            key=(i.prev_txid.hex(), i.output_n_int)
            if key in seen: problems.append((tag,'dup input'))
            seen.add(key)
            if key not in utx: problems.append((tag,'unknown input',key))
            else:
                if utx[key][0]!=i.value: problems.append((tag,'input value'))
                if utx[key][1]<minc: problems.append((tag,'min_confirms violated',utx[key][1],minc))
        if isinstance(fee,int) and t.fee!=fee:
            # allowed: change absorbed (dust)
            pass
        rate=t.fee*1000/max(1,t.vsize or t.size or 1)
        if not (t.network.fee_min <= t.fee_per_kb <= t.network.fee_max): problems.append((tag,'fee_per_kb out of limits', t.fee_per_kb))
        # sign & verify & parse
        t.sign()
        if not t.verify(): problems.append((tag,'verify false'))
for wt in ('segwit','legacy','p2sh-segwit'):
    for seed in range(1,13): one(seed, wt)
print(stats, "problems", len(problems))
for p in problems[:10]: print(p)
print(sorted(errs.items(), key=lambda x:-x[1])[:8])
