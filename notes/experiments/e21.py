from bitcoinlib.keys import *
from bitcoinlib.encoding import *
n=secp256k1_n
d=0x1234567890abcdef1234567890abcdef1234567890abcdef1234567890abcdef
K=Key(d); pub=K.public()
z='%064x'%0xdeadbeef
sig=sign(z,K)
r,s=sig.r,sig.s
def tryv(label, f):
    try: print(label, f())
    except Exception as e: print(label, "EXC", type(e).__name__, str(e)[:70])
tryv("good", lambda: verify(z, sig, pub))
tryv("high-S twin", lambda: verify(z, Signature(r, n-s), pub))
tryv("r+n (as ints)", lambda: verify(z, Signature(r+n, s), pub))
tryv("s=0", lambda: verify(z, Signature(r, 0), pub))
tryv("r=0", lambda: verify(z, Signature(0, s), pub))
tryv("wrong digest", lambda: verify('%064x'%0xdeadbef0, sig, pub))
tryv("wrong key", lambda: verify(z, sig, Key(d+1).public()))
# DER variants
der=sig.as_der_encoded()[:-1]
print("der", der.hex())
tryv("parse DER+hashtype", lambda: Signature.parse_bytes(sig.as_der_encoded()).s==s)
# BER: add leading zero to r (non-minimal)
def der_nonmin(r,s):
    rb=r.to_bytes((r.bit_length()+8)//8+1,'big'); sb=s.to_bytes((s.bit_length()+8)//8,'big')
    body=b'\x02'+bytes([len(rb)])+rb+b'\x02'+bytes([len(sb)])+sb
    return b'\x30'+bytes([len(body)])+body
nm=der_nonmin(r,s)+b'\x01'
tryv("non-minimal DER accepted?", lambda: verify(z, Signature.parse_bytes(nm), pub))
# long-form length
body=der[2:]; lf=b'\x30\x81'+bytes([len(body)])+body+b'\x01'
tryv("long-form length DER accepted?", lambda: verify(z, Signature.parse_bytes(lf), pub))
# trailing garbage
tg=der+b'\x00'+b'\x01'
tryv("trailing garbage accepted?", lambda: verify(z, Signature.parse_bytes(tg), pub))
# negative r encoding (high bit set without leading zero)
# digest forms
tryv("digest bytes", lambda: verify(bytes.fromhex(z), sig, pub))
tryv("digest with leading zeros short hex", lambda: verify('deadbeef', sig, pub))
tryv("sign short hex equals?", lambda: (sign('deadbeef',K).r==r))
# zero-heavy digest
z0='00'*31+'01'
s0=sign(z0,K); tryv("zero-heavy digest verify", lambda: verify(z0,s0,pub))
zz='00'*32
tryv("all-zero digest sign/verify", lambda: verify(zz, sign(zz,K), pub))
# off-curve pubkey in verify
tryv("off-curve key", lambda: verify(z, sig, Key('02'+'%064x'%5)))
