import itertools, hashlib
import bitcoinlib.wallets as W
from bitcoinlib.wallets import *
from bitcoinlib.keys import HDKey
class FakeService:
    def __init__(self, *a, **k): self.results={'fake':1}; self.errors={}; self.complete=True
    def estimatefee(self, blocks=3, priority=''): return 10000
    def blockcount(self): return 800000
    def sendrawtransaction(self, raw):
        from bitcoinlib.transactions import Transaction
        return {'txid': Transaction.parse_hex(raw).txid, 'response_dict': {}}
W.Service=FakeService
db='sqlite:////tmp/exp/bclD/ms.sqlite'
seeds=[bytes([i+1])*64 for i in range(3)]
for wt in ['legacy','p2sh-segwit','segwit']:
    masters=[HDKey(s, witness_type=wt, multisig=True, network='bitcoin') for s in seeds]
    pubs=[m.public_master_multisig(witness_type=wt) for m in masters]
    addrs={}
    n=0
    for holder in range(3):
        for perm in itertools.permutations(range(3)):
            keys=[masters[i] if i==holder else pubs[i] for i in perm]
            name='ms_%s_%d_%s'%(wt,holder,''.join(map(str,perm)))
            try:
                w=Wallet.create(name, keys=keys, sigs_required=2, witness_type=wt, network='bitcoin', db_uri=db)
                ks=w.get_keys(number_of_keys=2)
                kc=w.get_key_change()
                a=tuple(k.address for k in ks)+(kc.address,)
                paths=tuple(k.path for k in ks)+(kc.path,)
                addrs.setdefault(a,[]).append((holder,perm,w.cosigner_id,paths))
            except Exception as e:
                addrs.setdefault(('EXC',type(e).__name__,str(e)[:70]),[]).append((holder,perm))
            n+=1
    print(wt, "wallets", n, "distinct address tuples:", len(addrs))
    for a,v in addrs.items(): print("   ", a[:1], len(v), v[0])
