from bitcoinlib.mnemonic import *
import os, random, hashlib, unicodedata
random.seed(9)
langs=sorted(f[:-4] for f in os.listdir('/repo/bitcoinlib/wordlist') if f.endswith('.txt'))
print(langs)
def ref_mnemonic(ent, wl):
    h=hashlib.sha256(ent).digest()
    bits=bin(int.from_bytes(ent,'big'))[2:].zfill(len(ent)*8)+bin(int.from_bytes(h,'big'))[2:].zfill(256)[:len(ent)*8//32]
    return ' '.join(wl[int(bits[i:i+11],2)] for i in range(0,len(bits),11))
for lang in langs:
    m=Mnemonic(lang); wl=m.wordlist()
    nf=[w for w in wl if unicodedata.normalize('NFKD',w)!=w]
    st={'n':0,'gen_bad':0,'ent_bad':0,'ent_exc':0,'seed_bad':0}
    ex=None
    for L in (16,20,24,28,32):
        for _ in range(30):
            e=bytes(random.randrange(256) for _ in range(L)); st['n']+=1
            s=m.to_mnemonic(e, check_on_curve=False)
            r=ref_mnemonic(e,wl)
            if s!=unicodedata.normalize('NFKD',r): st['gen_bad']+=1
            try:
                e2=m.to_entropy(s)
                if e2!=e: st['ent_bad']+=1
            except Exception as x:
                st['ent_exc']+=1; ex=(type(x).__name__, str(x)[:80])
            try:
                seed=m.to_seed(s,'pässwörd')
                refseed=hashlib.pbkdf2_hmac('sha512', unicodedata.normalize('NFKD',r).encode(), ('mnemonic'+unicodedata.normalize('NFKD','pässwörd')).encode(), 2048)
                if seed!=refseed: st['seed_bad']+=1
            except Exception as x:
                pass
    print(lang, len(wl), len(set(wl)), "non-NFKD words:", len(nf), st, ex)
# password normalization: composed vs decomposed passphrase should give same seed per BIP39
m=Mnemonic('english'); s=m.to_mnemonic(bytes(range(16)), check_on_curve=False)
a=m.to_seed(s, unicodedata.normalize('NFC','pässwörd')); b=m.to_seed(s, unicodedata.normalize('NFD','pässwörd'))
print("password NFKD-normalised (NFC vs NFD give same seed):", a==b)
# checksum rejection & substitution
wl=m.wordlist(); words=s.split(' ')
acc=0
for i in range(12):
    for w in random.sample(wl,40):
        if w==words[i]: continue
        t=words[:]; t[i]=w
        try:
            m.to_entropy(' '.join(t)); acc+=1
        except Exception: pass
print("substitutions accepted (expected ~1/16):", acc, "of", 12*40)
try:
    m.to_entropy(' '.join(words[:-1]+['notaword'])); print("unknown word ACCEPTED")
except Exception as x: print("unknown word rejected:", type(x).__name__)
try:
    print("11 words:", m.to_entropy(' '.join(words[:11])).hex())
except Exception as x: print("11 words rejected:", type(x).__name__, str(x)[:60])
try:
    print("extra spaces:", m.to_entropy('  '.join(words)).hex())
except Exception as x: print("double spaces rejected:", type(x).__name__, str(x)[:60])
