from bitcoinlib.keys import *
from bitcoinlib.networks import NETWORK_DEFINITIONS
import random
random.seed(6)
secrets=[1, 2**8-1, 2**128+5, 2**200+3, 2**248-1, 2**247+11, secp256k1_n-1, random.randrange(1,secp256k1_n)]
secrets+= [int.from_bytes(b'\x00\x00'+bytes(random.randrange(256) for _ in range(30)),'big') for _ in range(3)]
secrets+= [int.from_bytes(bytes([2])+bytes(random.randrange(256) for _ in range(30))+bytes([1]),'big'), int.from_bytes(bytes([3])+bytes(30)+bytes([1]),'big')]
bad=[]
for s in secrets:
    for comp in (True, False):
        for net in NETWORK_DEFINITIONS:
            k=Key(s, network=net, compressed=comp)
            forms={'hex':k.private_hex,'bytes':k.private_byte,'int':k.secret,'wif':k.wif(),'hexc':k.private_hex+'01','bytesc':k.private_byte+b'\1',
                   'pubhex':k.public_hex,'pubbytes':k.public_byte,'point':k.public_point(), 'pubunc':k.public_uncompressed_hex}
            for name,f in forms.items():
                try:
                    k2=Key(f, network=net) if name not in ('wif',) else Key(f)
                except Exception as e:
                    bad.append((hex(s)[:10],comp,net,name,'EXC',type(e).__name__,str(e)[:50])); continue
                priv_expected = not name.startswith('pub') and name!='point'
                if k2.is_private!=priv_expected: bad.append((hex(s)[:10],comp,net,name,'PRIVFLAG',k2.is_private)); continue
                if priv_expected and k2.secret!=s: bad.append((hex(s)[:10],comp,net,name,'SECRET',hex(k2.secret)[:12]))
                if k2.public_point()!=k.public_point(): bad.append((hex(s)[:10],comp,net,name,'POINT'))
                if name=='wif' and (k2.compressed!=comp): bad.append((hex(s)[:10],comp,net,name,'COMP',k2.compressed))
                if name=='wif' and net not in (k2.network.name,) : 
                    if NETWORK_DEFINITIONS[net]['prefix_wif']!=NETWORK_DEFINITIONS[k2.network.name]['prefix_wif']: bad.append((hex(s)[:10],comp,net,name,'NET',k2.network.name))
from collections import Counter
c=Counter((b[3],b[4]) for b in bad)
print(len(bad), c)
seen=set()
for b in bad:
    if (b[3],b[4]) not in seen: seen.add((b[3],b[4])); print(b)
