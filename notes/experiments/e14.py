from bitcoinlib.transactions import *
from bitcoinlib.keys import *
k=Key(12345)
def mk(ch1, ch2):
    t=Transaction(network='bitcoin', witness_type='segwit', replace_by_fee=True)
    t.add_input(bytes(range(32)),0,keys=[k],script_type='sig_pubkey',value=1000000,witness_type='segwit')
    t.add_output(500000, lock_script=b'\x00\x14'+bytes(20))
    t.add_output(ch1, lock_script=b'\x00\x14'+bytes([1]*20), change=True)
    t.add_output(ch2, lock_script=b'\x00\x14'+bytes([2]*20), change=True)
    t.fee=1000000-500000-ch1-ch2
    t.sign([k]); t.update_totals(); t.size=len(t.raw()); t.calc_weight_units()
    return t
for ch1,ch2,extra in [(1000, 490000, 5000), (3000, 490000, 5000), (490000, 1000, 5000), (6000,490000,5000), (10001, 480000, 5000)]:
    t=mk(ch1,ch2)
    f0=t.fee
    try:
        t.bumpfee(extra_fee=extra)
        tot_in=sum(i.value for i in t.inputs); tot_out=sum(o.value for o in t.outputs)
        print((ch1,ch2,extra), "old fee",f0,"reported fee",t.fee,"actual",tot_in-tot_out,"requested",f0+extra, "outs",[o.value for o in t.outputs], "verify", t.verify())
    except Exception as e: print((ch1,ch2,extra),"EXC",e)
