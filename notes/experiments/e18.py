import bitcoinlib.wallets as W
from bitcoinlib.wallets import *
from bitcoinlib.keys import HDKey
class FakeService:
    def __init__(self, *a, **k): self.results={'fake':1}; self.errors={}; self.complete=True
    def estimatefee(self, blocks=3, priority=''): return 10000
    def blockcount(self): return 800000
W.Service=FakeService
db='sqlite:////tmp/exp/bclD/k.sqlite'
seed=bytes(range(64))
for wt in ['legacy','p2sh-segwit','segwit']:
  for net in ['bitcoin','testnet','litecoin','dogecoin']:
    if net=='dogecoin' and wt!='legacy': continue
    m=HDKey.from_seed(seed, network=net, witness_type=wt)
    w=Wallet.create('w_%s_%s'%(wt,net), keys=m, witness_type=wt, network=net, db_uri=db)
    seq=[]
    k1=w.new_key(); seq.append(k1)
    k2=w.new_key(); seq.append(k2)
    kc=w.new_key_change(); seq.append(kc)
    ks=w.get_keys(number_of_keys=3); seq+=ks
    k3=w.new_key(); seq.append(k3)
    g=w.get_key(); seq.append(g)
    acc=w.new_account(); 
    k4=w.new_key(account_id=acc.account_id); seq.append(k4)
    bad=[]
    for k in seq:
        ref=m.subkey_for_path(k.path)
        refaddr=ref.address()
        if refaddr!=k.address or ref.wif_key()!= (HDKey.from_wif(k.wif, network=net).wif_key() if k.is_private else None):
            bad.append((k.path,k.address,refaddr))
    paths=[k.path for k in seq]
    allk=w.keys(depth=5)
    addrs=[k.address for k in allk]
    print(wt,net,"paths",paths[:9], "derivation mismatches",len(bad), "dup addresses", len(addrs)-len(set(addrs)))
    # watch-only
    pm=w.public_master()
    wo=Wallet.create('wo_%s_%s'%(wt,net), keys=pm.wif, witness_type=wt, network=net, db_uri=db)
    a_priv=[k.address for k in w.keys(depth=5, account_id=0, change=0)]
    wo.get_keys(number_of_keys=len(a_priv))
    a_wo=[k.address for k in wo.keys(depth=5, change=0)]
    print("   watch-only same addresses:", sorted(a_priv)[:len(a_wo)]==sorted(a_wo) if len(a_wo)==len(a_priv) else (len(a_priv),len(a_wo)), wo.main_key.is_private, "wo wif leaks?", 'prv' in (wo.wif(is_private=False) or ''))
