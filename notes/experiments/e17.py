import itertools
import bitcoinlib.wallets as W
from bitcoinlib.wallets import *
from bitcoinlib.keys import HDKey
class FakeService:
    def __init__(self, *a, **k): self.results={'fake':1}; self.errors={}; self.complete=True
    def estimatefee(self, blocks=3, priority=''): return 10000
    def blockcount(self): return 800000
W.Service=FakeService
db='sqlite:////tmp/exp/bclD/ms.sqlite'
seeds=[bytes([i+1])*64 for i in range(3)]
wt='legacy'
masters=[HDKey(s, witness_type=wt, multisig=True, network='bitcoin') for s in seeds]
pubs=[m.public_master_multisig(witness_type=wt) for m in masters]
res={}
for holder in range(3):
    for perm in [(0,1,2),(2,1,0),(1,2,0)]:
        keys=[masters[i] if i==holder else pubs[i] for i in perm]
        name='ms_%d_%s'%(holder,''.join(map(str,perm)))
        w=Wallet.create(name, keys=keys, sigs_required=2, witness_type=wt, network='bitcoin', db_uri=db)
        row=[]
        for cid in range(3):
            try:
                k=w.key_for_path([0,0], cosigner_id=cid)
                row.append((cid,k.path,k.address[:8]))
            except Exception as e: row.append((cid,'EXC',str(e)[:40]))
        print(holder,perm,"own cosigner_id",w.cosigner_id,row)
