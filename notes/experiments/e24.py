import os, sys
import bitcoinlib.wallets as W
from bitcoinlib.wallets import *
from bitcoinlib.keys import HDKey, Key
from bitcoinlib import db as D
print("enc key set:", bool(os.environ.get('DB_FIELD_ENCRYPTION_KEY')), "DATABASE_ENCRYPTION_ENABLED", D.DATABASE_ENCRYPTION_ENABLED, "EncryptedBinary.key is None:", D.EncryptedBinary.key is None)
class FakeService:
    def __init__(self, *a, **k): self.results={'fake':1}; self.errors={}; self.complete=True
    def estimatefee(self, blocks=3, priority=''): return 10000
    def blockcount(self): return 800000
W.Service=FakeService
dbf='/tmp/exp/bclE/enc.sqlite'
m=HDKey.from_seed(bytes(range(64)), network='bitcoin', witness_type='segwit')
w=Wallet.create('enc', keys=m, witness_type='segwit', network='bitcoin', db_uri='sqlite:///'+dbf)
w.new_key(); w.new_key_change()
secrets=set()
for wk in w.keys():
    if wk.is_private:
        hk=HDKey.from_wif(wk.wif, network='bitcoin')
        secrets|={hk.private_byte, hk.private_hex.encode(), hk.wif_private().encode(), hk.wif_key().encode(), str(hk.secret).encode()}
print("n private keys", len(secrets)//5)
w.session.commit(); w.session.close()
blob=open(dbf,'rb').read()
hits=[s for s in secrets if s in blob]
print("plaintext secrets found in db file:", len(hits), [h[:10] for h in hits[:4]])
w2=Wallet('enc', db_uri='sqlite:///'+dbf)
print("reopen reads back wif ok:", w2.main_key.wif==m.wif_private())
