import json,sys,glob
for f in sorted(glob.glob('/verif/replays/%s/*.json' % sys.argv[1])):
    d=json.load(open(f))
    r=d['replay']
    print(d['what'][:50],'|',r.get('kind'),r.get('hseed'),'step',r.get('step'),r.get('real_op'))
    if 'model' in r:
        print('   model ',r.get('model')); print('   obs   ',r.get('observed')); print('   fresh ',r.get('observed_fresh_object'), r.get('observation_order'))
    if 'problem' in r: print('   ', r['problem'][:600])
    if len(sys.argv)>2: print('   history', r.get('history'))
