import json, sys, xml.etree.ElementTree as ET
base=json.load(open('/root/.vp/BASELINE.json'))['stable_pass']
root=ET.parse(sys.argv[1]).getroot()
passed=set(); other={}
for tc in root.iter('testcase'):
    name=tc.get('classname')+'::'+tc.get('name')
    bad=[c.tag for c in tc if c.tag in ('failure','error','skipped')]
    if not bad: passed.add(name)
    else: other[name]=bad[0]
missing=[b for b in base if b not in passed]
print("baseline",len(base),"passed now",len(passed),"baseline tests not passing:",len(missing))
for m in missing: print("  ",m, other.get(m))
