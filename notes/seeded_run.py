"""usage: seeded_run.py <id> [<srcdir>]   -- copy a confirmed seeded change into /verif/seeded/<id>/, apply it to /repo,
run the quick check(s) that claim the property, undo, record the outcome in meta.json"""
import sys, os, json, shutil, subprocess, time
sid = sys.argv[1]
src = sys.argv[2] if len(sys.argv) > 2 else '/tmp/mut/' + sid
dst = '/verif/seeded/' + sid
os.makedirs(dst, exist_ok=True)
if os.path.abspath(src) != os.path.abspath(dst):
    for f in ('patch.diff', 'demo.py', 'meta.json'):
        shutil.copy(os.path.join(src, f), os.path.join(dst, f))
    for f in ('demo_changed.out', 'demo_orig.out'):
        if os.path.exists(os.path.join(src, f)):
            shutil.copy(os.path.join(src, f), os.path.join(dst, f))
meta = json.load(open(os.path.join(dst, 'meta.json')))
props = [meta['property']] + meta.get('also_check', [])
assert subprocess.run(['git', '-C', '/repo', 'status', '--porcelain'], capture_output=True, text=True).stdout.strip() == '', 'repo not clean'
subprocess.check_call(['git', '-C', '/repo', 'apply', os.path.join(dst, 'patch.diff')])
res = {}
try:
    for p in props:
        for seed in ('0', '1'):
            t0 = time.time()
            r = subprocess.run(['./check', p, '--tier', 'quick'], cwd='/verif', capture_output=True, text=True, env=dict(os.environ, VERIF_SEED=seed))
            lines = [l for l in r.stdout.splitlines() if l.startswith(('VIOLATION', 'OK', 'KNOWN-FINDING'))]
            res['%s/seed%s' % (p, seed)] = {'exit': r.returncode, 'violations': len([l for l in lines if l.startswith('VIOLATION')]),
                                            'first': next((l for l in lines if l.startswith('VIOLATION')), lines[-1] if lines else r.stderr[-300:]), 'wall_s': round(time.time() - t0, 1)}
            # what the replay says
            v = next((l for l in lines if l.startswith('VIOLATION')), None)
            if v:
                path = v.split('replay=')[1].split(' ')[0]
                try:
                    res['%s/seed%s' % (p, seed)]['what'] = json.load(open(os.path.join('/verif', path)))['what'][:160]
                except Exception as e:
                    pass
finally:
    subprocess.check_call(['git', '-C', '/repo', 'checkout', '--', '.'])
meta['checks'] = res
meta['caught'] = any(v['exit'] == 1 for v in res.values())
json.dump(meta, open(os.path.join(dst, 'meta.json'), 'w'), indent=1)
print(sid, 'caught' if meta['caught'] else 'MISSED')
for k, v in res.items():
    print('  ', k, v['exit'], v['violations'], v.get('what', v['first'])[:150])
