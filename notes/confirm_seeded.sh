#!/bin/bash
# usage: confirm_seeded.sh <id>   (worktree /tmp/mut/wt_<id>, artifacts /tmp/mut/<id>); no `git stash` (stashes are shared between worktrees)
id=$1
cd /tmp/mut/wt_$id || exit 1
git diff | diff -q - /tmp/mut/$id/patch.diff || echo "PATCH DIFFERS FROM WORKTREE"
[ -f /tmp/mut/$id/junit.xml ] && /venv/bin/python /tmp/mut/cmp.py /tmp/mut/$id/junit.xml | head -1
(BCL_DATA_DIR=$(mktemp -d /tmp/mut/$id/bcl.XXXX) /venv/bin/python /tmp/mut/$id/demo.py > /tmp/mut/$id/demo_changed.out 2>&1; echo "changed exit $?")
git apply -R /tmp/mut/$id/patch.diff || echo "REVERSE APPLY FAILED"
[ -z "$(git status --porcelain --untracked-files=no)" ] || echo "TREE NOT CLEAN AFTER REVERT"
(BCL_DATA_DIR=$(mktemp -d /tmp/mut/$id/bcl.XXXX) /venv/bin/python /tmp/mut/$id/demo.py > /tmp/mut/$id/demo_orig.out 2>&1; echo "orig exit $?")
git apply /tmp/mut/$id/patch.diff
rm -rf /tmp/mut/$id/bcl.*
