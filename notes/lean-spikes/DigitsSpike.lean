/-! Spike: positional digits (most significant first), the lemma family Base58 and big-endian bytes rest on. -/

/-- little-endian digits of n in base b (b ≥ 2), empty for 0 -/
def digitsLE (b : Nat) (hb : 2 ≤ b) (n : Nat) : List Nat :=
  if h : n = 0 then [] else (n % b) :: digitsLE b hb (n / b)
termination_by n
decreasing_by exact Nat.div_lt_self (Nat.pos_of_ne_zero h) (by omega)

def valLE (b : Nat) : List Nat → Nat
  | [] => 0
  | d :: ds => d + b * valLE b ds

theorem valLE_digitsLE (b : Nat) (hb : 2 ≤ b) (n : Nat) : valLE b (digitsLE b hb n) = n := by
  induction n using Nat.strongRecOn with
  | _ n ih =>
    unfold digitsLE
    split
    · simp [valLE, *]
    · rename_i h
      have hlt : n / b < n := Nat.div_lt_self (Nat.pos_of_ne_zero h) (by omega)
      simp only [valLE, ih (n / b) hlt]
      have := Nat.div_add_mod n b
      omega

/-- canonical digit lists: all digits < b and the most significant (last in LE order) nonzero -/
def Canon (b : Nat) : List Nat → Prop
  | [] => True
  | [d] => d < b ∧ d ≠ 0
  | d :: e :: ds => d < b ∧ Canon b (e :: ds)

theorem valLE_pos_of_canon (b : Nat) (hb : 2 ≤ b) : ∀ ds, ds ≠ [] → Canon b ds → 0 < valLE b ds
  | [], h, _ => absurd rfl h
  | [d], _, hc => by simp [Canon] at hc; simp [valLE]; omega
  | d :: e :: ds, _, hc => by
    have ih := valLE_pos_of_canon b hb (e :: ds) (by simp) hc.2
    simp only [valLE] at ih ⊢
    have : 0 < b * (e + b * valLE b ds) := Nat.mul_pos (by omega) ih
    omega

theorem digitsLE_valLE (b : Nat) (hb : 2 ≤ b) : ∀ ds, Canon b ds → digitsLE b hb (valLE b ds) = ds
  | [], _ => by unfold digitsLE; simp [valLE]
  | [d], hc => by
    simp [Canon] at hc
    unfold digitsLE
    have h1 : valLE b [d] = d := by simp [valLE]
    rw [h1]
    simp only [hc.2, ↓reduceDIte]
    rw [Nat.mod_eq_of_lt hc.1, Nat.div_eq_of_lt hc.1]
    unfold digitsLE; simp
  | d :: e :: ds, hc => by
    have hpos := valLE_pos_of_canon b hb (e :: ds) (by simp) hc.2
    have ih := digitsLE_valLE b hb (e :: ds) hc.2
    unfold digitsLE
    have hne : valLE b (d :: e :: ds) ≠ 0 := by
      simp only [valLE] at hpos ⊢
      have : 0 < b * (e + b * valLE b ds) := Nat.mul_pos (by omega) hpos
      omega
    simp only [hne, ↓reduceDIte]
    have hd : d < b := hc.1
    have hm : valLE b (d :: e :: ds) % b = d := by
      show (d + b * valLE b (e :: ds)) % b = d
      rw [Nat.add_mul_mod_self_left, Nat.mod_eq_of_lt hd]
    have hq : valLE b (d :: e :: ds) / b = valLE b (e :: ds) := by
      show (d + b * valLE b (e :: ds)) / b = valLE b (e :: ds)
      rw [Nat.add_mul_div_left _ _ (by omega : 0 < b), Nat.div_eq_of_lt hd, Nat.zero_add]
    rw [hm, hq, ih]

#print axioms valLE_digitsLE
#print axioms digitsLE_valLE
