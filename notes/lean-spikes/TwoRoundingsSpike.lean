import Mathlib.Tactic.Ring
import Mathlib.Tactic.Linarith
import Mathlib.Tactic.NormNum
import Mathlib.Tactic.Positivity
import Mathlib.Algebra.Order.Field.Rat

/-- core inequality of C17's from_satoshi → value_sat exactness: two roundings, each with relative
    error ≤ u = 2^-53, keep n within 1/2 for every n ≤ 21·10^14. -/
theorem two_roundings (n e1 e3 : ℚ) (hn0 : 0 ≤ n) (hn : n ≤ 2100000000000000)
    (h1 : |e1| ≤ 1 / 2^53) (h3 : |e3| ≤ 1 / 2^53) :
    |n * (1 + e1) * (1 + e3) - n| < 1 / 2 := by
  have hu : (1 : ℚ) / 2^53 ≤ 1 / 9007199254740992 := by norm_num
  have a1 := abs_le.mp h1
  have a3 := abs_le.mp h3
  have key : n * (1 + e1) * (1 + e3) - n = n * (e1 + e3 + e1 * e3) := by ring
  rw [key, abs_mul, abs_of_nonneg hn0]
  have hb : |e1 + e3 + e1 * e3| ≤ 2 / 2^53 + 1 / 2^106 := by
    rw [abs_le]
    constructor <;> nlinarith [a1.1, a1.2, a3.1, a3.2, mul_le_mul_of_nonneg_left a3.2 (by linarith : (0:ℚ) ≤ 1/2^53 - e1), mul_le_mul_of_nonneg_left a3.2 (by linarith : (0:ℚ) ≤ 1/2^53 + e1)]
  calc n * |e1 + e3 + e1 * e3| ≤ 2100000000000000 * (2 / 2^53 + 1 / 2^106) := by
        apply mul_le_mul hn hb (abs_nonneg _) (by norm_num)
    _ < 1 / 2 := by norm_num
