/-! Spike: soundness of the `Input.verify` counting loop (with its "try previous signature" branch). -/

/-- Transcription of the Python loop. `fuel` = number of keys not yet visited (K - key_n). -/
def loop (m S : Nat) (ok : Nat → Nat → Bool) : (fuel : Nat) → (s k v : Nat) → Bool
  | fuel, s, k, v =>
    if v ≥ m then true
    else match fuel with
      | 0 => false                                  -- key_n >= len(keys)
      | f + 1 =>
        if s ≥ S then false                         -- sig_n >= len(signatures)
        else if ok s k then loop m S ok f (s + 1) (k + 1) (v + 1)
        else if s > 0 && ok (s - 1) k then loop m S ok f s (k + 1) (v + 1)
        else loop m S ok f s (k + 1) v

def inputVerify (m K S : Nat) (ok : Nat → Nat → Bool) : Bool := loop m S ok K 0 0 0

/-- Generalised invariant: if the loop accepts from state (s,k,v) with `fuel` keys left, there is a
    strictly increasing list of key positions in [k, k+fuel), long enough to reach m, each matched by
    some signature index < S. -/
theorem loop_sound (m S : Nat) (ok : Nat → Nat → Bool) :
    ∀ fuel s k v, loop m S ok fuel s k v = true →
      ∃ ks : List Nat, v + ks.length ≥ m ∧ ks.Pairwise (· < ·) ∧
        ∀ x ∈ ks, k ≤ x ∧ x < k + fuel ∧ ∃ j, j < S ∧ ok j x = true := by
  intro fuel
  induction fuel with
  | zero =>
    intro s k v h
    unfold loop at h
    split at h
    · exact ⟨[], by simpa using ‹v ≥ m›, List.Pairwise.nil, by simp⟩
    · simp at h
  | succ f ih =>
    intro s k v h
    unfold loop at h
    split at h
    · exact ⟨[], by simpa using ‹v ≥ m›, List.Pairwise.nil, by simp⟩
    · rename_i hv
      simp only at h
      split at h
      · simp at h
      · rename_i hs
        split at h
        · rename_i hok
          obtain ⟨ks, hlen, hpw, hmem⟩ := ih (s + 1) (k + 1) (v + 1) h
          refine ⟨k :: ks, by simp; omega, ?_, ?_⟩
          · refine List.pairwise_cons.mpr ⟨?_, hpw⟩
            intro y hy; have := (hmem y hy).1; omega
          · intro x hx
            rcases List.mem_cons.mp hx with rfl | hx
            · exact ⟨Nat.le_refl _, by omega, s, by omega, hok⟩
            · obtain ⟨h1, h2, h3⟩ := hmem x hx
              exact ⟨by omega, by omega, h3⟩
        · split at h
          · rename_i hprev
            simp only [Bool.and_eq_true, decide_eq_true_eq] at hprev
            obtain ⟨ks, hlen, hpw, hmem⟩ := ih s (k + 1) (v + 1) h
            refine ⟨k :: ks, by simp; omega, ?_, ?_⟩
            · refine List.pairwise_cons.mpr ⟨?_, hpw⟩
              intro y hy; have := (hmem y hy).1; omega
            · intro x hx
              rcases List.mem_cons.mp hx with rfl | hx
              · exact ⟨Nat.le_refl _, by omega, s - 1, by omega, hprev.2⟩
              · obtain ⟨h1, h2, h3⟩ := hmem x hx
                exact ⟨by omega, by omega, h3⟩
          · obtain ⟨ks, hlen, hpw, hmem⟩ := ih s (k + 1) v h
            refine ⟨ks, hlen, hpw, ?_⟩
            intro x hx
            obtain ⟨h1, h2, h3⟩ := hmem x hx
            exact ⟨by omega, by omega, h3⟩

/-- C02 soundness (model level): acceptance implies m distinct listed keys each with a valid signature. -/
theorem inputVerify_sound (m K S : Nat) (ok : Nat → Nat → Bool) (h : inputVerify m K S ok = true) :
    ∃ ks : List Nat, ks.length ≥ m ∧ ks.Pairwise (· < ·) ∧
      ∀ x ∈ ks, x < K ∧ ∃ j, j < S ∧ ok j x = true := by
  obtain ⟨ks, hlen, hpw, hmem⟩ := loop_sound m S ok K 0 0 0 h
  exact ⟨ks, by omega, hpw, fun x hx => by
    obtain ⟨_, h2, h3⟩ := hmem x hx; exact ⟨by omega, h3⟩⟩

-- non-vacuity: a 2-of-3 with signatures by keys 0 and 2 is accepted
example : inputVerify 2 3 2 (fun j x => (j == 0 && x == 0) || (j == 1 && x == 2)) = true := by decide
-- and one signature is not enough
example : inputVerify 2 3 1 (fun j x => (j == 0 && x == 0)) = false := by decide

#print axioms inputVerify_sound
