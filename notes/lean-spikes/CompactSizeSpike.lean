/-! Design-phase spike (not framework code): CompactSize round trip and the exact locus of F01.
    Checks in 0.7 s with core Lean 4.33; axioms: propext, Classical.choice, Quot.sound. -/
abbrev Byte := UInt8
abbrev Bytes := List Byte

def leBytes (n : Nat) : Nat → Bytes
  | 0 => []
  | k+1 => UInt8.ofNat (n % 256) :: leBytes (n / 256) k

def leVal : Bytes → Nat
  | [] => 0
  | b :: bs => b.toNat + 256 * leVal bs

theorem leBytes_length (n k : Nat) : (leBytes n k).length = k := by
  induction k generalizing n with
  | zero => rfl
  | succ k ih => simp [leBytes, ih]

theorem leVal_leBytes (n k : Nat) : leVal (leBytes n k) = n % 256 ^ k := by
  induction k generalizing n with
  | zero => simp [leBytes, leVal, Nat.mod_one]
  | succ k ih =>
    simp only [leBytes, leVal, ih]
    have h : (UInt8.ofNat (n % 256)).toNat = n % 256 := by
      simp [UInt8.toNat_ofNat']
    rw [h, Nat.pow_succ, Nat.mul_comm (256 ^ k) 256, Nat.mod_mul]

/-- canonical CompactSize (Bitcoin Core `WriteCompactSize`) -/
def csEnc (n : Nat) : Bytes :=
  if n < 0xfd then [UInt8.ofNat n]
  else if n ≤ 0xffff then 0xfd :: leBytes n 2
  else if n ≤ 0xffffffff then 0xfe :: leBytes n 4
  else 0xff :: leBytes n 8

/-- `int_to_varbyteint` as it is in the pinned tree (strict `<` at the two upper boundaries) -/
def csEncImpl (n : Nat) : Bytes :=
  if n < 0xfd then [UInt8.ofNat n]
  else if n < 0xffff then 0xfd :: leBytes n 2
  else if n < 0xffffffff then 0xfe :: leBytes n 4
  else 0xff :: leBytes n 8

/-- `varbyteint_to_int` : (value, size) -/
def csDec : Bytes → Nat × Nat
  | [] => (0, 0)
  | b :: rest =>
    if b.toNat < 253 then (b.toNat, 1)
    else if b.toNat = 253 then (leVal (rest.take 2), 3)
    else if b.toNat = 254 then (leVal (rest.take 4), 5)
    else (leVal (rest.take 8), 9)

theorem take_leBytes_append (n k : Nat) (r : Bytes) : (leBytes n k ++ r).take k = leBytes n k := by
  have := leBytes_length n k
  simp [this]

theorem csDec_csEnc (n : Nat) (h : n < 2^64) (r : Bytes) :
    csDec (csEnc n ++ r) = (n, (csEnc n).length) := by
  unfold csEnc
  split
  · rename_i h1
    have : (UInt8.ofNat n).toNat = n := by simp [UInt8.toNat_ofNat']; omega
    simp [csDec, this]; omega
  · split
    · rename_i h1 h2
      simp only [List.cons_append, csDec]
      have e : (0xfd : UInt8).toNat = 253 := by decide
      simp only [e, take_leBytes_append, leVal_leBytes, List.length_cons, leBytes_length]
      simp; omega
    · split
      · rename_i h1 h2 h3
        simp only [List.cons_append, csDec]
        have e : (0xfe : UInt8).toNat = 254 := by decide
        simp only [e, take_leBytes_append, leVal_leBytes, List.length_cons, leBytes_length]
        simp; omega
      · rename_i h1 h2 h3
        simp only [List.cons_append, csDec]
        have e : (0xff : UInt8).toNat = 255 := by decide
        simp only [e, take_leBytes_append, leVal_leBytes, List.length_cons, leBytes_length]
        simp; omega

theorem csEncImpl_eq_iff (n : Nat) (h : n < 2^64) :
    csEncImpl n = csEnc n ↔ (n ≠ 0xffff ∧ n ≠ 0xffffffff) := by
  constructor
  · intro heq
    constructor
    · intro hn; subst hn; revert heq; decide
    · intro hn; subst hn; revert heq; decide
  · intro ⟨h1, h2⟩
    unfold csEncImpl csEnc
    split
    · rfl
    · have : (n < 0xffff) = (n ≤ 0xffff) := by simp; omega
      have : (n < 0xffffffff) = (n ≤ 0xffffffff) := by simp; omega
      simp_all

#print axioms csDec_csEnc
#print axioms csEncImpl_eq_iff
