/-! Spike: round trip of a CompactSize-prefixed list of (value:8 bytes LE, varstr script) — the shape of
    every list inside a transaction. -/
abbrev Byte := UInt8
abbrev Bytes := List Byte

def leBytes (n : Nat) : Nat → Bytes
  | 0 => []
  | k+1 => UInt8.ofNat (n % 256) :: leBytes (n / 256) k
def leVal : Bytes → Nat
  | [] => 0
  | b :: bs => b.toNat + 256 * leVal bs
theorem leBytes_length (n k : Nat) : (leBytes n k).length = k := by
  induction k generalizing n with
  | zero => rfl
  | succ k ih => simp [leBytes, ih]
theorem leVal_leBytes (n k : Nat) : leVal (leBytes n k) = n % 256 ^ k := by
  induction k generalizing n with
  | zero => simp [leBytes, leVal, Nat.mod_one]
  | succ k ih =>
    simp only [leBytes, leVal, ih]
    have h : (UInt8.ofNat (n % 256)).toNat = n % 256 := by simp [UInt8.toNat_ofNat']
    rw [h, Nat.pow_succ, Nat.mul_comm (256 ^ k) 256, Nat.mod_mul]

def csEnc (n : Nat) : Bytes :=
  if n < 0xfd then [UInt8.ofNat n]
  else if n ≤ 0xffff then 0xfd :: leBytes n 2
  else if n ≤ 0xffffffff then 0xfe :: leBytes n 4
  else 0xff :: leBytes n 8

/-- stream-style reader: value and remaining bytes; fails on truncated input -/
def readFixed (k : Nat) (bs : Bytes) : Option (Nat × Bytes) :=
  if bs.length < k then none else some (leVal (bs.take k), bs.drop k)

def readCs : Bytes → Option (Nat × Bytes)
  | [] => none
  | b :: rest =>
    if b.toNat < 253 then some (b.toNat, rest)
    else if b.toNat = 253 then readFixed 2 rest
    else if b.toNat = 254 then readFixed 4 rest
    else readFixed 8 rest

theorem readFixed_le (n k : Nat) (r : Bytes) (h : n < 256 ^ k) :
    readFixed k (leBytes n k ++ r) = some (n, r) := by
  unfold readFixed
  have hl := leBytes_length n k
  simp [hl, leVal_leBytes, Nat.mod_eq_of_lt h]

theorem readCs_csEnc (n : Nat) (h : n < 2^64) (r : Bytes) : readCs (csEnc n ++ r) = some (n, r) := by
  unfold csEnc
  split
  · have : (UInt8.ofNat n).toNat = n := by simp [UInt8.toNat_ofNat']; omega
    simp [readCs, this]; omega
  · split
    · have e : (0xfd : UInt8).toNat = 253 := by decide
      simp only [List.cons_append, readCs, e]
      simp
      exact readFixed_le n 2 r (by omega)
    · split
      · have e : (0xfe : UInt8).toNat = 254 := by decide
        simp only [List.cons_append, readCs, e]
        simp
        exact readFixed_le n 4 r (by omega)
      · have e : (0xff : UInt8).toNat = 255 := by decide
        simp only [List.cons_append, readCs, e]
        simp
        exact readFixed_le n 8 r (by omega)

structure TxOut where
  value : Nat
  spk : Bytes
deriving Repr, DecidableEq

def TxOut.WF (o : TxOut) : Prop := o.value < 2^64 ∧ o.spk.length < 2^64

def serOut (o : TxOut) : Bytes := leBytes o.value 8 ++ csEnc o.spk.length ++ o.spk

def readOut (bs : Bytes) : Option (TxOut × Bytes) :=
  match readFixed 8 bs with
  | none => none
  | some (v, r1) =>
    match readCs r1 with
    | none => none
    | some (len, r2) => if r2.length < len then none else some (⟨v, r2.take len⟩, r2.drop len)

theorem readOut_serOut (o : TxOut) (h : o.WF) (r : Bytes) : readOut (serOut o ++ r) = some (o, r) := by
  unfold readOut serOut
  have h1 : readFixed 8 (leBytes o.value 8 ++ (csEnc o.spk.length ++ (o.spk ++ r))) =
      some (o.value, csEnc o.spk.length ++ (o.spk ++ r)) := readFixed_le _ 8 _ (by have := h.1; omega)
  simp only [List.append_assoc, h1, readCs_csEnc _ h.2]
  simp

def serOuts : List TxOut → Bytes
  | [] => []
  | o :: os => serOut o ++ serOuts os

def readOuts : (count : Nat) → Bytes → Option (List TxOut × Bytes)
  | 0, bs => some ([], bs)
  | k+1, bs =>
    match readOut bs with
    | none => none
    | some (o, r) =>
      match readOuts k r with
      | none => none
      | some (os, r') => some (o :: os, r')

theorem readOuts_serOuts (os : List TxOut) (h : ∀ o ∈ os, o.WF) (r : Bytes) :
    readOuts os.length (serOuts os ++ r) = some (os, r) := by
  induction os with
  | nil => simp [readOuts, serOuts]
  | cons o os ih =>
    have ho := h o (by simp)
    have hos : ∀ o' ∈ os, o'.WF := fun o' ho' => h o' (by simp [ho'])
    simp only [serOuts, List.length_cons, readOuts, List.append_assoc, readOut_serOut o ho, ih hos]

def serOutList (os : List TxOut) : Bytes := csEnc os.length ++ serOuts os
def readOutList (bs : Bytes) : Option (List TxOut × Bytes) :=
  match readCs bs with
  | none => none
  | some (n, r) => readOuts n r

/-- the list-level round trip, for any number of outputs below 2^64 and any script lengths -/
theorem readOutList_serOutList (os : List TxOut) (h : ∀ o ∈ os, o.WF) (hl : os.length < 2^64) (r : Bytes) :
    readOutList (serOutList os ++ r) = some (os, r) := by
  unfold readOutList serOutList
  simp only [List.append_assoc, readCs_csEnc _ hl, readOuts_serOuts os h]

#print axioms readOutList_serOutList
