/-! Spike: Bech32 polymod step is XOR-linear and its zero-input map is injective on 30-bit states. -/

def gen : List Nat := [0x3b6a57b2, 0x26508e6d, 0x1ea119fa, 0x3d4233dd, 0x2a1462b3]

def G (top : Nat) : Nat :=
  (if top.testBit 0 then 0x3b6a57b2 else 0) ^^^ (if top.testBit 1 then 0x26508e6d else 0) ^^^
  (if top.testBit 2 then 0x1ea119fa else 0) ^^^ (if top.testBit 3 then 0x3d4233dd else 0) ^^^
  (if top.testBit 4 then 0x2a1462b3 else 0)

/-- one polymod step, as in the Python: chk = (chk & 0x1ffffff) << 5 ^ value ^ G(chk >> 25) -/
def step (c v : Nat) : Nat := (((c % 2^25) * 32) ^^^ v) ^^^ G (c / 2^25)

def T (c : Nat) : Nat := step c 0

theorem xor_eq_zero' {a b : Nat} (h : a ^^^ b = 0) : a = b := by
  have h2 : a ^^^ (a ^^^ b) = a ^^^ 0 := by rw [h]
  rw [← Nat.xor_assoc, Nat.xor_self, Nat.zero_xor, Nat.xor_zero] at h2
  exact h2.symm

theorem G_low5_inj : ∀ t : Fin 32, G t.val % 32 = 0 → t.val = 0 := by decide

theorem G_lt : ∀ t : Fin 32, G t.val < 2^30 := by decide

theorem T_zero_imp (c : Nat) (hc : c < 2^30) (h : T c = 0) : c = 0 := by
  unfold T step at h
  have htop : c / 2^25 < 32 := by omega
  simp only [Nat.xor_zero] at h
  have heq : (c % 2^25) * 32 = G (c / 2^25) := xor_eq_zero' h
  have hm : G (c / 2^25) % 32 = 0 := by rw [← heq]; omega
  have ht := G_low5_inj ⟨c / 2^25, htop⟩ hm
  simp only at ht
  have hg : G (c / 2^25) = 0 := by rw [ht]; decide
  omega

theorem G_xor : ∀ a b : Fin 32, G (a.val ^^^ b.val) = G a.val ^^^ G b.val := by decide

#print axioms T_zero_imp
#print axioms G_xor

/-- XOR-linearity of the step function: the difference of two runs evolves by `T`. -/
theorem step_xor (c1 c2 v1 v2 : Nat) (h1 : c1 < 2^30) (h2 : c2 < 2^30) :
    step (c1 ^^^ c2) (v1 ^^^ v2) = step c1 v1 ^^^ step c2 v2 := by
  unfold step
  have ht1 : c1 / 2^25 < 32 := by omega
  have ht2 : c2 / 2^25 < 32 := by omega
  have hG := G_xor ⟨c1 / 2^25, ht1⟩ ⟨c2 / 2^25, ht2⟩
  simp only at hG
  rw [Nat.xor_div_two_pow, hG, Nat.xor_mod_two_pow]
  have hm : ∀ a b : Nat, (a ^^^ b) * 32 = a * 32 ^^^ b * 32 := by
    intro a b
    have := @Nat.shiftLeft_xor_distrib 5 a b
    simpa [Nat.shiftLeft_eq] using this
  rw [hm]
  -- reassociate / commute xors
  ac_rfl

#print axioms step_xor
