"""usage: add_fixed.py <Fid> <property> <commit> <site> <what>   - records a repaired defect in known_findings.json (log + findings)
and adds its row to the table of DESIGN.md §10.3 (after the last F row before F49)."""
import json, sys
fid, prop, commit, site, what = sys.argv[1:6]
p = '/verif/known_findings.json'; raw = open(p).read(); d = json.loads(raw)
assert not any(f['id'] == fid for f in d['findings'])
d['log'].append('fixed: property=%s %s %s' % (prop, commit, what))
d['findings'].append({'id': fid, 'properties': [prop], 'state': 'fixed', 'commit': commit, 'site': site, 'what': what})
open(p, 'w').write(json.dumps(d, indent=1, ensure_ascii=('\\u00' in raw)))
p = '/verif/DESIGN.md'; L = open(p).read().split('\n')
i = [k for k, l in enumerate(L) if l.startswith('| F49 | C06 | fixed |')][0]
L.insert(i, '| %s | %s | fixed | %s |' % (fid, prop, what))
open(p, 'w').write('\n'.join(L))
print('recorded', fid)
