"""C17 — amount conversion exact to the smallest unit."""
import math
from fractions import Fraction
from harness.core import hexp, run_driver

SUPPLY = 21 * 10**14
EXT_ADDR = '1J9GDZMKEr3ZTj8q6pwtMy4Arvt92FDBTb'


def run(ctx):
    from bitcoinlib.values import Value, value_to_satoshi
    from bitcoinlib.config.config import NETWORK_DENOMINATORS
    from bitcoinlib.networks import NETWORK_DEFINITIONS, Network
    rng = ctx.rng
    T = ctx.thorough
    ctx.rule = ('satoshi amounts: 0..20000 exhaustive, powers of ten +-1, 2^k +-1, the top of the range (21e14 - i), values whose product '
                'with 1e-8 lies next to a rounding tie, random over [0, 21e14]; decimal strings with 0..8 decimals; every denominator symbol '
                'and every network currency code. The exact binary64 model (Lean, rationals) is first validated against CPython floats. '
                'non-trivial = distinct op line')
    # ---- the exact binary64 model agrees with CPython (validation of the model, not of the library) --------------
    cases = []
    for _ in range(3000 if T else 600):
        digits = rng.randint(1, 17)
        ip = rng.randrange(10**rng.randint(0, 9))
        s = '%d.%0*d' % (ip, digits, rng.randrange(10**digits))
        fr = Fraction(float(s))
        cases.append(('f64 %s' % s, '%d/%d' % (fr.numerator, fr.denominator), True))
    # the literal 1e-08 written out in the model (bounded by theorem C17.lit1em8_close) is the model's and CPython's
    lit = Fraction(1e-08)
    cases.append(('amt_lit', '%d/%d' % (lit.numerator, lit.denominator), True))
    ctx.compare(cases, 'model-vs-cpython')

    ns = set(range(0, 20001))
    for k in range(0, 16):
        ns.update([10**k - 1, 10**k, 10**k + 1, 5 * 10**k, 5 * 10**k + 1])
    for k in range(0, 51):
        ns.update([2**k - 1, 2**k, 2**k + 1])
    ns.update(SUPPLY - i for i in range(0, 3000 if T else 400))
    ns.update(rng.randrange(SUPPLY + 1) for _ in range(200000 if T else 20000))
    ns.update(rng.randrange(2 * 10**15, SUPPLY + 1) for _ in range(100000 if T else 10000))
    ns = sorted(n for n in ns if 0 <= n <= SUPPLY)

    # ---- integer -> Value -> integer ---------------------------------------------------------------------------------
    cases = []
    for n in ns:
        cases.append(('amt_roundtrip %d' % n, str(Value.from_satoshi(n).value_sat), True))
    ctx.compare(cases, 'roundtrip')

    # ---- format with 8 decimals, parse back --------------------------------------------------------------------------------
    cases = []
    sample = ns if T else rng.sample(ns, 6000)
    for n in sample:
        s = '%d.%08d' % (n // 10**8, n % 10**8)
        try:
            py = str(value_to_satoshi(s + ' BTC'))
        except Exception:
            py = 'none'
        cases.append(('amt_parse %s' % s, py, True))
        # the integer forms used in serialisation
        v_ = Value.from_satoshi(n)
        if int.from_bytes(v_.to_bytes(), 'little') != n or int.from_bytes(bytes.fromhex(v_.to_hex()), 'little') != n:
            ctx.violation('Value.to_bytes / to_hex is not the amount in smallest units', {'op': 'to_bytes %d' % n, 'observed': v_.to_hex()})
        for form, txt_ in (('str_unit', v_.str_unit()), ('__str__', str(v_)), ('str()', v_.str())):
            if value_to_satoshi(txt_) != n:
                ctx.violation('formatting an amount and parsing it back changes it', {'op': 'fmt-parse %d' % n, 'form': form, 'text': txt_,
                                                                                     'observed': value_to_satoshi(txt_)})
        # the library's own formatting, parsed back
        txt = Value.from_satoshi(n).str(1)
        if value_to_satoshi(txt) != n:
            ctx.violation('formatting an amount and parsing it back changes it', {'op': 'fmt-parse %d' % n, 'text': txt,
                                                                                 'observed': value_to_satoshi(txt)})
    for _ in range(2000 if T else 400):        # fewer decimals, other spellings
        d = rng.randint(0, 8)
        s = '%d' % rng.randrange(21 * 10**6) if d == 0 else '%d.%0*d' % (rng.randrange(21 * 10**6), d, rng.randrange(10**d))
        try:
            py = str(value_to_satoshi(s + ' BTC'))
        except Exception:
            py = 'none'
        cases.append(('amt_parse %s' % s, py, True))
        # the bare number, without a currency code, is the same amount of coins (also when it has no decimal point)
        try:
            py = str(value_to_satoshi(s))
        except Exception:
            py = 'none'
        ctx.count('bare-number:' + ('digits-only' if d == 0 else 'decimal'))
        cases.append(('amt_parse %s' % s, py, True))
    ctx.compare(cases, 'parse')

    # ---- every denominator symbol, every network -------------------------------------------------------------------------------
    def trig(extra, op, py, spec):
        e, k_ = int(op.split(' ')[2]), int(op.split(' ')[3])
        if e > 0 and k_ < 8 + e:
            # digits are cut (more than 8 decimals would be needed): any correct rounding of the last shown digit is fine
            try:
                a, b = int(py.replace('.', '')), int(spec.replace('.', ''))
                if abs(a - b) <= 1:
                    ctx.count('cut-digits-last-place-rounding')
                    return 'OBS-rounding'
            except ValueError:
                pass
        if 'py_equals_impl' in extra and any(f['id'] == 'F14' for f in ctx.known):
            return 'F14'          # exactly the value the binary64 pipeline produces
        return None

    cases = []
    dens = [(d, sym) for d, sym in NETWORK_DENOMINATORS.items()]
    nets = [n for n in NETWORK_DEFINITIONS]
    for n in (rng.sample(ns, 3000) if T else rng.sample(ns, 500)) + [2098750217798187]:
        for den, sym in (dens if T else rng.sample(dens, 6) + [(1, ''), (1e-6, 'µ'), (1e-7, 'fin')]):
            net = rng.choice(nets)
            nw = Network(net)
            e = int(round(math.log10(den)))
            decimals = -int(math.log10(nw.denominator / den))
            decimals = min(max(decimals, 0), 8) if decimals > 8 or decimals < 0 else decimals
            try:
                txt = Value.from_satoshi(n, network=net).str(den)
                num = txt.split(' ')[0]
            except Exception as ex:
                num = 'none'
            cases.append(('amt_fmt %d %d %d' % (n, e, decimals), num, True))
            ctx.count('denominator:' + (sym or 'unit'))
            need = -int(round(math.log10(nw.denominator / den)))
            if need > 8 and rng.random() < 0.5:
                # all the decimals the unit needs, asked for explicitly ("denominators up to 14 decimals")
                try:
                    num = Value.from_satoshi(n, network=net).str(den, decimals=need).split(' ')[0]
                except Exception as ex:
                    num = 'none'
                cases.append(('amt_fmt %d %d %d' % (n, e, need), num, True))
                ctx.count('explicit-decimals:%d' % need)
    ctx.compare(cases, 'format', trigger_findings=trig)

    # ---- amount strings with a denominator symbol: '<decimal> <symbol><currency code>' must be the exact amount ----------------
    from bitcoinlib.values import value_to_satoshi
    bad = 0
    for net in ('bitcoin', 'litecoin', 'dogecoin', 'testnet'):
        nw = Network(net)
        code = nw.currency_code
        for den, sym in dens:
            fden = Fraction(str(den)) if den < 1 else Fraction(int(den))
            for _ in range(3 if not T else 12):
                # a decimal whose value in satoshi is an integer (nothing to round)
                unit_sat = fden / Fraction(str(nw.denominator))          # satoshi per one <symbol><code>
                qmax = Fraction(21 * 10 ** 14) / unit_sat                     # the total supply in this unit
                if unit_sat >= 1:
                    ndec = min(rng.choice([0, 1, 2, 4]), len(str(int(unit_sat))) - 1)
                    top = int(min(qmax, 10 ** 6) * 10 ** ndec)
                    if top < 1:
                        continue
                    q = Fraction(rng.randrange(1, top + 1), 10 ** ndec)
                else:
                    per = int(1 / unit_sat)                                      # this many units make one satoshi
                    q = Fraction(rng.randrange(1, 10 ** 6) * per)
                want = q * unit_sat
                if want.denominator != 1 or want > 21 * 10 ** 14:
                    continue
                txt = ('%d' % q) if q.denominator == 1 else ('%.*f' % (len(str(q.denominator)) - 1, float(q)))
                if Fraction(txt) != q:
                    continue
                amount = '%s %s%s' % (txt, sym, code)
                ctx.evals += 1
                ctx.count('parse-with-symbol:' + (sym or 'unit'))
                ctx.nontrivial.add(hash(amount))
                try:
                    got = value_to_satoshi(amount, network=nw)
                except Exception as ex:
                    got = 'raise:%s' % type(ex).__name__
                if got != int(want):
                    bad += 1
                    if bad <= 5:
                        ctx.violation('an amount string with a denominator symbol is not parsed to the exact amount',
                                      {'op': 'parse_symbol', 'amount': amount, 'network': net, 'observed': got, 'expected_satoshi': int(want)})
    # ---- a NUMBER together with a denominator argument (symbol or numeric): Value(q, 'm') is q thousandths of a coin, exactly ------------
    for den, sym in dens:
        fden = Fraction(str(den)) if den < 1 else Fraction(int(den))
        unit_sat = fden * 10 ** 8                                   # satoshi per one unit of this denominator (bitcoin)
        for q in [1, 5, 10, rng.randrange(1, 1000)]:
            want = Fraction(q) * unit_sat
            if want.denominator != 1 or want > 21 * 10 ** 14:
                per = unit_sat.denominator
                q = q * per
                want = Fraction(q) * unit_sat
                if want.denominator != 1 or want > 21 * 10 ** 14:
                    continue
            for arg in ([sym, den] if sym else [den]):
                ctx.evals += 1
                ctx.count('number-with-denominator:' + (sym or 'unit'))
                try:
                    got = Value(q, arg).value_sat
                except Exception as ex:
                    got = 'raise:%s' % type(ex).__name__
                if got != int(want):
                    bad += 1
                    if bad <= 8:
                        ctx.violation('a number with a denominator argument is not that many units', {'op': 'number-with-denominator', 'amount': q, 'denominator': repr(arg), 'observed': got, 'expected_satoshi': int(want)})
    # ---- codes that are no currency of the library are refused; amounts handed to a transaction as text or Value are coins ----------
    from bitcoinlib.transactions import Transaction, Output
    for code_ in ('USD', 'EUR', 'XYZ', 'mUSD', 'BTCX', 'kXYZ'):
        ctx.evals += 1
        ctx.count('unknown-currency-code')
        try:
            got = value_to_satoshi('1 ' + code_)
        except Exception:
            got = None
        if got is not None:
            ctx.violation('an amount with an unknown currency code is converted as if it were the default currency', {'op': 'parse_symbol', 'amount': '1 ' + code_, 'observed': got})
    for n in rng.sample(ns, 40 if T else 12) + [k_ * 10 ** 8 for k_ in (1, 2, 5, 21000000)] + [rng.randrange(1, 21 * 10 ** 6) * 10 ** 8 for _ in range(6)]:
        txt = '%d.%08d BTC' % (n // 10 ** 8, n % 10 ** 8)
        if n % 10 ** 8 == 0:
            txt = rng.choice(['%d', '%d', '%d BTC', '%d.0']) % (n // 10 ** 8)        # whole coins written without decimals / without a code
        for form_, mk in (('add_output(text)', lambda: Transaction().add_output(txt, EXT_ADDR) or 0), ('add_output(Value)', lambda: Transaction().add_output(Value(txt), EXT_ADDR) or 0),
                          ('Output(text)', None), ('Output(Value)', None)):
            ctx.evals += 1
            ctx.count('amount-into-output:' + form_)
            try:
                if form_.startswith('add_output'):
                    t_ = Transaction()
                    t_.add_output(txt if 'text' in form_ else Value(txt), EXT_ADDR)
                    got = t_.outputs[0].value
                else:
                    got = Output(txt if 'text' in form_ else Value(txt), EXT_ADDR).value
            except Exception as e:
                got = 'raise:' + type(e).__name__
            if got != n:
                ctx.violation('an amount handed to an output as text / Value object is not that many smallest units', {'op': 'amount-into-output', 'form': form_, 'amount': txt, 'observed': got, 'expected': n})
    # ---- an amount computed by the caller in floating point (coins * 1e8) that is not a whole number is refused - or, if a tolerance is
    # applied, becomes the amount that was meant, never one unit less
    tried = 0
    for _ in range(120000 if T else 30000):
        n = rng.randrange(1, 21 * 10 ** 12)
        f = float('%d.%08d' % (n // 10 ** 8, n % 10 ** 8)) * 1e8
        if f.is_integer():
            continue
        tried += 1
        ctx.evals += 1
        try:
            t_ = Transaction()
            t_.add_output(f, EXT_ADDR)
            got = t_.outputs[0].value
        except Exception:
            got = None
        if got is not None and got != n:
            ctx.violation('a non-integral float amount is accepted by add_output and becomes another number of smallest units', {'op': 'amount-into-output', 'float': repr(f), 'observed': got, 'expected': n})
            break
    ctx.count('float-amounts-not-integral', tried)
    # ---- the same over the whole supply range: exact decimal text of n satoshi in every unit -------------------------------
    from decimal import Decimal
    codes = {NETWORK_DEFINITIONS[n]['currency_code'].upper() for n in NETWORK_DEFINITIONS}
    big = [SUPPLY - rng.randrange(2000) for _ in range(40 if not T else 400)] + [rng.randrange(SUPPLY + 1) for _ in range(40 if not T else 400)] + \
          [rng.randrange(2 ** 24 * 10 ** 8, SUPPLY + 1) for _ in range(60 if not T else 400)]
    for net in ('bitcoin', 'litecoin', 'dogecoin', 'testnet'):
        nw = Network(net)
        code = nw.currency_code
        for den, sym in dens:
            if (sym + code).upper() in codes and sym:
                continue                      # 'TBTC' is the testnet currency, not tera-BTC
            fden = Fraction(str(den)) if den < 1 else Fraction(int(den))
            unit_sat = fden / Fraction(str(nw.denominator))
            for n in rng.sample(big, (12 if den < 10 else 40) if not T else 120):
                q = Fraction(n) / unit_sat
                txt = format(Decimal(q.numerator) / Decimal(q.denominator), 'f')
                if Fraction(txt) != q:
                    continue
                amount = '%s %s%s' % (txt, sym, code)
                ctx.evals += 1
                ctx.count('parse-with-symbol-large:' + (sym or 'unit'))
                ctx.nontrivial.add(hash(amount))
                try:
                    got = value_to_satoshi(amount, network=nw)
                except Exception as ex:
                    got = 'raise:%s' % type(ex).__name__
                if got != n:
                    bad += 1
                    if bad <= 8:
                        ctx.violation('an amount string with a denominator symbol is not parsed to the exact amount',
                                      {'op': 'parse_symbol', 'amount': amount, 'network': net, 'observed': got, 'expected_satoshi': n})
    # ---- Value.from_satoshi(n, <denominator>) holds exactly n, whatever unit it is asked to be shown in ----------------------
    bad2 = 0
    for den, sym in dens:
        for arg in ((den, sym) if sym else (den,)):
            for n in rng.sample(big, 30 if not T else 300) + rng.sample(ns, 30 if not T else 300):
                ctx.evals += 1
                ctx.count('from_satoshi-with-denominator:' + (sym or 'unit'))
                ctx.nontrivial.add(hash(('fsd', n, arg)))
                try:
                    got = Value.from_satoshi(n, arg).value_sat
                except Exception as ex:
                    got = 'raise:%s' % type(ex).__name__
                if got != n:
                    bad2 += 1
                    if bad2 <= 8:
                        ctx.violation('Value.from_satoshi(n, denominator) does not hold n smallest units',
                                      {'op': 'from_satoshi_den', 'n': n, 'denominator': repr(arg), 'observed': got})
    ctx.exhaustive = False
    ctx.assumptions += ['IEEE-754 binary64 round-to-nearest-even and CPython\'s correctly rounded float(str), round(), %.Nf are modelled exactly on rationals; '
                        'the model is validated against CPython on every run',
                        'the theorem uses the standard model of floating point (relative error <= 2^-53 per operation) as a hypothesis']


def replay(ctx, obj):
    op = obj['replay']['op']
    print('model:', run_driver([op], ctx.flags)[0] if op.startswith('amt_') else '-')
    run(ctx)
    bad = [v for v in ctx.violations if v['replay'].get('op') == op]
    print('still failing' if bad else 'no longer failing')
    return 1 if bad else 0
