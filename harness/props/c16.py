"""C16 — public views and default exports never contain private key material."""
import os, io, sys, json, pickle, copy, contextlib, subprocess, hashlib
from harness.core import hexp, run_driver, REPO, VERIF, fresh_datadir

B58 = '123456789ABCDEFGHJKLMNPQRSTUVWXYZabcdefghijkmnopqrstuvwxyz'


def sha256d(b):
    return hashlib.sha256(hashlib.sha256(b).digest()).digest()


def b58(b):
    n = int.from_bytes(b, 'big')
    s = ''
    while n:
        n, r = divmod(n, 58)
        s = B58[r] + s
    return '1' * (len(b) - len(b.lstrip(b'\0'))) + s


def b58check(b):
    return b58(b + sha256d(b)[:4])


def secret_encodings(secret, nets, hd=None):
    """every spelling of a secret that must not appear: raw, hex, decimal, WIF for every network, xprv for every private version"""
    raw = secret.to_bytes(32, 'big')
    enc = {'raw': raw, 'hex': raw.hex().encode(), 'HEX': raw.hex().upper().encode(), 'dec': str(secret).encode()}
    for n, d in nets.items():
        v = bytes.fromhex(d['prefix_wif'])
        enc['wif_c:' + n] = b58check(v + raw + b'\x01').encode()
        enc['wif_u:' + n] = b58check(v + raw).encode()
    if hd is not None:
        depth, fp, child, chain = hd
        seen = set()
        for n, d in nets.items():
            for pf in d['prefixes_wif']:
                if pf[2] == 'private' and pf[0] not in seen:
                    seen.add(pf[0])
                    payload = bytes.fromhex(pf[0]) + bytes([depth]) + fp + child.to_bytes(4, 'big') + chain + b'\0' + raw
                    enc['xprv:' + pf[1]] = b58check(payload).encode()
    return enc


def blobs_of(obj, depth=0, seen=None):
    """everything reachable from an object as bytes: attribute walk (dict, slots, sequences) + numbers as decimal"""
    if seen is None:
        seen = set()
    out = []
    if id(obj) in seen or depth > 8:
        return out
    seen.add(id(obj))
    if isinstance(obj, (bytes, bytearray)):
        out.append(bytes(obj))
    elif isinstance(obj, str):
        out.append(obj.encode('utf8', 'replace'))
    elif isinstance(obj, bool) or obj is None:
        pass
    elif isinstance(obj, int):
        out.append(str(obj).encode())
        if 0 <= obj < 2**256:
            out.append(obj.to_bytes(32, 'big'))
    elif isinstance(obj, float):
        pass
    elif isinstance(obj, dict):
        for k, v in obj.items():
            out += blobs_of(k, depth + 1, seen) + blobs_of(v, depth + 1, seen)
    elif isinstance(obj, (list, tuple, set, frozenset)):
        for v in obj:
            out += blobs_of(v, depth + 1, seen)
    else:
        d = getattr(obj, '__dict__', None)
        if isinstance(d, dict) and not isinstance(obj, type) and type(obj).__module__.startswith('bitcoinlib'):
            for k, v in d.items():
                out += blobs_of(v, depth + 1, seen)
    return out


def leaks(enc, blobs):
    hit = []
    joined = b'\x00|\x00'.join(blobs)
    for name, e in enc.items():
        if e in joined:
            hit.append(name)
    return hit


def run(ctx):
    from bitcoinlib.keys import Key, HDKey, Address
    from bitcoinlib.networks import NETWORK_DEFINITIONS
    rng = ctx.rng
    T = ctx.thorough
    nets = NETWORK_DEFINITIONS
    ctx.rule = ('private Key / HDKey objects on several networks; random histories (length <= 8, thorough 20) of wif / wif_key / address / '
                'hash160 / as_dict(private) / as_dict / info / public_point calls; then the public view is taken and EVERY encoding of the '
                'secret (raw, hex, HEX, decimal, WIF compressed/uncompressed for every network, extended private key for every private '
                'version) is searched in pickle.dumps, deepcopy + attribute walk, repr, str, as_dict, as_json, info() output, wif_public; '
                'wallets (HD, single key, multisig): repr of keys, as_dict/as_json/info, public_master, transactions; database file with '
                'field encryption. non-trivial = distinct (object kind, history, view)')
    OPS = ['wif', 'address', 'hash160', 'as_dict_private', 'as_dict', 'info', 'public_point']

    def apply(k, op):
        with contextlib.redirect_stdout(io.StringIO()):
            if op == 'wif':
                return k.wif_key() if isinstance(k, HDKey) else k.wif()
            if op == 'address':
                return k.address()
            if op == 'hash160':
                return k.hash160
            if op == 'as_dict_private':
                return k.as_dict(include_private=True)
            if op == 'as_dict':
                return k.as_dict()
            if op == 'info':
                return k.info()
            if op == 'public_point':
                return k.public_point()

    def views(pub):
        out = {}
        out['pickle'] = [pickle.dumps(pub)]
        out['deepcopy+walk'] = blobs_of(copy.deepcopy(pub))
        out['repr'] = [repr(pub).encode()]
        out['str'] = [str(pub).encode()]
        out['as_dict'] = blobs_of(pub.as_dict())
        out['as_json'] = [pub.as_json().encode()]
        buf = io.StringIO()
        with contextlib.redirect_stdout(buf):
            pub.info()
        out['info'] = [buf.getvalue().encode()]
        if isinstance(pub, HDKey):
            out['wif_public'] = [pub.wif_public().encode()]
            out['wif()'] = [pub.wif().encode()]
        return out

    model_cases = []
    n_hist = 300 if T else 60
    for trial in range(n_hist):
        net = rng.choice(list(nets))
        hd = rng.random() < 0.5
        if hd:
            k = HDKey.from_seed(bytes(rng.randrange(256) for _ in range(32)), network=net, witness_type='legacy').subkey_for_path("m/%d'/%d" % (rng.randrange(3), rng.randrange(9)))
            enc = secret_encodings(k.secret, nets, (k.depth, k.parent_fingerprint, k.child_index, k.chain))
        else:
            k = Key(rng.randrange(1, 2**255), network=net, compressed=rng.random() < 0.8)
            enc = secret_encodings(k.secret, nets)
        hist = [rng.choice(OPS) for _ in range(rng.randint(0, 20 if T else 8))]
        if trial % 5 == 0:
            hist = ['wif'] + hist          # the history that matters most: export the WIF first
        for op in hist:
            apply(k, op)
        # per-attribute taint of the *private* object, compared with the model
        tainted = sorted(a for a, v in k.__dict__.items() if leaks(enc, blobs_of(v)))
        pub = k.public()
        tainted_pub = sorted(a for a, v in pub.__dict__.items() if leaks(enc, blobs_of(v)))
        py = 'tainted=%s public=%s' % (','.join(tainted), ','.join(tainted_pub))
        model_cases.append(('redact %s %s' % ('HDKey' if hd else 'Key', ','.join(hist) or '-'), py, True))
        # every public view, every encoding
        for vname, blobs in views(pub).items():
            ctx.evals += 1
            ctx.count('view:' + vname)
            ctx.nontrivial.add(hash((trial, vname)))
            hit = leaks(enc, blobs)
            if hit:
                ctx.violation('private key material in a public view', {'op': 'view %s' % vname, 'kind': 'HDKey' if hd else 'Key', 'network': net,
                                                                        'history': hist, 'encodings_found': hit[:5]})
        # the other way to the public version of an HD key: the path 'M' (public master notation) on its own, as text and as list
        if hd:
            for pform in ('M', ['M']):
                try:
                    pubm = k.subkey_for_path(pform)
                except Exception:
                    ctx.count('path-M-refused')
                    continue
                for vname, blobs in views(pubm).items():
                    ctx.evals += 1
                    ctx.count('view:path-M:' + vname)
                    hit = leaks(enc, blobs)
                    if hit:
                        ctx.violation('private key material in the public version of an HD key obtained with the path M',
                                      {'op': 'view path-M %s' % vname, 'path': repr(pform), 'network': net, 'history': hist, 'encodings_found': hit[:5]})
        # PUBLIC exports asked of the private object (also with an explicit version prefix, bytes or hex): the strings and their
        # Base58 payloads must not contain the secret
        if hd:
            from bitcoinlib.networks import Network
            exports = {'private.wif_public()': lambda: k.wif_public(), 'private.wif(is_private=False)': lambda: k.wif(is_private=False)}
            try:
                pre = Network(net).wif_prefix(is_private=False, witness_type='legacy')
            except Exception:
                pre = None
            if pre is not None:
                exports['private.wif_public(prefix=bytes)'] = lambda: k.wif_public(prefix=pre)
                exports['private.wif_public(prefix=hex)'] = lambda: k.wif_public(prefix=pre.hex())
                exports['private.wif(is_private=False, prefix=bytes)'] = lambda: k.wif(is_private=False, prefix=pre)
            for vname, fn in exports.items():
                try:
                    st = fn()
                except Exception:
                    ctx.count('public-export-refused:' + vname)
                    continue
                blobs = [st.encode()]
                n_ = 0
                ok58 = True
                for ch in st:
                    if ch not in '123456789ABCDEFGHJKLMNPQRSTUVWXYZabcdefghijkmnopqrstuvwxyz':
                        ok58 = False
                        break
                    n_ = n_ * 58 + '123456789ABCDEFGHJKLMNPQRSTUVWXYZabcdefghijkmnopqrstuvwxyz'.index(ch)
                if ok58:
                    blobs.append(n_.to_bytes((n_.bit_length() + 7) // 8, 'big'))
                ctx.evals += 1
                ctx.count('view:' + vname)
                hit = leaks(enc, blobs)
                if hit:
                    ctx.violation('private key material in a public export of a private key', {'op': 'view %s' % vname, 'network': net, 'history': hist,
                                                                                              'encodings_found': hit[:5]})
        # default exports of the private object itself: as_dict() / as_json() without include_private, repr, str
        for vname, blobs in (('private.as_dict()', blobs_of(k.as_dict())), ('private.as_json()', [k.as_json().encode()]),
                             ('private.repr', [repr(k).encode()]), ('private.str', [str(k).encode()])):
            ctx.evals += 1
            hit = leaks(enc, blobs)
            if hit:
                ctx.violation('private key material in a default export', {'op': 'view %s' % vname, 'kind': 'HDKey' if hd else 'Key',
                                                                           'history': hist, 'encodings_found': hit[:5]})
    ctx.compare(model_cases, 'slot-model')

    # ---- wallets ------------------------------------------------------------------------------------------------------------
    run_wallets(ctx, nets)
    run_multisig_wallets(ctx, nets)
    run_db_encryption(ctx, nets)
    run_db_column_logic(ctx)
    ctx.exhaustive = False
    ctx.assumptions += ['the object walk enumerates what Python exposes (__dict__ of bitcoinlib objects, containers, pickle bytes); it is an '
                        'enumeration, not a proof about the interpreter',
                        'info() / as_dict(include_private=True) / wif() of a PRIVATE object are explicit private exports and are not public views']


def run_wallets(ctx, nets):
    from bitcoinlib.wallets import Wallet, wallet_delete_if_exists
    from bitcoinlib.keys import HDKey
    from bitcoinlib.mnemonic import Mnemonic
    rng = ctx.rng
    dbfile = os.path.join(os.environ['BCL_DATA_DIR'], 'c16_wallets.sqlite')
    uri = 'sqlite:///' + dbfile
    configs = [('hd-segwit', dict(witness_type='segwit')), ('hd-legacy', dict(witness_type='legacy')), ('hd-p2sh-segwit', dict(witness_type='p2sh-segwit'))]
    from bitcoinlib.keys import Key
    configs += [('single-segwit', dict(witness_type='segwit', scheme='single')), ('single-legacy', dict(witness_type='legacy', scheme='single'))]
    configs += [('account-key-segwit', dict(witness_type='segwit', from_account_key=True)), ('account-key-legacy', dict(witness_type='legacy', from_account_key=True))]
    for name, kw in configs:
        seed = bytes(rng.randrange(256) for _ in range(32))
        single = kw.get('scheme') == 'single'
        if single:
            # a wallet around ONE private key (no derivation): its "master" is that key
            master = HDKey(Key(int.from_bytes(seed, 'big') % (2 ** 255) + 1), network='bitcoin', witness_type=kw['witness_type'], key_type='single')
            w = Wallet.create('c16_' + name, keys=Key(master.secret), network='bitcoin', db_uri=uri, **kw)
            keys = [w.get_key()]
        elif kw.get('from_account_key'):
            # a wallet around the PRIVATE account-level extended key (depth 3): that key is its "master"
            root = HDKey.from_seed(seed, network='bitcoin', witness_type=kw['witness_type'])
            master = root.subkey_for_path("m/%d'/0'/0'" % {'legacy': 44, 'p2sh-segwit': 49, 'segwit': 84}[kw['witness_type']])
            w = Wallet.create('c16_' + name, keys=master.wif_private(), network='bitcoin', db_uri=uri, witness_type=kw['witness_type'])
            keys = [w.get_key(), w.new_key(), w.new_key_change()]
        else:
            master = HDKey.from_seed(seed, network='bitcoin', witness_type=kw['witness_type'])
            w = Wallet.create('c16_' + name, keys=master, network='bitcoin', db_uri=uri, **kw)
            keys = [w.get_key(), w.new_key(), w.new_key_change()]
        secrets = {}
        secrets['master'] = secret_encodings(master.secret, nets, (master.depth, master.parent_fingerprint, master.child_index, master.chain))
        for wk in keys:
            hk = wk.key()
            secrets['key%d' % wk.key_id] = secret_encodings(hk.secret, nets, (hk.depth, hk.parent_fingerprint, hk.child_index, hk.chain))
        allenc = {}
        for nm, e in secrets.items():
            for kname, v in e.items():
                allenc[nm + ':' + kname] = v
        buf = io.StringIO()
        with contextlib.redirect_stdout(buf):
            w.info(detail=5)
        views = {
            'Wallet.repr': [repr(w).encode()],
            'Wallet.as_dict': blobs_of(w.as_dict()),
            'Wallet.as_json': [w.as_json().encode()],
            'Wallet.info': [buf.getvalue().encode()],
            'Wallet.keys() repr': [repr(w.keys()).encode()],
            'WalletKey.repr': [repr(k_).encode() for k_ in keys[:2]],
            'WalletKey.as_dict': blobs_of([k.as_dict() for k in keys]),
            'public_master.wif': [w.public_master().wif.encode()],
            'Wallet.wif()': blobs_of(w.wif()),
            'Wallet.wif(is_private=False)': blobs_of(w.wif(is_private=False)),
            'public_master object': blobs_of(w.public_master()),
            'addresslist': blobs_of(w.addresslist()),
            # the dictionary export of key selections: selecting the private keys is not asking for their private fields
            'Wallet.keys(as_dict=True)': blobs_of(w.keys(as_dict=True)),
            'Wallet.keys(is_private=True, as_dict=True)': blobs_of(w.keys(is_private=True, as_dict=True)),
            'Wallet.keys(is_private=False, as_dict=True)': blobs_of(w.keys(is_private=False, as_dict=True)),
            'Wallet.keys(depth=0, is_private=True, as_dict=True)': blobs_of(w.keys(depth=0, is_private=True, as_dict=True)),
        }
        try:
            views['WalletKey.public()'] = blobs_of(copy.copy(keys[-1]).public())
        except Exception:
            pass
        for vname, blobs in views.items():
            ctx.evals += 1
            ctx.count('wallet-view:' + vname)
            ctx.nontrivial.add(hash((name, vname)))
            hit = leaks(allenc, blobs)
            if hit:
                ctx.violation('private key material in a wallet public view / default export', {'op': 'view %s' % vname, 'wallet': name,
                                                                                                'encodings_found': hit[:5]})
        # the same public views right after RE-OPENING the wallet (key objects loaded from the database, nothing cached yet)
        for history in ('reopen', 'reopen-then-key'):
            wr = Wallet('c16_' + name, db_uri=uri)
            rviews = {}
            try:
                if history == 'reopen-then-key':
                    wr.main_key.key()
                pm = wr.public_master()
                rviews['public_master.wif'] = [str(pm.wif).encode()]
                rviews['public_master repr'] = [repr(pm).encode()]
                rviews['public_master object'] = blobs_of(pm)
                for wk in keys:
                    pk = wr.key(wk.key_id).public()
                    rviews['WalletKey(%d).public()' % wk.key_id] = blobs_of(pk) + [repr(pk).encode(), str(pk.wif).encode()]
                rviews['main_key.public()'] = blobs_of(Wallet('c16_' + name, db_uri=uri).main_key.public())
            except Exception as e:
                ctx.count('reopen-view-raised:' + type(e).__name__)
            for vname, blobs in rviews.items():
                ctx.evals += 1
                ctx.count('wallet-view-after-%s' % history)
                hit = leaks(allenc, blobs)
                if hit:
                    ctx.violation('private key material in a public view of a re-opened wallet', {'op': 'view %s after %s' % (vname, history), 'wallet': name,
                                                                                                   'encodings_found': hit[:5]})
        if single:
            continue
        # watch-only wallet from the account public key
        pubwif = w.public_master().wif
        kw = {k_: v_ for k_, v_ in kw.items() if k_ != 'from_account_key'}
        w2 = Wallet.create('c16_watch_' + name, keys=pubwif, network='bitcoin', db_uri=uri, **kw)
        w2.get_key()
        for vname, blobs in (('watch-only as_dict', blobs_of(w2.as_dict())), ('watch-only keys repr', [repr(w2.keys()).encode()]),
                             ('watch-only object', blobs_of(w2.main_key))):
            ctx.evals += 1
            hit = leaks(allenc, blobs)
            if hit:
                ctx.violation('private key material in a watch-only wallet', {'op': 'view %s' % vname, 'wallet': name, 'encodings_found': hit[:5]})


def run_multisig_wallets(ctx, nets):
    """multisig wallets that own one private cosigner key: the wallet-level public views and default exports"""
    from bitcoinlib.wallets import Wallet
    from bitcoinlib.keys import HDKey
    rng = ctx.rng
    uri = 'sqlite:///' + os.path.join(os.environ['BCL_DATA_DIR'], 'c16_ms_wallets.sqlite')
    for wt in ('legacy', 'p2sh-segwit', 'segwit'):
        seeds = [bytes(rng.randrange(256) for _ in range(32)) for _ in range(2)]
        masters = [HDKey.from_seed(sd, witness_type=wt, multisig=True, network='bitcoin') for sd in seeds]
        pub1 = masters[1].public_master_multisig(witness_type=wt)
        name = 'c16_ms_' + wt.replace('-', '_')
        w = Wallet.create(name, keys=[masters[0], pub1], sigs_required=2, witness_type=wt, network='bitcoin', db_uri=uri)
        k = w.get_key()
        allenc = {}
        own = masters[0]
        for nm, hk in (('master', own),):
            for kn, v in secret_encodings(hk.secret, nets, (hk.depth, hk.parent_fingerprint, hk.child_index, hk.chain)).items():
                allenc[nm + ':' + kn] = v
        # the account-level private key of the own cosigner and the leaf keys of the first address
        acc = own.subkey_for_path("m/45'" if wt == 'legacy' else "m/48'/0'/0'/%d'" % (1 if wt == 'p2sh-segwit' else 2))
        for nm, hk in (('account', acc), ('leaf', acc.subkey_for_path('0/0'))):
            for kn, v in secret_encodings(hk.secret, nets, (hk.depth, hk.parent_fingerprint, hk.child_index, hk.chain)).items():
                allenc[nm + ':' + kn] = v
        for history in ('same-session', 'reopened'):
            wv = w if history == 'same-session' else Wallet(name, db_uri=uri)
            buf = io.StringIO()
            with contextlib.redirect_stdout(buf):
                wv.info(detail=5)
            views = {'Wallet.info': [buf.getvalue().encode()], 'Wallet.repr': [repr(wv).encode()], 'Wallet.as_dict': blobs_of(wv.as_dict()),
                     'Wallet.as_json': [wv.as_json().encode()], 'Wallet.keys() repr': [repr(wv.keys()).encode()],
                     'Wallet.wif(is_private=False)': blobs_of(wv.wif(is_private=False)), 'public_master': blobs_of(wv.public_master()),
                     'addresslist': blobs_of(wv.addresslist())}
            # after key() has been called on the wallet's multisig keys (it loads the cosigner rows): the dictionaries again
            try:
                [wv.key(k_.id).key() for k_ in wv.keys()]
                views['Wallet.as_dict after key() calls'] = blobs_of(wv.as_dict())
                views['Wallet.keys(as_dict=True) after key() calls'] = blobs_of(wv.keys(as_dict=True))
            except Exception:
                ctx.count('multisig-key()-history-not-available')
            for vname, blobs in views.items():
                ctx.evals += 1
                ctx.count('multisig-wallet-view:' + vname)
                ctx.nontrivial.add(hash((wt, history, vname)))
                hit = leaks(allenc, blobs)
                if hit:
                    ctx.violation('private key material in a public view / default export of a multisig wallet',
                                  {'op': 'view %s (%s)' % (vname, history), 'wallet': name, 'encodings_found': hit[:5]})


def run_db_encryption(ctx, nets):
    """a subprocess with DB_FIELD_ENCRYPTION_KEY creates a wallet; the database file must not contain any encoding of its secrets"""
    d = fresh_datadir()
    script = r'''
import os, sys, json
sys.path.insert(0, %r)
from bitcoinlib.wallets import Wallet
from bitcoinlib.keys import HDKey
seed = bytes.fromhex(sys.argv[1])
m = HDKey.from_seed(seed, network='bitcoin', witness_type='segwit')
uri = 'sqlite:///' + os.path.join(os.environ['BCL_DATA_DIR'], 'enc.sqlite')
w = Wallet.create('encw', keys=m, network='bitcoin', witness_type='segwit', db_uri=uri)
ks = [w.get_key(), w.new_key(), w.new_key_change()]
out = [(m.secret, m.depth, m.parent_fingerprint.hex(), m.child_index, m.chain.hex())]
for wk in ks:
    k = wk.key()
    out.append((k.secret, k.depth, k.parent_fingerprint.hex(), k.child_index, k.chain.hex()))
for k in w.keys():
    pass
print(json.dumps(out))
''' % REPO
    seed = bytes(ctx.rng.randrange(256) for _ in range(32)).hex()
    # the three documented ways to switch field encryption on: a key, a password, both; and off
    for label, envkey in (('encrypted', {'DB_FIELD_ENCRYPTION_KEY': '11' * 32}), ('encrypted-by-password', {'DB_FIELD_ENCRYPTION_PASSWORD': 'correct horse'}),
                          ('encrypted-key-and-password', {'DB_FIELD_ENCRYPTION_KEY': '22' * 32, 'DB_FIELD_ENCRYPTION_PASSWORD': 'battery staple'}), ('plain', None)):
        dd = fresh_datadir()
        env = dict(os.environ, BCL_DATA_DIR=dd)
        env.pop('DB_FIELD_ENCRYPTION_KEY', None)
        env.pop('DB_FIELD_ENCRYPTION_PASSWORD', None)
        if envkey:
            env.update(envkey)
        p = subprocess.run([sys.executable, '-c', script, seed], capture_output=True, text=True, env=env, timeout=300)
        if p.returncode != 0:
            ctx.notes.append('db-encryption subprocess failed (%s): %s' % (label, p.stderr[-300:]))
            continue
        recs = json.loads(p.stdout.strip().splitlines()[-1])
        data = open(os.path.join(dd, 'enc.sqlite'), 'rb').read()
        found = []
        for sec, depth, fp, child, chain in recs:
            enc = secret_encodings(sec, nets, (depth, bytes.fromhex(fp), child, bytes.fromhex(chain)))
            for nm, e in enc.items():
                if nm.startswith('dec'):
                    continue
                if e in data:
                    found.append(nm)
        ctx.evals += 1
        ctx.count('db-file-scan:' + label, len(data))
        ctx.nontrivial.add(hash(label))
        if label.startswith('encrypted') and found:
            ctx.violation('plaintext private key material in the database file although field encryption is on',
                          {'op': 'db-scan ' + label, 'encodings_found': sorted(set(found))[:6]})
        if label == 'plain':
            ctx.extra['plaintext_hits_without_encryption_key'] = len(found)


DBC_CHILD = r"""
import os, sys, json, logging
sys.path.insert(0, %r)
class H(logging.Handler):
    def __init__(self):
        logging.Handler.__init__(self); self.msgs = []
    def emit(self, rec):
        self.msgs.append(rec.getMessage())
h = H()
logging.getLogger('bitcoinlib.db').addHandler(h)
import bitcoinlib.db as db
warned = any('encryption is enabled' in m for m in h.msgs)
cols = {'bin': db.EncryptedBinary(), 'str': db.EncryptedString()}
def unval(kind, hx):
    return None if kind == 'none' else (bytes.fromhex(hx) if kind == 'bytes' else bytes.fromhex(hx).decode('utf8'))
def val(x):
    if x is None: return ['none', '']
    if isinstance(x, (bytes, bytearray)): return ['bytes', bytes(x).hex()]
    if isinstance(x, str): return ['str', x.encode('utf8').hex()]
    return ['other', repr(x)]
out = []
for op, col, kind, hx in json.load(sys.stdin):
    v = unval(kind, hx)
    try:
        r = cols[col].process_bind_param(v, None) if op == 'bind' else cols[col].process_result_value(v, None)
        out.append(['val'] + val(r))
    except ValueError as e:
        out.append(['raises' if 'Data is encrypted' in str(e) else 'ciphererr', type(e).__name__, str(e)[:60]])
    except Exception as e:
        out.append(['ciphererr', type(e).__name__, str(e)[:60]])
print(json.dumps({'warned': warned, 'out': out}))
"""


def run_db_column_logic(ctx):
    """the decision logic of the encrypted column types (db.py) against the model (DbCrypt.lean): per configuration (config.ini
    switch, DB_FIELD_ENCRYPTION_KEY, DB_FIELD_ENCRYPTION_PASSWORD) a subprocess imports the library with that environment and
    binds / reads back values; the parent classifies what was handed to the database by decrypting it with the candidate keys"""
    from bitcoinlib.encoding import aes_encrypt, aes_decrypt
    import bitcoinlib.db as db
    rng = ctx.rng
    # data tie: every column that holds private key material has an encrypted type
    for tname, table in db.Base.metadata.tables.items():
        for c in table.columns:
            if c.name in ('private', 'wif'):
                ctx.evals += 1
                want = db.EncryptedBinary if c.name == 'private' else db.EncryptedString
                if not isinstance(c.type, want):
                    ctx.violation('a database column for private key material is not of an encrypted type',
                                  {'op': 'column-type %s.%s' % (tname, c.name), 'type': type(c.type).__name__})
    rk = lambda: bytes(rng.randrange(256) for _ in range(32)).hex()
    rpw = lambda: ''.join(rng.choice('abcdefghijkmnpqrstuvwxyzABC0123456789 !é') for _ in range(rng.randint(1, 20)))
    cfgs = [(0, '11' * 32, None), (0, None, 'correct horse'), (0, '22' * 32, 'battery staple'), (0, None, None), (1, None, None),
            (0, '', rpw()), (1, rk(), ''), (1, '', ''), (1, rk(), rpw()), (0, None, rpw())]
    for _ in range(12 if ctx.thorough else 2):
        cfgs.append((rng.randrange(2), rng.choice([None, '', rk(), rk()]), rng.choice([None, '', rpw(), rpw()])))
    cases = []
    for en, key, pw in cfgs:
        dd = fresh_datadir()
        if en:
            with open(os.path.join(dd, 'config.ini'), 'w') as f:
                f.write('[common]\ndatabase_encryption_enabled=True\n')
        env = dict(os.environ, BCL_DATA_DIR=dd)
        env.pop('DB_FIELD_ENCRYPTION_KEY', None)
        env.pop('DB_FIELD_ENCRYPTION_PASSWORD', None)
        if key is not None:
            env['DB_FIELD_ENCRYPTION_KEY'] = key
        if pw is not None:
            env['DB_FIELD_ENCRYPTION_PASSWORD'] = pw
        cand = []
        if key:
            cand.append(bytes.fromhex(key))
        if pw:
            cand.append(sha256d(pw.encode('utf8')))
        other = bytes(rng.randrange(256) for _ in range(32))
        vals = [('none', b''), ('bytes', bytes(rng.randrange(256) for _ in range(32))), ('bytes', b''), ('bytes', bytes(rng.randrange(256) for _ in range(rng.randint(1, 80)))),
                ('str', ''.join(rng.choice(B58) for _ in range(52)).encode()), ('str', 'xprv9s21ZrQH143K3é'.encode('utf8')), ('str', b''),
                ('str', ''.join(rng.choice(B58) for _ in range(rng.randint(1, 111))).encode())]
        ops, meta = [], []
        for col in ('bin', 'str'):
            for kind, payload in vals:
                ops.append(['bind', col, kind, payload.hex()])
                meta.append(('bind', col, 'plain', kind, payload))
                writers = ['plain'] + list(cand) + [other]
                for wk in writers:
                    if wk == 'plain':
                        ops.append(['result', col, kind, payload.hex()])
                    elif kind == 'none' or (col == 'str' and kind == 'bytes'):
                        continue        # arbitrary bytes are not text: the text column decodes UTF-8 after decrypting
                    else:
                        ops.append(['result', col, 'bytes', aes_encrypt(payload, wk).hex()])
                    meta.append(('result', col, wk, kind, payload))
        p = subprocess.run([sys.executable, '-c', DBC_CHILD % REPO], input=json.dumps(ops), capture_output=True, text=True, env=env, timeout=300)
        if p.returncode != 0:
            ctx.violation('the library cannot be imported / the column types fail under a field-encryption configuration',
                          {'op': 'dbc-config %r %r %r' % (en, key, pw), 'stderr': p.stderr[-300:]})
            continue
        ans = json.loads(p.stdout.strip().splitlines()[-1])
        envs = lambda x: 'unset' if x is None else hexp(x if isinstance(x, bytes) else x.encode('utf8'))
        keytok = 'unset' if key is None else (key or '-')
        pwtok = envs(pw)
        for (op, col, wk, kind, payload), r, sent in zip(meta, ans['out'], ops):
            if op == 'bind':
                line = 'dbc_bind %d %s %s %s %s %s' % (en, keytok, pwtok, col, kind, hexp(payload))
                if r[0] != 'val':
                    py = r[0]
                else:
                    rk_, rh = r[1], r[2]
                    same = (rk_ == kind and bytes.fromhex(rh) == payload) if kind != 'none' else rk_ == 'none'
                    if same:
                        py = 'plain ' + ('none' if kind == 'none' else '%s:%s' % (kind, hexp(payload)))
                    else:
                        py = 'other %s:%s' % (rk_, rh[:40])
                        if rk_ == 'bytes':
                            for k in cand + [other]:
                                try:
                                    py = 'cipher key=%s payload=%s' % (k.hex(), hexp(aes_decrypt(bytes.fromhex(rh), k)))
                                    break
                                except Exception:
                                    pass
                py += ' warns=%s' % ('true' if ans['warned'] else 'false')
            else:
                line = 'dbc_result %d %s %s %s %s %s %s' % (en, keytok, pwtok, col, 'plain' if wk == 'plain' else wk.hex(), kind, hexp(payload))
                if r[0] != 'val':
                    py = r[0]
                else:
                    py = 'val ' + ('stored' if r[1:3] == [sent[2], sent[3]] else ('none' if r[1] == 'none' else '%s:%s' % (r[1], hexp(bytes.fromhex(r[2])) if r[1] != 'other' else r[2])))
            cases.append((line, py, True))
            ctx.count('dbc:%s:%s' % (op, py.split(' ')[0] + ('' if op == 'result' else '')))
    ctx.compare(cases, 'db-column-logic')


def replay(ctx, obj):
    run(ctx)
    op = obj['replay'].get('op')
    bad = [v for v in ctx.violations if v['replay'].get('op') == op]
    print('still failing' if bad else 'no longer failing', op)
    return 1 if bad else 0
