"""C15 — BIP38 keys decrypt only with the right passphrase; new keys use fresh entropy."""
import os, json, hashlib, unicodedata
from harness.core import hexp, run_driver, REPO


def scrypt64(pw_bytes, salt):
    return hashlib.scrypt(pw_bytes, salt=salt, n=16384, r=8, p=8, dklen=64, maxmem=256 * 1024 * 1024)


def b58decode_check_harness(st):
    B58 = '123456789ABCDEFGHJKLMNPQRSTUVWXYZabcdefghijkmnopqrstuvwxyz'
    n = 0
    for ch in st:
        if ch not in B58:
            return None
        n = n * 58 + B58.index(ch)
    raw = n.to_bytes((n.bit_length() + 7) // 8, 'big')
    raw = b'\0' * (len(st) - len(st.lstrip('1'))) + raw
    body, chk = raw[:-4], raw[-4:]
    return body if hashlib.sha256(hashlib.sha256(body).digest()).digest()[:4] == chk else None


def run(ctx):
    from bitcoinlib.keys import Key, HDKey, bip38_intermediate_password, bip38_create_new_encrypted_wif, bip38_decrypt
    from bitcoinlib.networks import NETWORK_DEFINITIONS
    rng = ctx.rng
    T = ctx.thorough
    N = 0xFFFFFFFFFFFFFFFFFFFFFFFFFFFFFFFEBAAEDCE6AF48A03BBFD25E8CD0364141
    ctx.rule = ('non-EC mode: private keys (1, n-1, leading zeros, random) x compressed/uncompressed x networks x passphrases (ASCII, '
                'NFC-sensitive unicode, the BIP38 unicode vector); encrypted strings compared with the Lean specification (own AES-256, '
                'scrypt from hashlib, own address derivation), decryption with the right / a wrong passphrase / a corrupted checksum, '
                'encryption after an earlier address() call with another encoding; BIP38 vectors of the repository; EC-multiplied mode: '
                'intermediate code -> new key -> decrypt, lot/sequence, N successive generation calls must give N distinct keys. '
                'non-trivial = distinct (key, passphrase, mode, action)')
    nets = list(NETWORK_DEFINITIONS)
    passes = ['TestingOneTwoThree', 'Satoshi', 'pässwörd', 'é', 'ϓ␀𐐀💩'.replace('␀', '\x00'), 'a' * 60]
    secrets = [1, N - 1, int.from_bytes(b'\0\0' + bytes(rng.randrange(256) for _ in range(30)), 'big')] + \
              [rng.randrange(1, N) for _ in range(6 if T else 2)]
    n_cases = 40 if T else 8

    def attempt(fn):
        try:
            return fn()
        except Exception:
            return None

    enc_cases, dec_cases = [], []
    combos = []
    for _ in range(n_cases):
        combos.append((rng.choice(secrets), rng.choice(nets) if rng.random() < 0.5 else 'bitcoin', rng.random() < 0.6, rng.choice(passes)))
    combos.append((rng.choice(secrets), 'bitcoin', False, 'ϓ\x00𐐀💩'[:1] + '́' + '\x00𐐀💩'))     # BIP38 unicode vector style (combining)
    combos.append((rng.choice(secrets), rng.choice(nets), rng.random() < 0.5, ''))                  # the empty passphrase is a passphrase
    combos.append((rng.choice(secrets), 'bitcoin', True, rng.choice([' ', '0', '\x00'])))
    for d, net, comp, pw in combos:
        ah_line = run_driver(['bip38_addrhash %s %d %d' % (net, d, 1 if comp else 0)])[0].split(' | ')[0]
        addrhash = bytes.fromhex(ah_line.split(' ')[0])
        pw_nfc = unicodedata.normalize('NFC', pw).encode('utf8')
        derived = scrypt64(pw_nfc, addrhash)
        k = Key(d, network=net, compressed=comp)
        enc = attempt(lambda: k.encrypt(pw))
        enc_cases.append(('bip38_enc %s %d %d %s' % (net, d, 1 if comp else 0, derived.hex()), enc or 'none', True))
        if not enc:
            continue
        # decrypt with the right passphrase
        k2 = attempt(lambda: Key(enc, password=pw, network=net))
        dec_cases.append(('bip38_dec %s %s %s' % (net, enc, derived.hex()),
                          ('%s %s' % (k2.private_hex, 'true' if k2.compressed else 'false')) if k2 is not None else 'none', True))
        # decrypt with a wrong passphrase: must fail (the address hash check)
        wrong = pw + 'x'
        salt_line = run_driver(['bip38_salt ' + enc])[0].split(' | ')[0]
        k3 = attempt(lambda: Key(enc, password=wrong, network=net))
        derived_wrong = scrypt64(unicodedata.normalize('NFC', wrong).encode('utf8'), bytes.fromhex(salt_line))
        dec_cases.append(('bip38_dec %s %s %s' % (net, enc, derived_wrong.hex()),
                          ('%s %s' % (k3.private_hex, 'true' if k3.compressed else 'false')) if k3 is not None else 'none', True))
        # corrupted checksum / character: must be refused whatever the passphrase
        pos = rng.randrange(2, len(enc))
        alphabet = '123456789ABCDEFGHJKLMNPQRSTUVWXYZabcdefghijkmnopqrstuvwxyz'
        bad = enc[:pos] + rng.choice([c for c in alphabet if c != enc[pos]]) + enc[pos + 1:]
        k4 = attempt(lambda: Key(bad, password=pw, network=net))
        dec_cases.append(('bip38_dec %s %s %s' % (net, bad, derived.hex()),
                          ('%s %s' % (k4.private_hex, 'true' if k4.compressed else 'false')) if k4 is not None else 'none', True))
        # corruption of the checksum characters only (the last characters of the string)
        bad2 = enc[:-1] + rng.choice([c for c in alphabet if c != enc[-1]])
        k5 = attempt(lambda: Key(bad2, password=pw, network=net))
        dec_cases.append(('bip38_dec %s %s %s' % (net, bad2, derived.hex()),
                          ('%s %s' % (k5.private_hex, 'true' if k5.compressed else 'false')) if k5 is not None else 'none', True))
        # history: an earlier address() call with another encoding must not change what encrypt() produces
        if net in ('bitcoin', 'testnet', 'litecoin') and comp:
            kh = Key(d, network=net, compressed=comp)
            attempt(lambda: kh.address(encoding='bech32', script_type='p2wpkh'))
            enc_h = attempt(lambda: kh.encrypt(pw))
            enc_cases.append(('bip38_enc %s %d %d %s' % (net, d, 1, derived.hex()), enc_h or 'none', True))
    # HD key objects encrypt their key like plain key objects, whatever witness type the object has
    for wt_ in ('legacy', 'segwit', 'p2sh-segwit'):
        d = rng.choice(secrets)
        pw = rng.choice(passes)
        ah_line = run_driver(['bip38_addrhash bitcoin %d 1' % d])[0].split(' | ')[0]
        derived = scrypt64(unicodedata.normalize('NFC', pw).encode('utf8'), bytes.fromhex(ah_line.split(' ')[0]))
        enc_h = attempt(lambda: HDKey(Key(d), witness_type=wt_).encrypt(pw))
        ctx.count('hdkey-encrypt:' + wt_)
        enc_cases.append(('bip38_enc bitcoin %d 1 %s' % (d, derived.hex()), enc_h or 'none', True))
    # ... and an HD key object of any witness type opens a BIP38 string like a plain key object does
    for wt_ in (None, 'legacy', 'legacy', 'segwit', 'p2sh-segwit'):
        d = rng.choice(secrets)
        pw = rng.choice(passes[:4])
        hd_imports = locals().get('hd_imports', 0) + 1
        comp_ = False if hd_imports in (1, 2) else (True if hd_imports == 3 else rng.random() < 0.7)   # (the flag of the string in both values, in every run)
        enc_ = attempt(lambda: Key(d, compressed=comp_).encrypt(pw))
        if not enc_:
            continue
        ctx.evals += 1
        ctx.count('hdkey-import:%s' % wt_)
        try:
            hk_ = HDKey(enc_, password=pw) if wt_ is None else HDKey(enc_, password=pw, witness_type=wt_)
            got_ = (hk_.secret, hk_.compressed)
        except Exception as e:
            got_ = 'raise:%s:%s' % (type(e).__name__, str(e)[:50])
        if got_ != (d, comp_) and not (not comp_ and wt_ != 'legacy' and 'Uncompressed' in str(got_)):
            ctx.violation('an HD key object does not open a BIP38 string with its passphrase', {'op': 'hdkey-import', 'witness_type': wt_, 'compressed': comp_, 'observed': str(got_)[:120]})
    ctx.compare(enc_cases, 'encrypt')
    ctx.compare(dec_cases, 'decrypt')

    # ---- published vectors ------------------------------------------------------------------------------------------
    try:
        vec = json.load(open(os.path.join(REPO, 'tests', 'bip38_protected_key_tests.json')))
        for v in vec['valid'][: (len(vec['valid']) if T else 4)]:
            ctx.evals += 1
            ctx.count('vector')
            ctx.nontrivial.add(hash(v['bip38']))
            k = attempt(lambda: Key(v['bip38'], password=v['passphrase']))
            if k is None or k.wif() != v['wif']:
                ctx.violation('BIP38 vector does not decrypt to the published key', {'op': 'vector ' + v['bip38'], 'expected': v['wif'],
                                                                                    'observed': None if k is None else k.wif()})
    except Exception as e:
        ctx.notes.append('vectors not loaded: %r' % e)
    # the BIP38 unicode vector (passphrase must be NFC-normalised)
    uni_pw = 'ϓ\u0000\U00010400\U0001F4A9'
    uni = ('6PRW5o9FLp4gJDDVqJQKJFTpMvdsSGJxMYHtHaQBF3ooa8mwD69bapcDQn', '5Jajm8eQ22H3pGWLEVCXyvND8dQZhiQhoLJNKjYXk9roUFTMSZ4')
    for spelling in (uni_pw, unicodedata.normalize('NFD', 'ϓ\u0000\U00010400\U0001F4A9')):
        ctx.evals += 1
        k = attempt(lambda: Key(uni[0], password=spelling))
        if k is None or k.wif() != uni[1]:
            ctx.violation('the BIP38 unicode test vector does not decrypt (passphrase not NFC-normalised)',
                          {'op': 'vector-unicode', 'passphrase_repr': ascii(spelling), 'observed': None if k is None else k.wif()})

    # ---- EC-multiplied mode --------------------------------------------------------------------------------------------
    combos = [(False, True), (True, True), (False, False), (True, False)]
    rng.shuffle(combos)
    patterns = [1, 0, 2, 3]
    seq0_done = [False]
    ec_nets = ['bitcoin', 'bitcoin', 'bitcoin', 'litecoin', 'testnet', 'dogecoin']
    for trial in range(16 if T else 6):
        pw = rng.choice(passes[:4]) if trial != 1 else ''
        ec_net = ec_nets[trial % len(ec_nets)] if trial < len(ec_nets) else rng.choice(ec_nets)
        # every combination of (lot/sequence given, compressed) - the flag byte is 0x20 / 0x00 / 0x24 / 0x04 (BIP38)
        with_lot, comp = combos[trial % 4]
        lot, seq = (rng.randrange(100000, 999999), rng.choice([0, 0, 1, 4095, rng.randrange(0, 4095)])) if with_lot else (None, None)
        if with_lot and not seq0_done[0]:
            seq0_done[0], seq = True, 0            # (sequence number 0 is a sequence number: once per run for certain)
        salt = bytes(rng.randrange(256) for _ in range(8))
        # seeds with structure: leading / inner / trailing zero bytes (fixed-width fields must keep them), besides random ones
        pat = patterns[trial % 4] if trial < 4 else rng.randrange(4)
        rnd = lambda k: bytes(rng.randrange(1, 256) for _ in range(k))
        seedb = {0: bytes(rng.randrange(256) for _ in range(24)), 1: b'\x00' + rnd(23), 2: rnd(8) + b'\x00' * 8 + rnd(8),
                 3: b'\x00\x00' + rnd(13) + b'\x00' + b'\x00' + rnd(6) + b'\x00'}[pat]
        if pat == 3:
            salt = b'\x00' + salt[1:7] + b'\x00'
        ctx.count('ec-seed-pattern:%d' % pat)
        ctx.evals += 1
        ctx.count('ec-mode')
        ctx.nontrivial.add(hash((pw, lot, seq, seedb)))
        try:
            ip = bip38_intermediate_password(pw, lot=lot, sequence=seq, owner_salt=salt)
            res = bip38_create_new_encrypted_wif(ip, compressed=comp, seed=seedb, network=ec_net)
            payload = b58decode_check_harness(res['encrypted_wif'])
            want_flag = (0x20 if comp else 0x00) | (0x04 if lot is not None else 0x00)
            if payload is None or payload[:2] != b'\x01\x43' or payload[2] != want_flag:
                ctx.violation('EC-multiplied key carries a wrong prefix / flag byte',
                              {'op': 'ec-mode-flag', 'lot': lot, 'compressed': comp, 'observed': None if payload is None else payload[:3].hex(),
                               'expected': '0143%02x' % want_flag})
            # (the passphrase is typed in the other unicode normal form when it comes back)
            pw_back = unicodedata.normalize('NFD' if trial % 2 else 'NFC', pw)
            ctx.count('ec-network:' + ec_net)
            k = Key(res['encrypted_wif'], password=pw_back, network=ec_net)
            ok = k.address(compressed=comp) == res['address'] and k.compressed == comp
            wrong = attempt(lambda: Key(res['encrypted_wif'], password=pw + 'x', network=ec_net))
        except Exception as e:
            ctx.violation('EC-multiplied key does not decrypt with its passphrase', {'op': 'ec-mode', 'error': repr(e)[:150]})
            continue
        if not ok:
            ctx.violation('EC-multiplied key decrypts to another key / compression', {'op': 'ec-mode', 'address': res['address'], 'got': k.address()})
        if wrong is not None:
            ctx.violation('EC-multiplied key decrypts with a wrong passphrase', {'op': 'ec-mode-wrong-passphrase'})

    # ---- freshness: separate requests never yield the same key -------------------------------------------------------------
    ip = bip38_intermediate_password('freshness')
    ip2 = bip38_intermediate_password('freshness')
    ctx.evals += 2
    if ip == ip2:
        ctx.violation('two intermediate codes created without explicit salt are identical (the salt is not fresh)',
                      {'op': 'freshness intermediate', 'code': ip})
    addrs = [bip38_create_new_encrypted_wif(ip)['address'] for _ in range(4 if T else 3)]
    ctx.count('generation-calls', len(addrs))
    if len(set(addrs)) != len(addrs):
        ctx.violation('successive key-generation calls return the same key (entropy drawn once at import time)',
                      {'op': 'freshness create_new', 'addresses': addrs})
    ctx.exhaustive = False
    ctx.assumptions += ['scrypt comes from hashlib (OpenSSL), independent of the scrypt package bitcoinlib uses; AES-256 in the driver is own reference code (FIPS-197 vector)',
                        '"wrong passphrase fails" rests on the 4-byte address hash (probability 2^-32 of a false accept), not a theorem']


def replay(ctx, obj):
    run(ctx)
    op = obj['replay'].get('op')
    bad = [v for v in ctx.violations if v['replay'].get('op') == op]
    print('still failing' if bad else 'no longer failing', op)
    return 1 if bad else 0
