"""C07 - wallet transaction creation: real Wallet.transaction_create / select_inputs / estimate_size / sweep / send
against the Lean transcription, plus the statement of the property checked on every created transaction
(through the objects and through an independent parse of the raw bytes)."""
import os, re

from harness.core import run_driver, Infra

EXT = {'p2wpkh': ('bc1qw508d6qejxtdg4y5r3zarvary0c5xw7kv8f3t4', 22), 'p2wsh': ('bc1qrp33g0q5c5txsp9arysrx4k6zdkfs4nce4xj0gdcccefvpysxf3qccfmv3', 34),
       'p2pkh': ('1BvBMSEYstWetqTFn5Au4m4GFg7xJaNVN2', 25), 'p2sh': ('3J98t1WpEZ73CNmQviecrnyiWrnqRhWNLy', 23)}
STATE = {'fee': 20000, 'push': 'ok', 'randint': [], 'dirichlet': None, 'parts': None, 'sizes': [], 'selects': []}

ERRS = [('No unspent transaction outputs', 'no-utxos'), ('Not enough unspent', 'not-enough'), ('Total amount of outputs is greater', 'outputs-greater'),
        ('Not enough funds to create multiple change outputs', 'multi-change'), ('Sum of inputs values is not equal', 'not-balanced'),
        ('lower then minimal', 'fee-low'), ('higher then maximum', 'fee-high'),
        ('same output more than once', 'duplicate-input')]


def install(ctx):
    import random as pyrandom
    import numpy as np
    import bitcoinlib.wallets as W
    from bitcoinlib.transactions import Transaction
    from bitcoinlib.db import DbTransactionOutput, DbTransaction, DbKey

    class FakeService:
        def __init__(self, *a, **k):
            self.results = {'fake': 1}
            self.errors = {}
            self.complete = True

        def estimatefee(self, blocks=3, priority=''):
            return STATE['fee']

        def blockcount(self):
            return 800000

        def sendrawtransaction(self, raw):
            return {'txid': Transaction.parse_hex(raw).txid, 'response_dict': {}}

    W.Service = FakeService

    # -- estimate_size: every call is logged --------------------------------------------------------
    orig_est = Transaction.estimate_size

    def est(self, number_of_change_outputs=0):
        ins = [(i.witness_type, i.script_type, len(i.keys), i.sigs_required, bool(i.compressed),
                bool(i.unlocking_script and len(i.signatures) >= i.sigs_required)) for i in self.inputs]
        outs = [len(o.lock_script) for o in self.outputs]
        wt = self.witness_type
        r = orig_est(self, number_of_change_outputs)
        STATE['sizes'].append((wt, ins, outs, number_of_change_outputs, self.size, self.vsize, r))
        return r

    Transaction.estimate_size = est

    # -- select_inputs: candidates (the rows of its own query, same order) and the result -----------
    orig_sel = W.Wallet.select_inputs

    def sel(self, amount, variance=None, input_key_id=None, account_id=None, network=None, min_confirms=1, max_utxos=None,
            return_input_obj=True, skip_dust_amounts=True):
        from bitcoinlib.networks import Network
        nw, acc, _ = self._get_account_defaults(network, account_id)
        dust = Network(nw).dust_amount
        q = self.session.query(DbTransactionOutput).join(DbTransaction).join(DbKey). \
            filter(DbTransaction.wallet_id == self.wallet_id, DbTransaction.account_id == acc, DbTransaction.network_name == nw,
                   DbKey.public != b'', DbTransactionOutput.spent.is_(False), DbTransaction.confirmations >= min_confirms)
        if skip_dust_amounts:
            q = q.filter(DbTransactionOutput.value >= dust)
        rows = q.order_by(DbTransaction.confirmations.desc()).all()
        cands = [(u.transaction.txid.hex(), u.output_n, u.value, u.transaction.confirmations) for u in rows]
        res = orig_sel(self, amount, variance, input_key_id, account_id, network, min_confirms, max_utxos, return_input_obj, skip_dust_amounts)
        picked = [((u.transaction.txid.hex(), u.output_n) if not return_input_obj else (u.prev_txid.hex(), u.output_n_int)) for u in res]
        STATE['selects'].append({'cands': cands, 'amount': amount, 'variance': dust if variance is None else variance, 'max': max_utxos, 'picked': picked})
        return res

    W.Wallet.select_inputs = sel

    # -- randomness of transaction_create ------------------------------------------------------------
    class RandomProxy:
        """stands in for the `random` module inside bitcoinlib.wallets: randint draws are recorded"""
        def __getattr__(self, name):
            return getattr(pyrandom, name)

        def randint(self, a, b):
            v = ctx.rng.randint(a, b)
            STATE['randint'].append((a, b, v))
            return v

    W.random = RandomProxy()

    class Parts:
        def __init__(self, p):
            self.p = p
            self.mul = None

        def __getitem__(self, i):
            return self

        def __mul__(self, x):
            self.mul = x
            return self

        def __add__(self, x):
            self.add = x
            return self

        def astype(self, t):
            r = ((np.array(self.p, dtype=float) * self.mul) + self.add).astype(int)
            STATE['parts'] = [int(v) for v in r]
            return r

    class NpRandom:
        def dirichlet(self, alpha, size=None):
            n = len(alpha)
            cuts = sorted(ctx.rng.randrange(0, 1025) for _ in range(n - 1))
            p = [(b - a) / 1024.0 for a, b in zip([0] + cuts, cuts + [1024])]
            STATE['dirichlet'] = p
            return Parts(p)

    class NpProxy:
        random = NpRandom()

        def __getattr__(self, name):
            return getattr(np, name)

    W.np = NpProxy()


def kind_str(w):
    wt = w.witness_type
    if w.multisig:
        return '%s:%d.%d:1' % (wt, len(w.cosigner), w.multisig_n_required)
    return '%s:-:1' % wt


def txwt_of(w):
    return 'legacy' if w.witness_type == 'legacy' else 'segwit'


class Case:
    def __init__(self, ctx, kind, wseed):
        import random
        self.ctx, self.kind, self.wseed = ctx, kind, wseed
        self.rng = random.Random('%s/c07/%s/%s' % (ctx.seed, kind, wseed))
        self.ids = {}

    def oid(self, txid, n):
        k = (txid, n)
        if k not in self.ids:
            self.ids[k] = len(self.ids) + 1
        return self.ids[k]

    def create_wallet(self):
        from bitcoinlib.wallets import Wallet
        from bitcoinlib.keys import HDKey, Key
        rng = self.rng
        self.db = 'sqlite:///' + os.path.join(os.environ['BCL_DATA_DIR'], 'c07_%s_%s_%s.sqlite' % (self.kind.replace('-', '_'), self.ctx.seed, self.wseed))
        seed = bytes(rng.randrange(256) for _ in range(32))
        k = self.kind
        if k.startswith('hd-'):
            wt = k[3:]
            self.w = Wallet.create('w', keys=HDKey.from_seed(seed, witness_type=wt), witness_type=wt, network='bitcoin', db_uri=self.db)
        elif k == 'single':
            self.w = Wallet.create('w', keys=Key(int.from_bytes(seed, 'big') % (2 ** 255) + 1), scheme='single', witness_type='segwit', network='bitcoin', db_uri=self.db)
        else:
            wt = k[3:]
            k1 = HDKey.from_seed(seed, witness_type=wt, multisig=True)
            pubs = [HDKey.from_seed(bytes([j]) + seed[1:], witness_type=wt, multisig=True).public_master_multisig(witness_type=wt) for j in (1, 2)]
            self.w = Wallet.create('w', keys=[k1] + pubs, sigs_required=2, witness_type=wt, network='bitcoin', db_uri=self.db)
        w = self.w
        self.keys = [w.get_key()] if self.kind == 'single' else w.get_keys(number_of_keys=rng.randrange(1, 4))
        self.utxos = {}
        addr_of = {}
        palette = [300, 546, 1000, 1001, 5000, 5000, 20000, 100000, 100000, 10 ** 6, 10 ** 8, 21 * 10 ** 8]
        for j in range(rng.randrange(2, 10)):
            key = rng.choice(self.keys)
            val = rng.choice(palette)
            conf = rng.choice([0, 1, 1, 3, 6, 6, 6])
            txid = '%064x' % rng.getrandbits(250)
            n = rng.choice([0, 1, 2, 3, 6])
            if self.utxos and rng.random() < 0.35:
                # another output of a transaction the wallet already knows (same confirmations)
                (ptx, pn), pv = rng.choice(sorted(self.utxos.items()))
                free = [x for x in range(8) if (ptx, x) not in self.utxos]
                if free:
                    txid, n, conf = ptx, rng.choice(free), pv[1]
            w.utxo_add(key.address, val, txid, n, confirmations=conf)
            self.utxos[(txid, n)] = [val, conf, False]
            addr_of[(txid, n)] = key.address
        # one spent output (for the invalid explicit lists)
        self.spent = None
        if rng.random() < 0.5 and not w.multisig:
            try:
                t = w.send_to(EXT['p2wpkh'][0], 600, fee=1000, broadcast=True, min_confirms=0)
                if t.pushed:
                    for i in t.inputs:
                        self.utxos[(i.prev_txid.hex(), i.output_n_int)][2] = True
                        self.spent = (i.prev_txid.hex(), i.output_n_int)
                    a2k = {kk.address: kk for kk in w.keys()}
                    for o in t.outputs:
                        if o.address in a2k:
                            self.utxos[(t.txid, o.output_n)] = [o.value, 0, False]
            except Exception:
                pass
            # the provider still lists what this wallet has just spent (an unconfirmed spend): a refresh must not make it spendable again
            if self.spent and rng.random() < 0.6:
                for (ptx, pn), pv in sorted(self.utxos.items()):
                    if pv[2] and (ptx, pn) in addr_of:
                        w.utxo_add(addr_of[(ptx, pn)], pv[0], ptx, pn, confirmations=pv[1])
                        ctx_count = getattr(self.ctx, 'count')
                        ctx_count('refresh-lists-spent-outpoint')
        self.net = w.network
        self.netstr = '%d-%d-%d' % (self.net.dust_amount, self.net.fee_min, self.net.fee_max)

    def unspent(self, minc):
        return {k: v for k, v in self.utxos.items() if not v[2] and v[1] >= minc}

    # ---------------------------------------------------------------------------------------------
    def one_request(self):
        from bitcoinlib.wallets import WalletError
        ctx, rng, w = self.ctx, self.rng, self.w
        avail = sum(v[0] for v in self.unspent(0).values())
        nrec = rng.choice([1, 1, 1, 2, 3])
        recs = []
        for _ in range(nrec):
            typ = rng.choice(list(EXT))
            amt = rng.choice([600, 1000, 5000, max(600, avail // 50), max(600, avail // 20), max(600, avail // 20), max(600, avail // 8), max(600, avail // 4), max(600, avail // 2), avail, 10 ** 7])
            recs.append((EXT[typ][0], int(amt), EXT[typ][1]))
        fee = rng.choice([None, None, None, 'low', 'high', 300, 500, 1000, 2000, 2000, 100000])
        STATE['fee'] = rng.choice([500, 1000, 2000, 5000, 5000, 20000, 20000, 50000, 200000, 2 * 10 ** 6])
        nco = rng.choice([1, 1, 1, 2, 3, 0, 0])
        minc = rng.choice([0, 0, 1, 1, 1, 3])
        maxu = rng.choice([None, None, None, 1, 2, 4])
        mode = rng.choice(['auto', 'auto', 'auto', 'given', 'given-invalid'])
        force_spent = False
        if self.spent and not getattr(self, 'spent_named_once', False):
            # once per wallet for certain: an explicit input list that names an output the wallet has spent (listed finding F40)
            self.spent_named_once = True
            mode, force_spent = 'given-invalid', True
        input_arr = None
        given = []
        invalid = None
        if mode != 'auto':
            pool = sorted(self.unspent(minc))
            if not pool:
                mode = 'auto'
            else:
                chosen = rng.sample(pool, rng.randrange(1, min(4, len(pool)) + 1))
                if mode == 'given-invalid':
                    r = rng.random() if not force_spent else 0.5
                    low = sorted(k for k, v in self.utxos.items() if not v[2] and v[1] < minc)
                    if r < 0.34:
                        chosen = chosen + [chosen[0]]
                        invalid = 'duplicate'
                    elif r < 0.67 and self.spent:
                        chosen = chosen + [self.spent]
                        invalid = 'spent'
                    elif low:
                        chosen = chosen + [low[0]]
                        invalid = 'unconfirmed'
                    else:
                        mode = 'given'
                input_arr = [(k[0], k[1]) for k in chosen]
                if invalid is None and rng.random() < 0.4:
                    # the caller also names a key and a VALUE for an outpoint the wallet knows (a stale or mistaken figure): the wallet's
                    # record of that output is what counts
                    kid_of = {(u['txid'], u['output_n']): u['key_id'] for u in w.utxos(min_confirms=0)}
                    input_arr = [((k[0], k[1], kid_of[k], rng.choice([self.utxos[k][0] * 2 + 1, max(1, self.utxos[k][0] // 2), self.utxos[k][0] + 1000]))
                                  if k in kid_of and rng.random() < 0.7 else (k[0], k[1])) for k in chosen]
                    ctx.count('request:given-with-claimed-values')
                given = chosen
                maxu = None
        STATE['sizes'], STATE['selects'], STATE['randint'], STATE['parts'], STATE['dirichlet'] = [], [], [], None, None
        descr = {'recipients': [(a[:12], v) for a, v, _ in recs], 'fee': fee, 'service_fee_per_kb': STATE['fee'], 'number_of_change_outputs': nco,
                 'min_confirms': minc, 'max_utxos': maxu, 'inputs': mode, 'invalid': invalid}
        err = None
        t = None
        # (the recipients as (address, amount) pairs or as Output objects; the order of the outputs random or as given)
        as_objects = rng.random() < 0.3
        keep_order = as_objects or rng.random() < 0.3
        if as_objects:
            from bitcoinlib.transactions import Output as _Output
            ctx.count('request:recipients-as-output-objects')
        try:
            t = w.transaction_create([(_Output(v, a, network='bitcoin') if as_objects else (a, v)) for a, v, _ in recs], input_arr=input_arr, fee=fee,
                                     number_of_change_outputs=nco, min_confirms=minc, max_utxos=maxu, **({'random_output_order': False} if keep_order else {}))
        except WalletError as e:
            err = str(e)
        if t is not None and [o.output_n for o in t.outputs] != list(range(len(t.outputs))):
            ctx.violation('the outputs of a created transaction are not numbered by their position (a wallet stores them under these numbers)',
                          {'op': 'txc output numbers', 'kind': self.kind, 'wseed': self.wseed, 'recipients_as_objects': as_objects, 'random_output_order': not keep_order,
                           'output_numbers': [o.output_n for o in t.outputs]})
        ctx.evals += 1
        ctx.traces += 1
        ctx.count('request:%s:%s' % (mode, 'created' if t is not None else 'refused'))
        self.compare_sizes(descr)
        self.compare_selects(descr)
        # ---- the model on the same request -----------------------------------------------------------------------------
        if mode == 'auto':
            cands = STATE['selects'][0]['cands'] if STATE['selects'] else self.query_cands(minc)
            inp = 'a:%s:%s' % (','.join('%d-%d-%d' % (self.oid(c[0], c[1]), c[2], c[3]) for c in cands) or '-', '-' if maxu is None else maxu)
        else:
            inp = 'g:' + ','.join('%d-%d-%d' % (self.oid(k[0], k[1]), self.utxos[k][0], self.utxos[k][1]) for k in given)
        farg = 'auto' if fee is None else 'named' if isinstance(fee, str) else 'e%d' % fee
        nrand = STATE['randint'][-1][2] if STATE['randint'] else 1
        parts = ','.join(str(p) for p in STATE['parts']) if STATE['parts'] else '-'
        if STATE['parts'] and any(p < 0 for p in STATE['parts']):
            ctx.violation('a negative change amount was computed', {'op': 'create', 'kind': self.kind, 'wseed': self.wseed, 'request': descr})
            return
        line = 'txc_create %s %s %s %s %d %s %s %s %s %d %d %s %d' % (
            self.netstr, ','.join(str(v) for _, v, _ in recs), ','.join(str(l) for _, _, l in recs), farg, STATE['fee'], inp, kind_str(w),
            txwt_of(w), txwt_of(w), nco, nrand, parts, 1 if w.scheme == 'single' else 0)
        model = run_driver([line])[0].split(' | ')[0]
        if model == 'bad-op':
            raise Infra('driver rejected ' + line)
        if t is None:
            name = next((n for s, n in ERRS if s in err), 'other:' + err[:60])
            py = 'err ' + name
        else:
            ids = ','.join(str(self.oid(i.prev_txid.hex(), i.output_n_int)) for i in t.inputs)
            ch = sorted(o.value for o in t.outputs if o.change)
            py = 'ok fee=%d fpk=%d ins=%s change=%s' % (t.fee, t.fee_per_kb, ids, ','.join(map(str, ch)) or '-')
        mcanon = model
        m = re.match(r'ok fee=(-?\d+) fpk=(-?\d+) ins=(\S+) change=(\S+)', model)
        if m:
            chs = sorted(int(x) for x in m.group(4).split(',')) if m.group(4) != '-' else []
            mcanon = 'ok fee=%s fpk=%s ins=%s change=%s' % (m.group(1), m.group(2), m.group(3), ','.join(map(str, chs)) or '-')
        agree = py == mcanon
        if not agree and t is not None and m:
            # the same multiset of (value, confirmations) picked in a different order of equal rows is the same selection
            mv = sorted(self.val_conf_of_id(int(x)) for x in m.group(3).split(','))
            pv = sorted((i.value, self.utxos[(i.prev_txid.hex(), i.output_n_int)][1]) for i in t.inputs)
            if mv == pv and py.split(' ins=')[0] == mcanon.split(' ins=')[0] and py.split(' change=')[1] == mcanon.split(' change=')[1]:
                agree = True
                ctx.count('selection-equal-up-to-ties')
        if invalid == 'duplicate' and t is not None:
            ctx.violation('an explicit input list naming the same output twice was accepted',
                          {'op': 'create', 'kind': self.kind, 'wseed': self.wseed, 'request': descr, 'observed': py})
        elif invalid and t is not None:
            f40 = next((f for f in ctx.known if f['id'] == 'F40'), None)
            rep = {'op': 'create', 'kind': self.kind, 'wseed': self.wseed, 'request': descr, 'observed': py}
            if f40:
                ctx.known_hit('F40', rep)
            else:
                ctx.violation('an explicit input list naming a %s output was accepted' % invalid, rep)
        elif not agree:
            ctx.violation('transaction_create disagrees with the Lean transcription', {'op': 'create', 'kind': self.kind, 'wseed': self.wseed, 'request': descr,
                                                                                   'observed': py, 'model': mcanon, 'line': line})
        if t is not None:
            ctx.nontrivial.add(hash(line))
            self.check_statement(t, recs, minc, mode, invalid, descr)
        else:
            ctx.count('refused:' + py[4:24])
            # insufficient funds must be refused; a refusal with sufficient funds is not a violation of C07
        return t

    def val_conf_of_id(self, i):
        for k, v in self.ids.items():
            if v == i:
                u = self.utxos.get(k)
                return (u[0], u[1]) if u else (None, None)
        return (None, None)

    def query_cands(self, minc):
        return []

    def compare_sizes(self, descr):
        ctx = self.ctx
        lines, exp = [], []
        for wt, ins, outs, nch, size, vsize, r in STATE['sizes']:
            if any(i[5] for i in ins) or len(set(i[:5] for i in ins)) > 1:
                continue
            if ins:
                iw, st, nk, m, comp, _ = ins[0]
                ks = '%s:%s:%d' % (iw, '-' if st == 'sig_pubkey' else '%d.%d' % (nk, m), 1 if comp else 0)
                if st not in ('sig_pubkey', 'p2sh_multisig'):
                    continue
            else:
                ks = 'legacy:-:1'
            lines.append('txc_size %s %s %d %s %d' % (wt, ks, len(ins), ','.join(map(str, outs)) or '-', nch))
            exp.append('%d %d %d' % (size, vsize, r))
        if not lines:
            return
        for l, e, got in zip(lines, exp, run_driver(lines)):
            ctx.evals += 1
            ctx.count('estimate_size')
            if got.split(' | ')[0] != e:
                ctx.violation('estimate_size disagrees with the Lean transcription', {'op': 'size', 'kind': self.kind, 'wseed': self.wseed, 'line': l,
                                                                                  'observed (size vsize returned)': e, 'model': got.split(' | ')[0], 'request': descr})

    def compare_selects(self, descr):
        ctx = self.ctx
        for s in STATE['selects']:
            cs = ','.join('%d-%d-%d' % (self.oid(c[0], c[1]), c[2], c[3]) for c in s['cands']) or '-'
            line = 'txc_select %s %d %d %s' % (cs, s['amount'], s['variance'], '-' if s['max'] is None else s['max'])
            got = run_driver([line])[0].split(' | ')[0]
            picked = ','.join(str(self.oid(a, b)) for a, b in s['picked']) or 'none'
            tot = sum(c[2] for c in s['cands'] if (c[0], c[1]) in s['picked'])
            ctx.evals += 1
            ctx.count('select_inputs:' + ('none' if picked == 'none' else '%d' % len(s['picked'])))
            if got != '%s sum=%d' % (picked, tot):
                # equal rows may come back from the database in either order
                vm = sorted((c[2], c[3]) for c in s['cands'] if str(self.oid(c[0], c[1])) in got.split(' ')[0].split(','))
                vp = sorted((c[2], c[3]) for c in s['cands'] if (c[0], c[1]) in s['picked'])
                if vm == vp:
                    ctx.count('selection-equal-up-to-ties')
                    continue
                ctx.violation('select_inputs disagrees with the Lean transcription', {'op': 'select', 'kind': self.kind, 'wseed': self.wseed, 'line': line,
                                                                                  'observed': '%s sum=%d' % (picked, tot), 'model': got, 'request': descr})

    def check_statement(self, t, recs, minc, mode, invalid, descr):
        """the sentences of C07 on the created transaction"""
        ctx, w = self.ctx, self.w
        rep = {'op': 'create', 'kind': self.kind, 'wseed': self.wseed, 'request': descr}
        bad = []
        tin = sum(i.value for i in t.inputs)
        tout = sum(o.value for o in t.outputs)
        if tin != tout + t.fee:
            bad.append('inputs %d != outputs %d + fee %d' % (tin, tout, t.fee))
        if t.fee < 0:
            bad.append('negative fee %d' % t.fee)
        if not (self.net.fee_min <= t.fee_per_kb <= self.net.fee_max):
            bad.append('reported fee_per_kb %d outside [%d, %d]' % (t.fee_per_kb, self.net.fee_min, self.net.fee_max))
        if any((not isinstance(o.value, int)) or o.value < 0 for o in t.outputs):
            bad.append('negative or non-integer output')
        outs = [(o.address, o.value, o.lock_script.hex()) for o in t.outputs]
        rem = list(outs)
        from bitcoinlib.keys import Address
        from bitcoinlib.scripts import Script
        for a, v, _ in recs:
            hit = [x for x in rem if x[0] == a and x[1] == v]
            if not hit:
                bad.append('recipient %s %d missing' % (a[:10], v))
            else:
                rem.remove(hit[0])
        change_addrs = {k.address for k in w.keys(change=1)} if w.scheme != 'single' else {k.address for k in w.keys()}
        for a, v, s in rem:
            if a not in change_addrs:
                bad.append('extra output %s %d does not pay a change key of the wallet' % (a[:10], v))
        seen = set()
        for i in t.inputs:
            k = (i.prev_txid.hex(), i.output_n_int)
            if invalid:
                continue
            if k in seen:
                bad.append('duplicate input')
            seen.add(k)
            u = self.utxos.get(k)
            if u is None or u[2]:
                bad.append('input is not an unspent output of the wallet')
            else:
                if u[0] != i.value:
                    bad.append('input value differs from the unspent output')
                if u[1] < minc:
                    bad.append('input has %d confirmations, %d required' % (u[1], minc))
        # independent parse of the raw bytes (Lean parser)
        if not w.multisig and not invalid:
            t.sign()
            if not t.verify():
                bad.append('created transaction does not verify after signing')
        raw = t.raw_hex()
        if not w.multisig and not invalid:
            # the rate the signed bytes really pay (virtual size from the serialisation itself): the estimate the limits were applied to
            # may be off by a few bytes per input (signature lengths), not by a multiple
            total = len(raw) // 2
            try:
                base = len(t.raw(witness_type='legacy')) if t.witness_type == 'segwit' else total
            except Exception:
                base = total
            vreal = (3 * base + total + 3) // 4
            real_rate = t.fee * 1000.0 / vreal
            if real_rate < 0.9 * self.net.fee_min or real_rate > 1.1 * self.net.fee_max:
                bad.append('the signed transaction pays %.0f per kB (fee %d on %d virtual bytes), outside [%d, %d]' % (real_rate, t.fee, vreal, self.net.fee_min, self.net.fee_max))
            elif real_rate < self.net.fee_min:
                ctx.count('real-rate-within-10%-below-minimum (size estimate)')
        p = run_driver(['tx_parse ' + raw])[0].split(' | ')[0]
        mo = re.search(r' out=\[([^\]]*)\]', p)
        mi = re.search(r' in=\[([^\]]*)\]', p)
        if not mo or not mi:
            bad.append('raw transaction does not parse')
        else:
            pouts = sorted((int(x.split(':')[0]), x.split(':')[1]) for x in mo.group(1).split(';') if x)
            if pouts != sorted((v, s) for _, v, s in outs):
                bad.append('outputs in the raw bytes differ from the reported outputs')
            pins = sorted((x.split(':')[0], int(x.split(':')[1])) for x in mi.group(1).split(';') if x)
            mine = sorted((i.prev_txid.hex(), i.output_n_int) for i in t.inputs)
            mine_rev = sorted((i.prev_txid[::-1].hex(), i.output_n_int) for i in t.inputs)
            if pins != mine and pins != mine_rev:
                bad.append('inputs in the raw bytes differ from the reported inputs')
        ctx.evals += 1
        for b in bad:
            if invalid:
                continue
            ctx.violation('created transaction violates C07: ' + b, dict(rep, observed={'fee': t.fee, 'fee_per_kb': t.fee_per_kb, 'inputs': [i.value for i in t.inputs],
                                                                                         'outputs': [(a[:10], v) for a, v, _ in outs]}))

    def broadcast_some(self):
        """a spend of several outputs is really broadcast (fake network): what it consumed is gone for every later request"""
        from bitcoinlib.wallets import WalletError
        w, rng = self.w, self.rng
        if w.multisig:
            return
        pool = sorted(self.unspent(1))
        # prefer outputs that share their transaction id
        by_tx = {}
        for k in pool:
            by_tx.setdefault(k[0], []).append(k)
        multi = [v for v in by_tx.values() if len(v) >= 2]
        chosen = rng.choice(multi) if multi else pool[:2]
        if len(chosen) < 1:
            return
        total = sum(self.utxos[k][0] for k in chosen)
        if total < 5000:
            return
        try:
            t = w.send([(EXT['p2wpkh'][0], total - 1500)], input_arr=[(k[0], k[1]) for k in chosen], fee=1500, broadcast=True)
        except WalletError:
            return
        if t is not None and t.pushed:
            self.ctx.count('broadcast-spend:%d-inputs%s' % (len(chosen), ':same-txid' if multi else ''))
            for i in t.inputs:
                k = (i.prev_txid.hex(), i.output_n_int)
                if k in self.utxos:
                    self.utxos[k][2] = True
            still = [(u['txid'][:8], u['output_n']) for u in w.utxos() if (u['txid'], u['output_n']) in [(i.prev_txid.hex(), i.output_n_int) for i in t.inputs]]
            if still:
                self.ctx.violation('outputs consumed by a broadcast transaction are still offered as unspent',
                                   {'op': 'broadcast', 'kind': self.kind, 'wseed': self.wseed, 'still_listed': still})

    def insufficient_check(self):
        """funds insufficient -> no transaction"""
        from bitcoinlib.wallets import WalletError
        ctx, w = self.ctx, self.w
        avail = sum(v[0] for v in self.unspent(0).values())
        for extra, fee in ((1, 1000), (0, 1000), (100000, None), (0, 'low')):
            STATE['sizes'], STATE['selects'], STATE['randint'], STATE['parts'] = [], [], [], None
            try:
                t = w.transaction_create([(EXT['p2wpkh'][0], avail + extra)], fee=fee, min_confirms=0)
            except WalletError:
                ctx.count('insufficient:refused')
                ctx.evals += 1
                continue
            ctx.evals += 1
            if sum(i.value for i in t.inputs) < avail + extra + (fee if isinstance(fee, int) else 0) or t.fee < (fee if isinstance(fee, int) else 1):
                ctx.violation('a transaction was created although the wallet cannot pay amount + fee',
                              {'op': 'insufficient', 'kind': self.kind, 'wseed': self.wseed, 'available': avail, 'amount': avail + extra, 'fee': fee,
                               'observed': {'fee': t.fee, 'inputs': [i.value for i in t.inputs], 'outputs': [o.value for o in t.outputs]}})

    def sweep_and_send(self):
        """sweep and bumpfee: model comparison + the statement on the objects"""
        from bitcoinlib.wallets import WalletError
        from bitcoinlib.transactions import TransactionError
        ctx, rng, w = self.ctx, self.rng, self.w
        STATE['fee'] = rng.choice([1000, 5000, 20000])
        minc = rng.choice([0, 1])
        fee = rng.choice([None, 1500, 'low', 0])
        multi = rng.random() < 0.5
        # several targets: fixed amounts and "the rest" (amount 0) in every position; two rest targets cannot both be served
        shape = rng.choice(['700,0', '0,700', '700,800,0', '0,0', '700,0,0']) if multi else '-'
        addrs_ = [EXT['p2pkh'][0], EXT['p2wsh'][0], EXT['p2wpkh'][0]]
        to = [(addrs_[j_], int(a_)) for j_, a_ in enumerate(shape.split(','))] if multi else EXT['p2wpkh'][0]
        maxu = rng.choice([999, 999, 2])
        rows = w.utxos(min_confirms=minc)[0:maxu]
        rep = {'op': 'sweep', 'kind': self.kind, 'wseed': self.wseed, 'min_confirms': minc, 'fee': fee, 'max_utxos': maxu, 'multi': multi}
        t = None
        try:
            t = w.sweep(to, min_confirms=minc, fee=fee, max_utxos=maxu, broadcast=False)
        except WalletError as e:
            rep['error'] = str(e)[:80]
        line = 'txc_sweep %s %d %s %d %d %d %s' % (','.join(str(u['value']) for u in rows) or '-', self.net.dust_amount,
                                                     fee if isinstance(fee, int) else '-', STATE['fee'], 1 if w.witness_type == 'legacy' else 0,
                                                     w.multisig_n_required, shape)
        model = run_driver([line])[0].split(' | ')[0]
        ctx.evals += 1
        ctx.count('sweep:' + ('created' if t is not None else 'refused'))
        if t is not None:
            req = [o.value for o in t.outputs]
            m = re.match(r'ok fee=(\d+) amounts=(\S+)', model)
            ok = bool(m) and int(m.group(1)) == t.fee and sorted(int(x) for x in m.group(2).split(',')) == sorted(req)
            if not ok:
                ctx.violation('sweep disagrees with the Lean transcription', dict(rep, line=line, model=model, observed={'fee': t.fee, 'outputs': req}))
            tin = sum(i.value for i in t.inputs)
            if tin != sum(req) + t.fee or t.fee < 0:
                ctx.violation('sweep transaction does not balance', dict(rep, observed=(tin, sum(req), t.fee)))
            want = sorted((u['txid'], u['output_n']) for u in rows if u['value'] > self.net.dust_amount)
            got = sorted((i.prev_txid.hex(), i.output_n_int) for i in t.inputs)
            if got != want:
                ctx.violation('sweep does not consume exactly the listed unspent outputs above the dust limit', dict(rep, observed=len(got), expected=len(want)))
            if multi:
                paid = {}
                for o in t.outputs:
                    paid[o.address] = paid.get(o.address, 0) + o.value
                for a_, v_ in to:
                    if (v_ and paid.get(a_) != v_) or (not v_ and a_ not in paid and sum(req) + t.fee != sum(x[1] for x in to)):
                        ctx.violation('a requested recipient of a sweep is missing or gets another amount', dict(rep, targets=shape, observed=sorted(paid.values())))
                        break
            if any(o.address not in (EXT['p2wpkh'][0], EXT['p2pkh'][0], EXT['p2wsh'][0]) for o in t.outputs):
                ctx.violation('sweep pays an address that was not requested', rep)
        elif model != 'refused' and 'error' in rep and ('dust' in rep['error'] or "no UTXO" in rep['error'] or 'does not match' in rep['error']):
            ctx.violation('sweep refused where the Lean transcription produces a transaction', dict(rep, line=line, model=model))
        # ---- replace-by-fee: bump the fee of a created transaction -------------------------------------------------------
        if w.multisig:
            return
        avail = sum(v[0] for v in self.unspent(1).values())
        if avail < 20000:
            return
        STATE['fee'] = 5000
        STATE['sizes'], STATE['selects'], STATE['randint'], STATE['parts'] = [], [], [], None
        try:
            t = w.transaction_create([(EXT['p2wpkh'][0], max(600, avail // 10)), (EXT['p2pkh'][0], 800)], fee=1000,
                                     number_of_change_outputs=rng.choice([1, 2, 3]), replace_by_fee=True, random_output_order=rng.random() < 0.5)
        except WalletError:
            return
        t.sign()
        outs0 = [(o.value, bool(o.change), o.address) for o in t.outputs]
        old_fee, vs = t.fee, t.vsize
        mode = rng.choice(['fee', 'fee', 'extra', 'extra', 'extra', 'small'])
        ch_total = sum(v for v, c, _ in outs0 if c)
        x = max(vs, rng.choice([vs, vs + 1, vs + 50, 500, 1000, 2000, 2000, ch_total // 5, ch_total // 3, ch_total // 2, ch_total, ch_total + 5, int(ch_total * rng.uniform(0.3, 0.99)), int(ch_total * rng.uniform(0.5, 0.99))])) if mode != 'small' else max(1, vs - 1)
        chs = [v for v, c, _ in outs0 if c]
        if len(chs) >= 2 and chs[1] < 2 * chs[0] and max(chs[0], chs[1]) + 2 < chs[0] + chs[1] // 2 and rng.random() < 0.7:
            # the first change output is used up and the second one pays the rest: an extra fee above either of them, below their sum
            x = max(vs, (max(chs[0], chs[1]) + chs[0] + chs[1] // 2) // 2)
            ctx.count('bumpfee:second-change-output-pays-the-rest')
        kw = {'fee': old_fee + x} if mode == 'fee' else {'extra_fee': x}
        rep = {'op': 'bumpfee', 'kind': self.kind, 'wseed': self.wseed, 'old_fee': old_fee, 'vsize': vs, 'args': kw, 'outputs_before': [(v, c) for v, c, _ in outs0]}
        from bitcoinlib.transactions import Transaction
        err = None
        try:
            Transaction.bumpfee(t, **kw)
        except TransactionError as e:
            err = str(e)
        except Exception as e:
            ctx.violation('bumpfee raised something else than a refusal (and left the transaction object changed)',
                          dict(rep, error=repr(e)[:120], outputs_after=[(o.value, bool(o.change)) for o in t.outputs]))
            return
        line = 'txc_bump %d %d %d %d %s' % (old_fee, vs, kw.get('fee', 0), kw.get('extra_fee', 0), ','.join('%d:%s' % (v, 'c' if c else 'r') for v, c, _ in outs0))
        model = run_driver([line])[0].split(' | ')[0]
        ctx.evals += 1
        ctx.count('bumpfee:' + ('refused' if err else 'done'))
        if err:
            if model != 'refused':
                ctx.violation('bumpfee refused where the Lean transcription does not', dict(rep, line=line, model=model, error=err))
            return
        outs1 = [(o.value, bool(o.change), o.address) for o in t.outputs]
        py = 'ok ' + ','.join('%d:%s' % (v, 'c' if c else 'r') for v, c, _ in outs1)
        if py != model:
            ctx.violation('bumpfee disagrees with the Lean transcription', dict(rep, line=line, model=model, observed=py))
        tin = sum(i.value for i in t.inputs)
        tout = sum(v for v, _, _ in outs1)
        if tin != tout + t.fee or t.fee < old_fee + x:
            ctx.violation('after bumpfee the transaction does not balance with a fee of at least the old fee plus the extra fee',
                          dict(rep, observed={'inputs': tin, 'outputs': tout, 'fee': t.fee}))
        if [(v, a) for v, c, a in outs1 if not c] != [(v, a) for v, c, a in outs0 if not c]:
            ctx.violation('bumpfee changed a recipient output', dict(rep, observed=[(v, c) for v, c, _ in outs1]))
        if not t.verify():
            ctx.violation('transaction does not verify after bumpfee', rep)
        if [o.output_n for o in t.outputs] != list(range(len(t.outputs))):
            ctx.violation('after bumpfee the outputs are not numbered by their position in the transaction (a wallet stores them under these numbers)',
                          dict(rep, output_numbers=[o.output_n for o in t.outputs]))


def wallet_bump(case):
    """WalletTransaction.bumpfee on a created, signed, not yet broadcast transaction whose change cannot pay the extra fee:
    an input is added from the wallet (model: walletBump)"""
    from bitcoinlib.wallets import WalletError
    from bitcoinlib.transactions import TransactionError
    ctx, rng, w = case.ctx, case.rng, case.w
    if w.multisig:
        return
    pool = sorted(case.unspent(1).items(), key=lambda kv: -kv[1][1])
    if len(pool) < 2:
        return
    STATE['fee'] = 5000
    STATE['sizes'], STATE['selects'], STATE['randint'], STATE['parts'] = [], [], [], None
    # spend one chosen output almost completely: the change is small
    (k0, v0) = pool[0] if rng.random() < 0.6 else rng.choice(pool)     # pool is sorted by confirmations: the first row is what utxos() lists first
    if v0[0] < 20000:
        return
    change = rng.choice([0, 1500, 3000])
    try:
        t = w.transaction_create([(EXT['p2wpkh'][0], v0[0] - 1000 - change)], input_arr=[(k0[0], k0[1])], fee=1000, replace_by_fee=True, random_output_order=False)
        t.sign()
    except WalletError:
        return
    outs0 = [(o.value, bool(o.change), o.address) for o in t.outputs]
    ins0 = [(i.prev_txid.hex(), i.output_n_int) for i in t.inputs]
    old_fee, vs = t.fee, t.vsize
    extra = max(vs, rng.choice([vs, 2000, 5000, 20000]))
    rows = w.utxos(min_confirms=1)
    rep = {'op': 'wallet-bumpfee', 'kind': case.kind, 'wseed': case.wseed, 'old_fee': old_fee, 'vsize': vs, 'extra_fee': extra,
           'outputs_before': [(v, c) for v, c, _ in outs0], 'inputs_before': [case.utxos[k][0] for k in ins0]}
    err = None
    try:
        t.bumpfee(extra_fee=extra)
    except (TransactionError, WalletError) as e:
        err = str(e)
    line = 'txc_wbump %d %d %d %s %s %s' % (old_fee, vs, extra, ','.join(str(case.oid(*k)) for k in ins0),
                                            ','.join('%d:%s' % (v, 'c' if c else 'r') for v, c, _ in outs0),
                                            ','.join('%d-%d-%d' % (case.oid(u['txid'], u['output_n']), u['value'], u['confirmations']) for u in rows) or '-')
    model = run_driver([line])[0].split(' | ')[0]
    ctx.evals += 1
    ctx.count('wallet-bumpfee:' + ('refused' if err else ('extra-input' if len(t.inputs) > len(ins0) else 'from-change')))
    if err:
        if model.startswith('ok'):
            ctx.violation('WalletTransaction.bumpfee refused where the Lean transcription does not', dict(rep, line=line, model=model, error=err[:100]))
        return
    ins1 = [(i.prev_txid.hex(), i.output_n_int) for i in t.inputs]
    outs1 = [(o.value, bool(o.change), o.address) for o in t.outputs]
    py = 'ok ins=%s outs=%s' % (','.join(str(case.oid(*k)) for k in ins1), ','.join('%d:%s' % (v, 'c' if c else 'r') for v, c, _ in outs1))
    if py != model:
        # the added input may be another row with the same (confirmations, value)
        m = re.match(r'ok ins=(\S+) outs=(\S+)', model)
        same = False
        if m and m.group(2) == py.split(' outs=')[1]:
            mv = sorted(case.val_conf_of_id(int(x)) for x in m.group(1).split(','))
            pv = sorted((case.utxos[k][0], case.utxos[k][1]) for k in ins1)
            same = mv == pv
        if not same:
            ctx.violation('WalletTransaction.bumpfee disagrees with the Lean transcription', dict(rep, line=line, model=model, observed=py))
    bad = []
    if len(set(ins1)) != len(ins1):
        bad.append('an input is used twice')
    for k in ins1:
        u = case.utxos.get(k)
        if u is None or u[2]:
            bad.append('an input is not an unspent output of the wallet')
    tin = sum(case.utxos[k][0] for k in set(ins1) if k in case.utxos)
    tout = sum(v for v, _, _ in outs1)
    if tin != tout + t.fee:
        bad.append('distinct inputs %d != outputs %d + reported fee %d' % (tin, tout, t.fee))
    if t.fee < old_fee + extra:
        bad.append('fee %d below old fee + extra fee %d' % (t.fee, old_fee + extra))
    if [(v, a) for v, c, a in outs1 if not c] != [(v, a) for v, c, a in outs0 if not c]:
        bad.append('a recipient output changed')
    raw = t.raw_hex()
    p = run_driver(['tx_parse ' + raw])[0].split(' | ')[0]
    mi = re.search(r' in=\[([^\]]*)\]', p)
    if mi:
        pins = [(x.split(':')[0], int(x.split(':')[1])) for x in mi.group(1).split(';') if x]
        if len(set(pins)) != len(pins):
            bad.append('the raw transaction spends an outpoint twice')
    for b in bad:
        ctx.violation('after WalletTransaction.bumpfee the transaction violates C07: ' + b, dict(rep, observed={'fee': t.fee, 'inputs': ins1 and [case.utxos.get(k, [None])[0] for k in ins1], 'outputs': [(v, c) for v, c, _ in outs1]}))


def run(ctx):
    install(ctx)
    kinds = ['hd-segwit', 'hd-legacy', 'hd-p2sh-segwit', 'single', 'ms-segwit', 'ms-legacy']
    per_kind = 2 if not ctx.thorough else 10
    nreq = 10 if not ctx.thorough else 25
    if ctx.thorough:
        kinds.append('ms-p2sh-segwit')
    todo = [(k, s) for k in kinds for s in range(per_kind)]
    rp = getattr(ctx, 'replay_obj', None)
    if rp:
        todo = [(rp['replay']['kind'], rp['replay']['wseed'])]
    for kind, wseed in todo:
        c = Case(ctx, kind, wseed)
        c.create_wallet()
        for j in range(nreq):
            c.one_request()
            if j == nreq // 2:
                c.broadcast_some()
        c.insufficient_check()
        c.sweep_and_send()
        for _ in range(4):
            wallet_bump(c)
    ctx.assumptions += ['the service layer is an in-process fake (fee estimates are scripted); random.randint and numpy.random.dirichlet are replaced by '
                        'recorded draws inside bitcoinlib.wallets for the duration of the check',
                        'rows with equal (confirmations, value) may be returned by the database in either order: selections that differ only in such ties count as equal']


def replay(ctx, obj):
    ctx.replay_obj = obj
    ctx.seed = obj.get('seed', ctx.seed)
    run(ctx)
    print('still failing' if ctx.violations else 'no longer failing')
    return 1 if ctx.violations else 0
