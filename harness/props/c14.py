"""C14 — mnemonic sentences follow BIP39 in every language and round-trip."""
import os, unicodedata, hashlib
from harness.core import hexp, run_driver, VERIF, REPO

N = 0xFFFFFFFFFFFFFFFFFFFFFFFFFFFFFFFEBAAEDCE6AF48A03BBFD25E8CD0364141


def run(ctx):
    from bitcoinlib.mnemonic import Mnemonic
    rng = ctx.rng
    T = ctx.thorough
    ctx.rule = ('entropies of 16/20/24/28/32 bytes: all-zero, all-ones, every leading-zero count, single bits, random; all nine word lists; '
                'ASCII and unicode (NFKD-sensitive) passphrases; sampled single-word substitutions of valid sentences (thorough: all 2047 per '
                'position for one sentence per language); word lists compared entry by entry with the frozen reference copy. '
                'non-trivial = distinct (language, entropy / sentence / passphrase)')
    refdir = os.path.join(VERIF, 'harness', 'ref', 'wordlist')
    langs = sorted(f[:-4] for f in os.listdir(refdir) if f.endswith('.txt'))
    ref = {}
    # ---- word lists: exhaustive comparison with the reference copy; 2048 distinct NFKD-stable entries ----------------
    for lang in langs:
        words = [w.strip() for w in open(os.path.join(refdir, lang + '.txt'), encoding='utf-8')]
        ref[lang] = words
        cur = Mnemonic(lang).wordlist()
        ctx.evals += 1
        if cur != words:
            diff = [(i, a, b) for i, (a, b) in enumerate(zip(cur, words)) if a != b][:3]
            ctx.violation('word list differs from the BIP39 reference copy', {'op': 'wordlist ' + lang, 'first_differences': diff,
                                                                             'lengths': (len(cur), len(words))})
        if len(words) != 2048 or len(set(words)) != 2048:
            ctx.violation('reference word list is not 2048 distinct words', {'op': 'wordlist ' + lang})
        ctx.count('wordlist-entries-compared', len(words))
    shipped = sorted(f[:-4] for f in os.listdir(os.path.join(REPO, 'bitcoinlib', 'wordlist')) if f.endswith('.txt'))
    if shipped != langs:
        ctx.violation('set of bundled word lists changed', {'op': 'wordlists', 'shipped': shipped, 'reference': langs})

    def ents():
        out = []
        for n in (16, 20, 24, 28, 32):
            out += [b'\0' * n, b'\xff' * n, b'\0' * (n - 1) + b'\1', b'\x80' + b'\0' * (n - 1)]
            for z in (range(1, n) if T else rng.sample(range(1, n), 3)):
                out.append(b'\0' * z + bytes(rng.randrange(1, 256) for _ in range(n - z)))
            out += [bytes(rng.randrange(256) for _ in range(n)) for _ in range(20 if T else 4)]
        return out

    idx_cases, ent_cases, seed_cases = [], [], []
    sentences = {}
    for lang in langs:
        m = Mnemonic(lang)
        index = {w: i for i, w in enumerate(ref[lang])}
        for e in ents():
            ctx.nontrivial.add(hash((lang, e)))
            try:
                words = m.to_mnemonic(e, check_on_curve=False)
                idx = ','.join(str(index[unicodedata.normalize('NFKD', w)] if unicodedata.normalize('NFKD', w) in index else index.get(w, -1))
                               for w in words.split(' '))
            except Exception as ex:
                words, idx = None, 'none'
            if words is not None and '-1' in idx.split(','):
                # a word that is not in the list of the object's language: no model line can describe it
                ctx.violation('to_mnemonic returned a word that is not in the word list of its language', {'op': 'bip39_idx ' + e.hex(), 'language': lang, 'sentence': words})
                continue
            idx_cases.append(('bip39_idx %s' % e.hex(), idx, True))
            if words is None:
                continue
            sentences.setdefault(lang, []).append((words, e))
            # default mode refuses entropy outside (0, n): a documented guard, reported
            v = int.from_bytes(e, 'big')
            try:
                m.to_mnemonic(e)
                refused = False
            except ValueError:
                refused = True
            if refused != (not 0 < v < N):
                ctx.violation('check_on_curve guard differs from 0 < entropy < n', {'op': 'to_mnemonic ' + e.hex(), 'refused': refused})
            elif refused:
                ctx.count('default-mode-refuses-entropy-outside-(0,n)')
            try:
                back = m.to_entropy(words)
                py = hexp(back)
            except Exception:
                py = 'none'
            ent_cases.append(('bip39_ent %s' % idx, py, True))
    # language detection and sanitising: the language whose list holds the most words of the sentence (when there is exactly one such
    # language) and the NFKD-normalised sentence
    sets = {lg: set(ref[lg]) for lg in langs}
    for lang in langs:
        for words, e in rng.sample(sentences.get(lang, []), min(len(sentences.get(lang, [])), 6 if T else 3)):
            nw = unicodedata.normalize('NFKD', words).split(' ')
            counts = {lg: sum(1 for w_ in nw if w_ in sets[lg]) for lg in langs}
            best = max(counts.values())
            winners = [lg for lg in langs if counts[lg] == best]
            ctx.evals += 1
            ctx.count('detect_language' + ('' if len(winners) == 1 else ':ambiguous-sentence'))
            try:
                det = Mnemonic.detect_language(words)
                san = Mnemonic(lang).sanitize_mnemonic(words)
            except BaseException as ex:
                det, san = 'raise:' + type(ex).__name__, None
            if (len(winners) == 1 and det != lang) or det not in winners:
                ctx.violation('the language of a generated sentence is not detected', {'op': 'detect ' + lang, 'sentence': words, 'observed': det, 'expected': winners})
            elif san != ' '.join(nw):
                ctx.violation('sanitize_mnemonic does not return the NFKD-normalised sentence', {'op': 'sanitize ' + lang, 'sentence': words, 'observed': san})
    ctx.compare(idx_cases, 'to_mnemonic')
    ctx.compare(ent_cases, 'to_entropy')

    # ---- seeds: PBKDF2 over the NFKD-normalised sentence and passphrase ---------------------------------------------------
    passes = ['', 'TREZOR', 'correct horse', 'pässwörd', 'pässwörd', 'パスワード', 'ﬁ Ω Å', 'é́x']
    # passphrases that are text which LOOKS like hexadecimal digits, or is blank: still text (UTF-8 of the characters)
    hexlike = ['1234', 'cafe', 'DEAD BEEF', '00', ' ', '  ', 'abcdef0123456789', ('%02x' % rng.randrange(256)) * rng.randint(1, 16)]
    for lang in langs:
        m = Mnemonic(lang)
        for words, e in rng.sample(sentences[lang], 6 if T else 2):
            for pw in (passes + hexlike if T else rng.sample(passes, 3) + ['pässwörd'] + rng.sample(hexlike, 2)):
                try:
                    py = m.to_seed(words, pw).hex()
                except Exception:
                    py = 'none'
                s_n = unicodedata.normalize('NFKD', words).encode('utf8')
                p_n = unicodedata.normalize('NFKD', pw).encode('utf8')
                seed_cases.append(('bip39_seed %s %s' % (s_n.hex(), hexp(p_n)), py, True))
    # Japanese sentences written with IDEOGRAPHIC SPACE (as in the BIP39 vectors) are the same sentences
    if 'japanese' in sentences:
        mj = Mnemonic('japanese')
        for words, e in rng.sample(sentences['japanese'], 4 if T else 2):
            wide = words.replace(' ', '\u3000')
            for pw in ('', '㍍ガバヴァぱばぐゞちぢ十人十色'):
                try:
                    py = mj.to_seed(wide, pw).hex()
                except Exception:
                    py = 'none'
                s_n = unicodedata.normalize('NFKD', words).encode('utf8')
                p_n = unicodedata.normalize('NFKD', pw).encode('utf8')
                seed_cases.append(('bip39_seed %s %s' % (s_n.hex(), hexp(p_n)), py, True))
            try:
                back = hexp(mj.to_entropy(wide))
            except Exception:
                back = 'none'
            if back != e.hex():
                ctx.violation('a Japanese sentence written with ideographic spaces does not give its entropy',
                              {'op': 'to_entropy ideographic-space', 'observed': back, 'expected': e.hex()})
    ctx.compare(seed_cases, 'to_seed')

    # ---- sentence + passphrase -> master key (HDKey.from_passphrase): the BIP32 master of the BIP39 seed --------------------------
    from bitcoinlib.keys import HDKey
    mk_cases = []
    for lang in ('english',):          # HDKey.from_passphrase reads the sentence with the default (English) word list
        for words, e in rng.sample(sentences[lang], 8 if T else 4):
            pw = rng.choice(passes + hexlike)
            s_n = unicodedata.normalize('NFKD', words).encode('utf8')
            p_n = unicodedata.normalize('NFKD', pw).encode('utf8')
            seedhex = run_driver(['bip39_seed %s %s' % (s_n.hex(), hexp(p_n))])[0].split(' | ')[0].strip()
            try:
                hk = HDKey.from_passphrase(words, password=pw, network='bitcoin')
                py = 'priv depth=%d fp=%s child=%d chain=%s key=%s pub=%s' % (hk.depth, hk.parent_fingerprint.hex(), hk.child_index, hk.chain.hex(),
                                                                              hk.private_hex, hk.public_hex)
            except Exception as ex:
                py = 'none'
            ctx.count('from_passphrase:' + lang)
            mk_cases.append(('bip32 %s m' % seedhex, py, True))
    ctx.compare(mk_cases, 'from_passphrase')

    # ---- invalid sentences: wrong checksum / unknown word -------------------------------------------------------------------
    inv = []
    for lang in (langs if T else rng.sample(langs, 3) + ['english']):
        m = Mnemonic(lang)
        index = {w: i for i, w in enumerate(ref[lang])}
        words, e = rng.choice(sentences[lang])
        ws = words.split(' ')
        positions = range(len(ws)) if T else rng.sample(range(len(ws)), 2)
        for pos in positions:
            cands = range(2048) if (T and lang in ('english', 'spanish')) else rng.sample(range(2048), 40)
            for c in cands:
                w2 = list(ws)
                w2[pos] = ref[lang][c]
                if w2 == ws:
                    continue
                s2 = ' '.join(w2)
                try:
                    py = hexp(m.to_entropy(s2))
                except Exception:
                    py = 'none'
                idx = ','.join(str(index[unicodedata.normalize('NFKD', w)] if unicodedata.normalize('NFKD', w) in index else index[w]) for w in w2)
                inv.append(('bip39_ent %s' % idx, py, True))
        # unknown word / wrong length
        for bad in (ws[:-1], ws + [ws[0]], ws[:3] + ['zzzzzz'] + ws[4:], ws[:5]):
            try:
                m.to_entropy(' '.join(bad))
                ctx.violation('a sentence with an unknown word or an invalid length is accepted', {'op': 'to_entropy', 'sentence': ' '.join(bad)})
            except Exception:
                ctx.count('malformed-sentence-rejected')
            ctx.evals += 1
    ctx.compare(inv, 'substitution')
    ctx.exhaustive = False
    ctx.assumptions += ['Unicode NFKD is Python\'s unicodedata in both the library and the harness (the model receives normalised bytes)',
                        'word lists enter the theorems as hypotheses (2048 distinct words); they are compared exhaustively with the frozen reference copy on every run',
                        'PBKDF2-HMAC-SHA512 in the driver is reference code (agreement with hashlib on every case)']


def replay(ctx, obj):
    op = obj['replay']['op']
    print('model:', run_driver([op])[0] if op.startswith('bip39_') else '-')
    run(ctx)
    bad = [v for v in ctx.violations if v['replay'].get('op') == op]
    print('still failing' if bad else 'no longer failing')
    return 1 if bad else 0
