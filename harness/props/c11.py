"""C11 — checksummed text encodings: canonical, corruption rejected."""
import hashlib
from harness.core import Infra, hexp

B58 = '123456789ABCDEFGHJKLMNPQRSTUVWXYZabcdefghijkmnopqrstuvwxyz'
B32 = 'qpzry9x8gf2tvdw0s3jn54khce6mua7l'
PRINTABLE = ''.join(chr(c) for c in range(33, 127))


def sha256d(b):
    return hashlib.sha256(hashlib.sha256(b).digest()).digest()


def b58enc_ref(b):
    n = int.from_bytes(b, 'big')
    s = ''
    while n:
        n, r = divmod(n, 58)
        s = B58[r] + s
    return '1' * (len(b) - len(b.lstrip(b'\0'))) + s


def bech32_polymod(values):
    gen = [0x3b6a57b2, 0x26508e6d, 0x1ea119fa, 0x3d4233dd, 0x2a1462b3]
    chk = 1
    for v in values:
        b = chk >> 25
        chk = (chk & 0x1ffffff) << 5 ^ v
        for i in range(5):
            chk ^= gen[i] if ((b >> i) & 1) else 0
    return chk


def segwit_enc_ref(hrp, witver, prog):
    """independent BIP173/BIP350 reference encoder (harness-side, used to build valid strings)"""
    acc = bits = 0
    data = [witver]
    for b in prog:
        acc = (acc << 8) | b
        bits += 8
        while bits >= 5:
            bits -= 5
            data.append((acc >> bits) & 31)
    if bits:
        data.append((acc << (5 - bits)) & 31)
    const = 1 if witver == 0 else 0x2bc830a3
    exp = [ord(x) >> 5 for x in hrp] + [0] + [ord(x) & 31 for x in hrp]
    pm = bech32_polymod(exp + data + [0] * 6) ^ const
    chk = [(pm >> 5 * (5 - i)) & 31 for i in range(6)]
    return hrp + '1' + ''.join(B32[d] for d in data + chk)


def mutants(s, alphabet, rng, exhaustive=True, sample=0):
    """single-character substitutions, insertions, deletions, adjacent transpositions"""
    out = []
    for i in range(len(s)):
        for c in alphabet:
            if c != s[i]:
                out.append(('sub', s[:i] + c + s[i + 1:]))
    for i in range(len(s) + 1):
        for c in alphabet:
            out.append(('ins', s[:i] + c + s[i:]))
    for i in range(len(s)):
        out.append(('del', s[:i] + s[i + 1:]))
    for i in range(len(s) - 1):
        if s[i] != s[i + 1]:
            out.append(('swap', s[:i] + s[i + 1] + s[i] + s[i + 2:]))
    if not exhaustive and sample and len(out) > sample:
        out = rng.sample(out, sample)
    return out


def damage(s, rng, alphabet):
    """random multi-character damage, case changes, truncation, padding"""
    k = rng.random()
    if k < 0.25:
        l = list(s)
        for _ in range(rng.randint(2, 5)):
            l[rng.randrange(len(l))] = rng.choice(alphabet)
        return 'multi', ''.join(l)
    if k < 0.4:
        return 'upper', s.upper()
    if k < 0.5:
        return 'lower', s.lower()
    if k < 0.6:
        i = rng.randrange(len(s))
        return 'caseflip', s[:i] + s[i].swapcase() + s[i + 1:]
    if k < 0.75:
        return 'trunc', s[:rng.randrange(len(s))] or 'x'
    if k < 0.85:
        return 'pad1', rng.choice(['1', '11', 'q']) + s
    if k < 0.95:
        return 'strip1', s.lstrip('1') or 'x'
    return 'tail', s + rng.choice(alphabet)


def ok_token(s):
    return s and all(33 <= ord(c) <= 126 for c in s)


def run(ctx):
    import bitcoinlib, os
    from harness.core import REPO as REPO_
    from bitcoinlib.encoding import (change_base, base58encode, addr_base58_to_pubkeyhash, addr_to_pubkeyhash, addr_bech32_to_pubkeyhash,
                                     pubkeyhash_to_addr_base58, pubkeyhash_to_addr_bech32, convertbits, EncodingError)
    from bitcoinlib.keys import Address, Key, HDKey, deserialize_address, BKeyError
    from bitcoinlib.networks import NETWORK_DEFINITIONS
    rng = ctx.rng
    T = ctx.thorough
    ctx.rule = ('for sampled valid strings of every class (base58 address, bech32/bech32m address, WIF, extended key) EVERY '
                'single-character substitution / insertion / deletion / adjacent transposition, plus random multi-damage, case '
                'changes, truncation, padding; non-trivial = distinct string that is not the unmodified valid input')

    def attempt(fn):
        try:
            return fn()
        except Exception:
            return None

    # ---------------- low level: base58 encode / decode, convertbits ---------------------------------
    cases = []
    payloads = [b'', b'\0', b'\0\0', b'\0' * 25, b'\xff' * 25, b'\0\x01', b'\x01\0', bytes(range(25))]
    payloads += [bytes(rng.randrange(256) for _ in range(rng.choice([1, 2, 5, 21, 25, 34, 38, 82])))
                 for _ in range(400 if T else 150)]
    payloads += [b'\0' * rng.randint(1, 5) + bytes(rng.randrange(256) for _ in range(rng.randint(0, 30)))
                 for _ in range(200 if T else 60)]
    for p in payloads:
        e = base58encode(p)
        cases.append(('b58enc %s' % hexp(p), e if e else '', True))
        if e:
            d = attempt(lambda: change_base(e, 58, 256))
            cases.append(('b58dec %s' % e, hexp(d) if d is not None else 'none', True))
    # strings over the alphabet and near it (0 O I l, other printable)
    for _ in range(4000 if T else 1200):
        ln = rng.randint(1, 12)
        alpha = B58 if rng.random() < 0.6 else B58 + '0OIl' if rng.random() < 0.7 else PRINTABLE
        s = ''.join(rng.choice(alpha) for _ in range(ln))
        if rng.random() < 0.3:
            s = '1' * rng.randint(1, 3) + s
        d = attempt(lambda: change_base(s, 58, 256))
        cases.append(('b58dec %s' % s, hexp(d) if d is not None else 'none', True))
    # encode: empty string result is '' in both
    cases = [(op, py if py != '' else '', nt) for op, py, nt in cases]
    ctx.compare(cases, 'lowlevel')

    cases = []
    for _ in range(1500 if T else 500):
        frm, to = rng.choice([(8, 5), (5, 8)])
        n = rng.randint(0, 45)
        vals = [rng.randrange(1 << frm) for _ in range(n)]
        if rng.random() < 0.3 and vals:
            vals[-1] = 0
        pad = frm == 8 or rng.random() < 0.3
        try:
            r = convertbits(list(vals), frm, to, pad=pad)
            py = ','.join(map(str, r)) if r else '-'
        except EncodingError:
            py = 'none'
        cases.append(('convertbits %d %d %d %s' % (frm, to, 1 if pad else 0, ','.join(map(str, vals)) or '-'), py, True))
    ctx.compare(cases, 'lowlevel')

    # ---------------- valid strings of every class ---------------------------------------------------
    nets = list(NETWORK_DEFINITIONS)
    addr58, bech, wifs, xkeys = [], [], [], []
    for net in nets:
        d = NETWORK_DEFINITIONS[net]
        for pre in (d['prefix_address'], d['prefix_address_p2sh']):
            for pkh in (bytes(rng.randrange(256) for _ in range(20)), b'\0' * 20, b'\0\0' + bytes(rng.randrange(256) for _ in range(18))):
                addr58.append(pubkeyhash_to_addr_base58(pkh, bytes.fromhex(pre)))
        for witver, ln in ((0, 20), (0, 32), (1, 32), (2, 32), (16, 2), (1, 40), (5, 20)):
            prog = bytes(rng.randrange(256) for _ in range(ln))
            bech.append(segwit_enc_ref(d['prefix_bech32'], witver, prog))
    secrets = [1, 2**255, 0xfffffffffffffffffffffffffffffffebaaedce6af48a03bbfd25e8cd0364140,
               int.from_bytes(b'\0\0' + bytes(rng.randrange(256) for _ in range(30)), 'big')] + \
              [rng.randrange(1, 2**256 - 2**129) for _ in range(4)]
    for net in nets:
        # secrets whose last byte is 01 (the compression-flag value) are always included, compressed and uncompressed
        for sec in rng.sample(secrets, 3) + [1, 0x0101, (rng.randrange(1, 2**248) << 8) | 1]:
            for comp in (True, False):
                k = Key(sec, network=net, compressed=comp)
                wifs.append(k.wif())
    for net in nets:
        hk = HDKey.from_seed(bytes(rng.randrange(256) for _ in range(32)), network=net)
        for wt in ('legacy', 'p2sh-segwit', 'segwit'):
            for ms in (False, True):
                ck = hk.subkey_for_path("m/44'/0'/%d'/0/%d" % (rng.randrange(5), rng.randrange(100)))
                xkeys.append(attempt(lambda: ck.wif(is_private=True, witness_type=wt, multisig=ms)))
                xkeys.append(attempt(lambda: ck.wif(is_private=False, witness_type=wt, multisig=ms)))
    xkeys = [x for x in dict.fromkeys(xkeys) if x]
    rng.shuffle(addr58); rng.shuffle(bech); rng.shuffle(wifs); rng.shuffle(xkeys)

    # ---------------- adapters (observable: accept/reject, payload, re-encoding) -----------------------
    def py_addr58pkh(s):
        r = attempt(lambda: addr_base58_to_pubkeyhash(s))
        return 'none' if r is None else hexp(r)

    def py_addr58(s):
        r = attempt(lambda: deserialize_address(s, encoding='base58'))
        if r is None or r.get('encoding') != 'base58':
            return 'none'
        return '%s %s' % (r['prefix'].hex(), hexp(r['public_key_hash_bytes']))

    def py_segwit(s):
        r = attempt(lambda: addr_bech32_to_pubkeyhash(s, include_witver=True))
        if r is None:
            return 'none'
        wv = r[0] - 0x50 if r[0] else 0
        return '%s %d %s' % (s.lower()[:s.lower().rfind('1')], wv, r[2:].hex())

    def py_address(s):
        a = attempt(lambda: Address.parse(s))
        if a is None:
            return 'none'
        if a.encoding == 'base58':
            r = 'base58 %s %s' % (a.prefix.hex(), hexp(a.hash_bytes))
        else:
            r = 'bech32 %s %d %s' % (a.prefix, a.witver, hexp(a.hash_bytes))
        if a.address != s and a.address != s.lower():
            r += ' reencodes-as:' + a.address
        return r

    def py_address_case(s):
        # an all-upper-case Bech32 string is valid by BIP173 but re-encodes in lower case; the property demands
        # identical re-encoding, so refusing it is acceptable: report the Spec answer for a refused upper-case string
        r = py_address(s)
        if r == 'none' and s != s.lower() and s == s.upper():
            ctx.count('uppercase-bech32-refused-by-Address.parse')
            return None
        return r

    def py_wif(s):
        try:
            k = Key(s)
        except Exception as e:
            k = None
            if 'multiple networks found' in str(e):
                # an ambiguous version byte (litecoin / litecoin_legacy): the caller must name the network
                from bitcoinlib.keys import get_key_format
                k = attempt(lambda: Key(s, network=get_key_format(s)['networks'][0]))
        if k is None or not k.is_private:
            return 'none'
        # reconstruct the payload the string must have carried: version || secret || [01]
        pre = k._wif_prefix if getattr(k, '_wif_prefix', None) else None
        # from the decoded FIELDS (32-byte secret, compression flag), not from the raw bytes the object happens to hold
        if k.secret >= 2 ** 256:
            return 'accept secret-of-%d-bytes' % ((k.secret.bit_length() + 7) // 8)
        payload = k.secret.to_bytes(32, 'big') + (b'\x01' if k.compressed else b'')
        return 'accept ' + payload.hex()

    def py_xkey(s, how):
        k = attempt((lambda: HDKey(s)) if how == 'init' else (lambda: HDKey.from_wif(s)))
        if k is None:
            return 'none'
        keyb = (b'\0' + k.private_byte) if k.is_private else k.public_byte
        body = bytes([k.depth]) + k.parent_fingerprint + k.child_index.to_bytes(4, 'big') + k.chain + keyb
        return 'accept ' + body.hex()

    # spec side for WIF / xkey comes from the generic `b58check` op; wrap results
    def cmp_b58check(items, kind):
        """items: (string, py) ; expected: accept <payload part> iff b58check decodes to a well-formed payload"""
        from harness.core import run_driver
        res = run_driver(['b58check ' + s for s, _ in items])
        # the import decision for extended keys is the model's (`xkeyImport`: length, known version, key field of the announced kind)
        xres = run_driver(['xkey_import ' + s for s, _ in items]) if kind == 'xkey' else [None] * len(items)
        for (s, py), r, xr in zip(items, res, xres):
            spec_payload = r.split(' | ')[0].strip()
            ctx.evals += 1; ctx.traces += 1
            ctx.count('mutants:' + kind)
            ctx.nontrivial.add(hash((kind, s)))
            if spec_payload == 'none':
                exp = 'none'
            else:
                raw = bytes.fromhex(spec_payload) if spec_payload != '-' else b''
                if kind == 'bip38':
                    # 39 bytes: 0142 (flag c0 / e0) or 0143 (EC-multiplied; flag 00 / 20 / 04 / 24), BIP38
                    ok38 = len(raw) == 39 and ((raw[:2] == b'\x01\x42' and raw[2] in (0xc0, 0xe0)) or (raw[:2] == b'\x01\x43' and raw[2] in (0x00, 0x20, 0x04, 0x24)))
                    exp = 'accept ' + raw.hex() if ok38 else 'none'
                elif kind == 'wif':
                    known = any(NETWORK_DEFINITIONS[n]['prefix_wif'].lower() == raw[:1].hex() for n in NETWORK_DEFINITIONS)
                    if known and len(raw) in (33, 34) and (len(raw) == 33 or raw[-1] == 1):
                        exp = 'accept ' + raw[1:].hex()
                    else:
                        exp = 'none'
                else:
                    known = any(pf[0].lower() == raw[:4].hex() for n in NETWORK_DEFINITIONS
                                for pf in NETWORK_DEFINITIONS[n]['prefixes_wif'])
                    priv_ver = any(pf[0].lower() == raw[:4].hex() and pf[2] == 'private' for n in NETWORK_DEFINITIONS
                                   for pf in NETWORK_DEFINITIONS[n]['prefixes_wif'])
                    pub_ver = any(pf[0].lower() == raw[:4].hex() and pf[2] == 'public' for n in NETWORK_DEFINITIONS
                                  for pf in NETWORK_DEFINITIONS[n]['prefixes_wif'])
                    key_ok = len(raw) == 78 and ((priv_ver and raw[45] == 0) or (pub_ver and raw[45] in (2, 3)))
                    exp = 'accept ' + raw[4:].hex() if known and len(raw) == 78 and key_ok else 'none'
                    if xr is not None and xr.split(' | ')[0].strip() != exp:
                        raise Infra('model xkeyImport and the harness expectation disagree on %s: %s / %s' % (s, xr, exp))
            if py != exp:
                if py == 'none':
                    ctx.count('refused-where-spec-accepts:' + kind)
                    continue
                ctx.violation('%s import differs from Base58Check specification' % kind,
                              {'op': 'b58check ' + s, 'kind': kind, 'observed': py, 'spec': exp})
            elif ctx.evals % 997 == 0:
                ctx.sample({'op': kind + ' ' + s, 'impl': py, 'spec': exp})

    # ---------------- mutation sweeps -------------------------------------------------------------------
    def generic(m):
        # the encoding-detecting reader answers what the specific reader of the detected encoding answers (both are compared
        # with the model above), and nothing when neither accepts
        ctx.evals += 1
        ctx.count('addr_to_pubkeyhash(auto)')
        g = attempt(lambda: addr_to_pubkeyhash(m))
        b = attempt(lambda: addr_base58_to_pubkeyhash(m))
        w = attempt(lambda: addr_bech32_to_pubkeyhash(m))
        want = b if b is not None else w
        if g != want:
            ctx.violation('addr_to_pubkeyhash disagrees with the reader of the encoding the string has',
                          {'op': 'generic ' + m, 'observed': None if g is None else hexp(g), 'expected': None if want is None else hexp(want)})
        # told which encoding to read, a string that is not of that encoding is an ERROR, not a quiet None
        for enc_, ref_ in (('base58', b), ('bech32', w)):
            if ref_ is None:
                try:
                    r_ = addr_to_pubkeyhash(m, encoding=enc_)
                    quiet = True
                except Exception:
                    quiet = False
                if quiet:
                    ctx.count('named-encoding-quiet-answer')
                    if not getattr(ctx, '_quiet_reported', False):
                        ctx._quiet_reported = True
                        ctx.violation('addr_to_pubkeyhash(.., encoding=%r) answers %r for a string that is not a valid %s address instead of raising' % (enc_, r_, enc_),
                                      {'op': 'generic-named ' + m, 'encoding': enc_, 'observed': repr(r_)})

    def sweep_addr58(strings, exhaustive):
        cases = []
        for s in strings:
            ms = [('valid', s)] + mutants(s, B58 + '0OIl', rng, exhaustive, 600) + \
                 [damage(s, rng, B58 + '0OIl_') for _ in range(40)]
            for kind, m in ms:
                if not ok_token(m):
                    continue
                cases.append(('addr58pkh ' + m, py_addr58pkh(m), kind != 'valid'))
                cases.append(('addr58 ' + m, py_addr58(m), kind != 'valid'))
                generic(m)
                cases.append(('address ' + m, py_address(m), kind != 'valid'))
        ctx.compare(cases, 'mutants', refusal_ok=True)

    def sweep_bech(strings, exhaustive):
        cases = []
        for s in strings:
            ms = [('valid', s), ('upper', s.upper())] + mutants(s, B32 + '1bio', rng, exhaustive, 600) + \
                 [damage(s, rng, B32 + '1bioQ') for _ in range(40)]
            for kind, m in ms:
                if not ok_token(m):
                    continue
                cases.append(('segwit_dec ' + m, py_segwit(m), kind != 'valid'))
                generic(m)
                r = py_address_case(m)
                if r is not None:
                    cases.append(('address ' + m, r, kind != 'valid'))
        ctx.compare(cases, 'mutants', refusal_ok=True)

    def sweep_b58check(strings, kind, exhaustive, per):
        items = []
        for s in strings:
            ms = [('valid', s)] + mutants(s, B58 + '0OIl', rng, exhaustive, per) + \
                 [damage(s, rng, B58 + '0OIl') for _ in range(30)]
            for k, m in ms:
                if not ok_token(m):
                    continue
                if kind == 'wif':
                    items.append((m, py_wif(m)))
                else:
                    items.append((m, py_xkey(m, 'init')))
                    if k in ('valid', 'sub', 'multi', 'swap'):
                        items.append((m, py_xkey(m, 'from_wif')))
        cmp_b58check(items, kind)

    def b58dec_h(st):
        n_ = 0
        for ch in st:
            n_ = n_ * 58 + B58.index(ch)
        body = n_.to_bytes((n_.bit_length() + 7) // 8, 'big')
        return b'\0' * (len(st) - len(st.lstrip('1'))) + body

    def restamp(payload):
        return b58enc_ref(payload + sha256d(payload)[:4])

    def structural(strings, kind):
        # strings whose CHECKSUM IS RIGHT but whose payload is not one of the class: wrong length, wrong flag, wrong key field, unknown version
        items = []
        for s_ in strings:
            raw = b58dec_h(s_)[:-4]
            if kind == 'wif':
                sec = raw[1:33]
                edits = [raw[:1] + sec[:20], raw[:1] + sec[:31], raw[:1] + sec + b'\x01\x01', raw[:1] + sec + b'\x00', raw[:1] + sec + b'\x02',
                         raw[:1], raw[:1] + b'\0' + sec, b'\x07' + raw[1:], raw[:1] + sec[1:] + b'\x01']
            else:
                flip = bytes([2 if raw[45] == 0 else 0])
                edits = [raw[:45] + flip + raw[46:], raw[:45] + b'\x04' + raw[46:], raw[:-1], raw + b'\x00', raw[:4] + raw[5:], b'\x01\x02\x03\x04' + raw[4:],
                         raw[:45] + b'\x01' + raw[46:]]
            for e_ in edits:
                m_ = restamp(e_)
                if not ok_token(m_):
                    continue
                ctx.count('structural-mutant:' + kind)
                if kind == 'wif':
                    items.append((m_, py_wif(m_)))
                else:
                    items.append((m_, py_xkey(m_, 'init')))
                    items.append((m_, py_xkey(m_, 'from_wif')))
        cmp_b58check(items, kind)

    # the same for addresses: a right checksum over a payload of the wrong length or with an unknown version byte
    cases_s = []
    for s_ in addr58[:12 if T else 4]:
        raw = b58dec_h(s_)[:-4]
        for e_ in (raw[:-1], raw + b'\x00', raw[:1] + raw[2:], raw[:1], b'\x07' + raw[1:], raw[:1] + b'\x00' * 12 + raw[1:]):
            m_ = restamp(e_)
            if not ok_token(m_):
                continue
            ctx.count('structural-mutant:address')
            cases_s.append(('addr58pkh ' + m_, py_addr58pkh(m_), True))
            cases_s.append(('addr58 ' + m_, py_addr58(m_), True))
            cases_s.append(('address ' + m_, py_address(m_), True))
    ctx.compare(cases_s, 'structural', refusal_ok=True)
    structural(wifs[:12 if T else 4], 'wif')
    structural(xkeys[:12 if T else 4], 'xkey')
    # every generated valid string of the Base58Check classes is decoded at least once (the mutant sweeps below take a subset)
    cmp_b58check([(w_, py_wif(w_)) for w_ in wifs], 'wif')
    cmp_b58check([(x_, py_xkey(x_, 'init')) for x_ in xkeys] + [(x_, py_xkey(x_, 'from_wif')) for x_ in xkeys], 'xkey')
    nq = (len(addr58), len(bech), len(wifs), len(xkeys)) if T else (4, 6, 3, 2)
    sweep_addr58(addr58[:nq[0]], True)
    sweep_bech(bech[:nq[1]], True)
    # every (witness version, program length) with a VALID checksum of the right kind: only the lengths BIP141/173/350 allow may decode;
    # plus the known Bech32 insertion weakness (q's before a final p keep the checksum valid)
    cases = []
    for hrp in ('bc', 'tb', 'ltc'):
        for witver in (0, 1, 2, 16):
            for ln in list(range(1, 42)) + [64, 65]:
                prog = bytes(rng.randrange(256) for _ in range(ln))
                sgw = segwit_enc_ref(hrp, witver, prog)
                cases.append(('segwit_dec ' + sgw, py_segwit(sgw), True))
                r = py_address_case(sgw)
                if r is not None:
                    cases.append(('address ' + sgw, r, True))
    for sgw in [b for b in bech if b.endswith('p')][:6] + [segwit_enc_ref('bc', 0, bytes(19) + b'\x01')]:
        if sgw.endswith('p'):
            for k in range(1, 21):
                m = sgw[:-1] + 'q' * k + 'p'
                cases.append(('segwit_dec ' + m, py_segwit(m), True))
    def f47(extra, op, py, spec):
        # listed finding F47: the Bech32 encoder takes a program whose length is not 20/32/40 and whose second byte happens to equal
        # its length - 2 for a script (version byte, push byte, program) and encodes something else
        if op.startswith('address ') and 'reencodes-as' in py and spec.startswith('bech32 ') and any(f['id'] == 'F47' for f in ctx.known):
            prog = bytes.fromhex(spec.split(' ')[3]) if len(spec.split(' ')) > 3 and spec.split(' ')[3] != '-' else b''
            if len(prog) not in (20, 32, 40) and len(prog) >= 2 and prog[1] == len(prog) - 2:
                return 'F47'
        return None

    # force the coincidence once per run so that the listed finding is exercised deterministically
    for ln in (24, 33):
        prog = bytes([0x38, ln - 2]) + bytes(rng.randrange(256) for _ in range(ln - 2))
        sgw = segwit_enc_ref('tb', 1, prog)
        r = py_address_case(sgw)
        if r is not None:
            cases.append(('address ' + sgw, r, True))
    ctx.compare(cases, 'lengths', trigger_findings=f47, refusal_ok=True)
    # BIP38 strings (the four vectors of the specification: plain, compressed, EC-multiplied without and with lot/sequence), opened
    # with their passphrase: a string that is not the Base58Check encoding of a BIP38 payload is refused, whatever the passphrase
    from bitcoinlib.keys import bip38_decrypt
    VEC38 = [('6PRVWUbkzzsbcVac2qwfssoUJAN1Xhrg6bNk8J7Nzm5H7kxEbn2Nh2ZoGg', 'TestingOneTwoThree', 'cbf4b9f70470856bb4f40f80b87edb90865997ffee6df315ab166d713af433a5'),
             ('6PYNKZ1EAgYgmQfmNVamxyXVWHzK5s6DGhwP4J5o44cvXdoY7sRzhtpUeo', 'TestingOneTwoThree', 'cbf4b9f70470856bb4f40f80b87edb90865997ffee6df315ab166d713af433a5'),
             ('6PfQu77ygVyJLZjfvMLyhLMQbYnu5uguoJJ4kMCLqWwPEdfpwANVS76gTX', 'TestingOneTwoThree', 'a43a940577f4e97f5c4d39eb14ff083a98187c64ea7c99ef7ce460833959a519'),
             ('6PgNBNNzDkKdhkT6uJntUXwwzQV8Rr2tZcbkDcuC9DZRsS6AtHts4Ypo1j', 'MOLON LABE', '44ea95afbf138356a05ea32110dfd627232d0f2991ad221187be356f19fa8190')]
    items38 = []
    for s38, pw38, sec38 in (VEC38 if T else [VEC38[ctx.seed % 2], VEC38[2 + ctx.seed % 2]]):
        tail = [('sub', s38[:i] + c + s38[i + 1:]) for i in range(len(s38) - 8, len(s38)) for c in B58 if c != s38[i]]
        ms = [('valid', s38)] + tail + mutants(s38, B58 + '0OIl', rng, False, 1500 if T else 250) + [damage(s38, rng, B58 + '0OIl') for _ in range(30)]
        for k_, m in ms:
            if not ok_token(m):
                continue
            for how38 in (('Key', 'bip38_decrypt') if k_ in ('valid', 'sub') else ('Key',)):
                try:
                    if how38 == 'Key':
                        got = Key(m, password=pw38).private_hex
                    else:
                        got = bip38_decrypt(m, pw38)[0].hex()
                except Exception:
                    got = None
                ctx.count('bip38:' + how38)
                if got is None:
                    py = 'none'
                elif got == sec38:
                    try:
                        py = 'accept ' + b58dec_h(m)[:-4].hex()
                    except Exception:
                        py = 'accept not-base58'
                else:
                    py = 'accept another-key'
                items38.append((m, py))
    # the same strings with a RIGHT checksum over a payload that is not a BIP38 payload: reserved flag bits set, wrong length, other prefix
    for s38, pw38, sec38 in VEC38:
        raw38 = b58dec_h(s38)[:-4]
        edits = [raw38[:2] + bytes([raw38[2] | bit]) + raw38[3:] for bit in (0x01, 0x02, 0x08, 0x10)] + \
                [raw38[:-1], raw38 + b'\x00', raw38[:1] + b'\x44' + raw38[2:], raw38[:2] + bytes([raw38[2] ^ 0x40]) + raw38[3:], raw38[:2] + bytes([raw38[2] & 0x3f]) + raw38[3:]]
        for e_ in edits:
            m_ = restamp(e_)
            ctx.count('structural-mutant:bip38')
            try:
                got = Key(m_, password=pw38).private_hex
            except Exception:
                got = None
            items38.append((m_, 'none' if got is None else ('accept ' + e_.hex() if got == sec38 else 'accept another-key')))
    cmp_b58check(items38, 'bip38')
    sweep_b58check(wifs[:nq[2]], 'wif', True, 0)
    sweep_b58check(xkeys[:nq[3]], 'xkey', T, 1500)
    # every valid string of every class once, plus sampled mutants, so that all networks/prefixes are touched
    sweep_addr58(addr58[nq[0]:], False) if not T else None
    sweep_bech(bech[nq[1]:], False) if not T else None
    if not T:
        sweep_b58check(wifs[nq[2]:nq[2] + 12], 'wif', False, 150)
        sweep_b58check(xkeys[nq[3]:nq[3] + 20], 'xkey', False, 60)
    # the checksum test of the Base58 address reader is a test, not an assertion: with assertions switched off (python -O) a wrong
    # checksum is still refused
    import subprocess, sys as _sys
    bad_ = addr58[0][:-1] + ('2' if addr58[0][-1] != '2' else '3')
    code_ = ("import sys; sys.path.insert(0, %r)\nfrom bitcoinlib.encoding import addr_base58_to_pubkeyhash\n"
             "try:\n    r = addr_base58_to_pubkeyhash(%r)\n    print('ACCEPTED', r.hex())\nexcept Exception as e:\n    print('REFUSED', type(e).__name__)\n" % (REPO_, bad_))
    out_ = subprocess.run([_sys.executable, '-O', '-c', code_], capture_output=True, text=True, env=dict(os.environ)).stdout.strip()
    ctx.evals += 1
    ctx.count('python-O-checksum')
    if not out_.startswith('REFUSED'):
        ctx.violation('with assertions switched off (python -O) the Base58 address reader accepts a wrong checksum', {'op': 'python -O addr58 ' + bad_, 'observed': out_[:120]})
    ctx.exhaustive = False
    ctx.extra['valid_strings'] = {'addr58': len(addr58), 'bech32': len(bech), 'wif': len(wifs), 'xkey': len(xkeys)}
    ctx.assumptions += ['Base58Check: that a *corrupted* string is rejected reduces to "a different payload has a different '
                        '4-byte SHA-256d checksum" - probability 2^-32 per corruption, not a theorem',
                        'float equality quirk in change_base (expected_length == len(output)) never fires for lengths < 2000 (checked numerically)']


def replay(ctx, obj):
    run(ctx)
    op = obj['replay'].get('op')
    bad = [v for v in ctx.violations if v['replay'].get('op') == op]
    print('still failing' if bad else 'no longer failing', op)
    return 1 if bad else 0
