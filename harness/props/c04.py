"""C04 — private key -> public point -> address exact; invalid keys refused."""
import hashlib
from harness.core import hexp, run_driver

N = 0xFFFFFFFFFFFFFFFFFFFFFFFFFFFFFFFEBAAEDCE6AF48A03BBFD25E8CD0364141
P = 0xFFFFFFFFFFFFFFFFFFFFFFFFFFFFFFFFFFFFFFFFFFFFFFFFFFFFFFFEFFFFFC2F


def run(ctx):
    from bitcoinlib.keys import Key, HDKey, Address
    from bitcoinlib.networks import NETWORK_DEFINITIONS
    rng = ctx.rng
    T = ctx.thorough
    ctx.rule = ('scalars: 0, 1, 2, n-2, n-1, n, n+1, 2^256-1, sparse bit patterns, leading-zero values, random; given as int / 32 bytes / '
                '64 hex; public encodings: valid points, every small x (on and off curve), x >= p, wrong y, wrong prefix, lengths off by one; '
                'addresses for every network x encoding x script type from Key.address (in random call orders on one object) and Address(). '
                'non-trivial = distinct op line')

    def keydump(fn):
        try:
            k = fn()
            return '%s %s' % (k.public_compressed_byte.hex(), k.public_uncompressed_byte.hex())
        except Exception:
            return 'none'

    # ---- private scalars -------------------------------------------------------------------------------
    scalars = [0, 1, 2, 3, N - 2, N - 1, N, N + 1, N + 5, 2**256 - 1, 2**255, 2**128, 1 << 200, (1 << 255) | 1, 0xff, 0x0100,
               int.from_bytes(b'\0' * 8 + bytes(rng.randrange(256) for _ in range(24)), 'big')]
    scalars += [rng.randrange(1, N) for _ in range(120 if T else 25)]
    scalars += [rng.getrandbits(rng.randint(1, 255)) for _ in range(60 if T else 15)]
    cases = []
    for d in scalars:
        cases.append(('key_secret %d' % d, keydump(lambda: Key(d)) if d else keydump(lambda: Key(d, is_private=True)), True))
        if d < 2**256:
            b = d.to_bytes(32, 'big')
            cases.append(('key_secret %d' % d, keydump(lambda: Key(b)), True))
            cases.append(('key_secret %d' % d, keydump(lambda: Key(b.hex())), True))
            cases.append(('key_secret %d' % d, keydump(lambda: HDKey(b, chain=b'\1' * 32) if d else HDKey(b, chain=b'\1' * 32)), True))
    # the same scalars handed over as WIF text (built here, Base58Check by hand), compressed and uncompressed: still the key of that
    # scalar - in particular when the LAST byte of the secret is 01 (the byte that marks compression when it FOLLOWS the 32 bytes) or 00
    import hashlib as _hl
    _B58 = '123456789ABCDEFGHJKLMNPQRSTUVWXYZabcdefghijkmnopqrstuvwxyz'

    def _b58check(b):
        b = b + _hl.sha256(_hl.sha256(b).digest()).digest()[:4]
        n_, s_ = int.from_bytes(b, 'big'), ''
        while n_:
            n_, r_ = divmod(n_, 58)
            s_ = _B58[r_] + s_
        return '1' * (len(b) - len(b.lstrip(b'\0'))) + s_
    wif_scalars = [0x101, 0x100, 1, 0xff01, (1 << 255) | 1, N - 0x40, N - 0x41, (rng.randrange(1, N >> 8) << 8) | 1, (rng.randrange(1, N >> 8) << 8)]
    wif_scalars += [d for d in scalars if 0 < d < N][-(20 if T else 6):]
    for d in wif_scalars:
        for comp_ in (False, True):
            wif_ = _b58check(b'\x80' + d.to_bytes(32, 'big') + (b'\x01' if comp_ else b''))
            ctx.count('scalar-as-wif:%s:last-byte-%s' % ('compressed' if comp_ else 'uncompressed', {0: '00', 1: '01'}.get(d & 0xff, 'other')))
            cases.append(('key_secret %d' % d, keydump(lambda: Key(wif_)), True))
            k_ = None
            try:
                k_ = Key(wif_)
            except Exception:
                pass
            if k_ is not None and (k_.compressed != comp_ or k_.secret != d):
                ctx.violation('a WIF imports as another scalar or with another compression flag', {'op': 'key_secret %d' % d, 'wif': wif_,
                                                                                                  'observed_secret': k_.secret, 'observed_compressed': k_.compressed})
    ctx.compare(cases, 'scalar')
    # 64-byte "hexadecimal private keys" (pinned by tests/test_keys.py::test_private_key_import_hex): listed finding F09b
    cases = []
    for d in (2**300 + 12345, 2**511 + 1, N << 200):
        cases.append(('key_secret %d' % d, keydump(lambda: Key('%0128x' % d)), True))
    ctx.compare(cases, 'scalar64', trigger_findings=lambda extra, op, py, spec: 'F09b' if int(op.split(' ')[1]) >= 2**256 else None)

    # ---- public encodings ---------------------------------------------------------------------------------
    def y_for(x):
        a = (pow(x, 3, P) + 7) % P
        y = pow(a, (P + 1) // 4, P)
        return y if y * y % P == a else None

    pubs = []
    xs = list(range(0, 40 if T else 16)) + [P - 1, P, P + 1, 2**256 - 1, N, rng.randrange(P)] + [rng.randrange(P) for _ in range(40 if T else 12)]
    for x in xs:
        xb = (x % 2**256).to_bytes(32, 'big')
        for pre in (2, 3):
            pubs.append(bytes([pre]) + xb)
        y = y_for(x % P) if x < P else None
        if y is not None:
            pubs.append(b'\x04' + xb + y.to_bytes(32, 'big'))
            pubs.append(b'\x04' + xb + (P - y).to_bytes(32, 'big'))
            pubs.append(b'\x04' + xb + ((y + 1) % P).to_bytes(32, 'big'))           # wrong y
            for yy in (0, 1, P - 1, P, (y + P) % 2**256, 2**256 - 1):                   # boundary y values on a valid abscissa
                pubs.append(b'\x04' + xb + (yy % 2**256).to_bytes(32, 'big'))
        else:
            pubs.append(b'\x04' + xb + rng.randrange(P).to_bytes(32, 'big'))
    good = Key(12345)
    pubs += [good.public_byte + b'\0', b'\x04' + good.public_byte[1:], b'\x05' + good.public_byte[1:],
             b'\x02' + good.public_uncompressed_byte[1:], b'\x06' + good.public_uncompressed_byte[1:]]
    cases = []
    for pb in pubs:
        cases.append(('key_pub %s' % pb.hex(), keydump(lambda: Key(pb)), True))
        cases.append(('key_pub %s' % pb.hex(), keydump(lambda: Key(pb.hex())), True))
    # the same encodings given as point tuples (x, y)
    for pb in pubs:
        if len(pb) == 65 and pb[0] == 4:
            x, y = int.from_bytes(pb[1:33], 'big'), int.from_bytes(pb[33:], 'big')
            cases.append(('key_pub %s' % pb.hex(), keydump(lambda: Key((x, y))), True))
    ctx.compare(cases, 'public')

    # ---- addresses --------------------------------------------------------------------------------------------
    nets = list(NETWORK_DEFINITIONS)
    combos = [('base58', 'p2pkh'), ('base58', 'p2sh_p2wpkh'), ('bech32', 'p2wpkh')]
    cases = []

    def att(fn):
        try:
            return fn()
        except Exception as e:
            return 'none'

    # keys whose HASH begins like a serialised witness program (<version opcode> <length of the rest>): found once by search, the expected
    # addresses come from the model like all others.  Scripts whose SHA-256 begins that way are searched here (hashing only).
    HEADER_KEYS = [5353, 7553, 9062, 9709, 17659, 22598, 27042]
    header_scripts = []
    while len(header_scripts) < 4:
        sc_ = bytes(rng.randrange(256) for _ in range(rng.randint(1, 80)))
        h_ = hashlib.sha256(sc_).digest()
        if h_[1] == 0x1e and (h_[0] == 0 or 0x51 <= h_[0] <= 0x60):
            header_scripts.append(sc_)
    for d in rng.sample(scalars[17:], 10 if T else 5) + [1, N - 1] + (HEADER_KEYS if T else rng.sample(HEADER_KEYS, 2)):
        for net in nets:
            k = Key(d, network=net)
            ku = Key(d, network=net, compressed=False)
            order = combos * 2
            rng.shuffle(order)
            for enc, typ in order:      # history on one object: caches must not leak into the next answer
                wt = 'p2sh-segwit' if typ == 'p2sh_p2wpkh' else None
                cases.append(('addr %s %s %s %s' % (net, enc, typ, k.public_byte.hex()),
                              att(lambda: k.address(script_type=typ, encoding=enc)), True))
                cases.append(('addr %s %s %s %s' % (net, enc, typ, k.public_byte.hex()),
                              att(lambda: Address(k.public_byte, network=net, script_type=typ, encoding=enc).address), True))
            cases.append(('addr %s base58 p2pkh %s' % (net, ku.public_uncompressed_byte.hex()), att(lambda: ku.address()), True))
            cases.append(('addr %s base58 p2pkh %s' % (net, ku.public_uncompressed_byte.hex()),
                          att(lambda: Key(d, network=net).address_uncompressed()), True))
            # histories that switch between the compressed and the uncompressed form of ONE key object, and between address kinds
            # under an explicit version prefix: every answer is the address of the form / kind that was asked for, and a plain
            # address() afterwards is the address of the key as it was created
            pfx = bytes.fromhex(NETWORK_DEFINITIONS[net]['prefix_address_p2sh'])
            for start_compressed in (True, False):
                kh = Key(d, network=net, compressed=start_compressed)
                own = kh.public_byte.hex()
                steps = [('c', True), ('c', False), ('plain', None), ('unc', None), ('plain', None), ('hash160', None),
                         ('pfx', 'p2sh_p2wpkh'), ('pfx', 'p2pkh'), ('pfx', 'p2sh_p2wpkh'), ('plain', None)]
                rng.shuffle(steps)
                for what, arg in steps:
                    ctx.count('form-history:' + what)
                    if what == 'c':
                        pubx = (k.public_byte if arg else ku.public_uncompressed_byte).hex()
                        cases.append(('addr %s base58 p2pkh %s' % (net, pubx), att(lambda: kh.address(compressed=arg, script_type='p2pkh', encoding='base58')), True))
                    elif what == 'unc':
                        cases.append(('addr %s base58 p2pkh %s' % (net, ku.public_uncompressed_byte.hex()), att(lambda: kh.address_uncompressed(script_type='p2pkh', encoding='base58')), True))
                    elif what == 'plain':
                        cases.append(('addr %s base58 p2pkh %s' % (net, own), att(lambda: kh.address(script_type='p2pkh', encoding='base58')), True))
                    elif what == 'hash160':
                        ctx.evals += 1
                        want_h = hashlib.new('ripemd160', hashlib.sha256(bytes.fromhex(own)).digest()).digest()
                        if kh.hash160 != want_h or kh.compressed != start_compressed:
                            ctx.violation('hash160 / compressed flag of a key object changed after address requests', {'op': 'form-history hash160', 'network': net, 'observed': kh.hash160.hex(), 'expected': want_h.hex(),
                                                                                                                  'compressed': kh.compressed, 'created_compressed': start_compressed})
                    elif start_compressed:
                        # (under the P2SH version byte: the nested segwit address, resp. the key hash itself behind that byte)
                        cases.append(('addr %s base58 %s %s' % (net, 'p2sh_p2wpkh' if arg == 'p2sh_p2wpkh' else 'p2sh', k.public_byte.hex()),
                                      att(lambda: kh.address(prefix=pfx, script_type=arg, encoding='base58')), True))
            # script hashes and taproot output keys
            script = bytes(rng.randrange(256) for _ in range(rng.randint(1, 80))) if rng.random() < 0.6 else rng.choice(header_scripts)
            cases.append(('addr %s bech32 p2wsh %s' % (net, script.hex()),
                          att(lambda: Address(script, network=net, script_type='p2wsh', encoding='bech32').address), True))
            cases.append(('addr %s base58 p2sh %s' % (net, script.hex()),
                          att(lambda: Address(script, network=net, script_type='p2sh', encoding='base58').address), True))
            cases.append(('addr %s base58 p2sh_p2wsh %s' % (net, script.hex()),
                          att(lambda: Address(script, network=net, script_type='p2sh_p2wsh', encoding='base58').address), True))
            h32 = bytes(rng.randrange(256) for _ in range(32))
            if rng.random() < 0.4:
                h32 = bytes([rng.choice([0x00, 0x51, 0x52, 0x60]), 0x1e]) + h32[2:]
            cases.append(('addr %s bech32 p2tr %s' % (net, h32.hex()),
                          att(lambda: Address(hashed_data=h32, network=net, script_type='p2tr', encoding='bech32').address), True))
            # HD keys per witness type
            hk = HDKey.from_seed(bytes(rng.randrange(256) for _ in range(32)), network=net)
            for wt, (enc, typ) in (('legacy', combos[0]), ('p2sh-segwit', combos[1]), ('segwit', combos[2])):
                try:
                    hk2 = HDKey(hk.wif_private(witness_type=wt), network=net, witness_type=wt)
                except Exception:
                    ctx.count('network-without-%s-prefix' % wt)
                    continue
                cases.append(('addr %s %s %s %s' % (net, enc, typ, hk2.public_byte.hex()), att(lambda: hk2.address()), True))
                if wt == 'legacy':
                    # the uncompressed form asked of a (compressed) HD key object, by argument and by method
                    ctx.count('hdkey-explicit-uncompressed')
                    cases.append(('addr %s base58 p2pkh %s' % (net, hk2.public_uncompressed_byte.hex()), att(lambda: hk2.address(compressed=False)), True))
                    cases.append(('addr %s base58 p2pkh %s' % (net, hk2.public_uncompressed_byte.hex()), att(lambda: hk2.address_uncompressed()), True))
                    cases.append(('addr %s base58 p2pkh %s' % (net, hk2.public_byte.hex()), att(lambda: hk2.address()), True))
    ctx.compare(cases, 'address')
    ctx.exhaustive = False
    ctx.assumptions += ['p2tr: only the encoding of a given 32-byte output key is claimed (the library has no taproot key tweaking)']


def replay(ctx, obj):
    op = obj['replay']['op']
    print('model:', run_driver([op])[0])
    run(ctx)
    bad = [v for v in ctx.violations if v['replay'].get('op') == op]
    print('still failing' if bad else 'no longer failing')
    return 1 if bad else 0
