"""C09 - wallet key paths: histories of key-issuing operations on real wallets against the Lean machine of key rows;
every key handed out is re-derived from the seed with the Lean BIP32 / address functions; wallets are re-created from
seed, mnemonic, extended private key and account public key."""
import os

from harness.core import run_driver, Infra

NETS = {'bitcoin': 0, 'testnet': 1, 'litecoin': 2, 'dogecoin': 3, 'bitcoinlib_test': 9999999}
ADDR_KIND = {'legacy': ('base58', 'p2pkh'), 'p2sh-segwit': ('base58', 'p2sh_p2wpkh'), 'segwit': ('bech32', 'p2wpkh')}


class Hist:
    def __init__(self, ctx, wt, net, how, hseed, nops):
        import random
        self.ctx, self.wt, self.net, self.how, self.hseed, self.nops = ctx, wt, net, how, hseed, nops
        self.rng = random.Random('%s/c09/%s/%s/%s/%s' % (ctx.seed, wt, net, how, hseed))
        self.ops, self.real, self.descr = [], [], []
        self.modelid = {}       # path -> model row id
        self.problems = []

    def rep(self, **kw):
        d = {'wt': self.wt, 'net': self.net, 'how': self.how, 'hseed': self.hseed, 'nops': self.nops, 'history': self.descr[-12:]}
        d.update(kw)
        return d

    def create(self):
        from bitcoinlib.wallets import Wallet
        from bitcoinlib.keys import HDKey
        from bitcoinlib.mnemonic import Mnemonic
        rng = self.rng
        self.db = 'sqlite:///' + os.path.join(os.environ['BCL_DATA_DIR'], 'c09_%s_%s_%s_%s_%s.sqlite' % (self.wt.replace('-', '_'), self.net, self.how, self.ctx.seed, self.hseed))
        ent = bytes(rng.randrange(256) for _ in range(rng.choice([16, 32])))
        self.password = ''
        self.defacct = rng.choice([0, 0, 0, 1, 5])
        acckw = {'account_id': self.defacct} if self.defacct else {}
        if self.how == 'mnemonic':
            self.words = Mnemonic().to_mnemonic(ent)
            self.password = rng.choice(['', 'pass phrase'])
            self.seed = Mnemonic().to_seed(self.words, self.password)
            self.w = Wallet.create('w', keys=self.words, password=self.password, witness_type=self.wt, network=self.net, db_uri=self.db, **acckw)
        else:
            self.seed = ent if len(ent) == 32 else ent * 2
            self.master = HDKey.from_seed(self.seed, witness_type=self.wt, network=self.net)
            keys = self.master if self.how == 'hdkey' else self.master.wif_private()
            self.w = Wallet.create('w', keys=keys, witness_type=self.wt, network=self.net, db_uri=self.db, **acckw)

    def chain(self, wt, net, acct, change):
        return '%s.%d.%d.%d.0' % (wt, NETS[net], acct, change)

    # ------------------------------------------------------------------------------------------------
    def record(self, op, keys, descr):
        """keys: the WalletKey objects handed out by the real operation"""
        self.ops.append(op)
        self.descr.append(descr)
        self.real.append([(k.address_index, k.path[2:] if k.path.startswith('m/') else k.path) for k in keys])
        model = run_driver(['keypaths 0 ' + ';'.join(self.ops)])[0].split(' | ')[0].split(';')[-1]
        self.ctx.evals += 1
        self.ctx.count('op:' + op.split('.')[0])
        got = ','.join('%d:%s' % x for x in self.real[-1]) or '-'
        mrows = [] if model in ('-', 'none') else [m.split(':') for m in model.split(',')]
        mstr = ','.join('%s:%s' % (m[1], m[2]) for m in mrows) or '-'
        for m in mrows:
            self.modelid[m[2]] = int(m[0])
        if got != mstr:
            self.problems.append(('machine', self.rep(op=op, real_op=descr, observed=got, model=mstr)))
            return False
        for k in keys:
            self.check_key(k, descr)
        return True

    def check_key(self, k, descr):
        """key material and address = BIP32 derivation from the seed + standard address of that key (Lean functions)"""
        ctx = self.ctx
        path = k.path
        line = 'bip32 %s %s' % (self.seed.hex(), path)
        r = run_driver([line])[0].split(' | ')[0]
        ctx.evals += 1
        hk = k.key()
        fields = dict(x.split('=') for x in r.split(' ')[1:]) if r != 'none' else {}
        if not fields or fields.get('pub') != hk.public_hex or fields.get('key') != hk.private_hex or int(fields.get('depth', -1)) != hk.depth:
            self.problems.append(('derivation', self.rep(real_op=descr, path=path, observed={'pub': hk.public_hex, 'depth': hk.depth}, model=r[:200])))
            return
        wt = k.witness_type
        enc, typ = ADDR_KIND[wt]
        a = run_driver(['addr %s %s %s %s' % (k.network.name, enc, typ, hk.public_hex)])[0].split(' | ')[0]
        ctx.evals += 1
        if a != k.address:
            self.problems.append(('address', self.rep(real_op=descr, path=path, observed=k.address, model=a)))
        # the documented path for (witness type, network, account, change, index)
        purpose = {'legacy': 44, 'p2sh-segwit': 49, 'segwit': 84}[wt]
        want = "m/%d'/%d'/%d'/%d/%d" % (purpose, NETS[k.network.name], k.account_id, k.change, k.address_index)
        if path != want:
            self.problems.append(('path', self.rep(real_op=descr, observed=path, expected=want)))

    def check_account_key(self, pm, wt, net, acct, descr):
        """the account public key handed out: documented path m/purpose'/coin'/account', public part of the BIP32 key there, not private"""
        ctx = self.ctx
        purpose = {'legacy': 44, 'p2sh-segwit': 49, 'segwit': 84}[wt]
        want = "m/%d'/%d'/%d'" % (purpose, NETS[net], acct)
        r = run_driver(['bip32 %s %s' % (self.seed.hex(), want)])[0].split(' | ')[0]
        fields = dict(x.split('=') for x in r.split(' ')[1:]) if r != 'none' else {}
        ctx.evals += 1
        ctx.count('public_master')
        hk = pm.key()
        if pm.path != want or pm.is_private or hk.is_private or hk.public_hex != fields.get('pub') or pm.network.name != net:
            self.problems.append(('account-key', self.rep(real_op=descr, observed={'path': pm.path, 'is_private': pm.is_private, 'pub': hk.public_hex,
                                                                                   'network': pm.network.name}, expected={'path': want, 'pub': fields.get('pub'), 'network': net})))

    # ------------------------------------------------------------------------------------------------
    def run(self):
        from bitcoinlib.wallets import Wallet, WalletError
        rng = self.rng
        self.create()
        w = self.w
        # a new wallet owns key 0 of the receiving chain of account 0
        self.ops.append('at.%s.0' % self.chain(self.wt, self.net, self.defacct, 0))
        self.descr.append('Wallet.create')
        self.real.append([])
        first = [k for k in w.keys(depth=5)]
        m0 = run_driver(['keypaths 0 ' + ';'.join(self.ops)])[0].split(' | ')[0]
        if len(first) != 1 or m0 in ('-', 'none') or (first[0].path[2:] != m0.split(':')[2]):
            self.problems.append(('machine', self.rep(op='create', real_op='Wallet.create', observed=[k.path for k in first], model=m0)))
        else:
            self.modelid[m0.split(':')[2]] = int(m0.split(':')[0])
            self.check_key(w.key(first[0].id), 'Wallet.create')
        other_wt = [x for x in ADDR_KIND if x != self.wt]
        other_net = [n for n in NETS if n != self.net and NETS[n] != NETS[self.net]]
        nets_used = [self.net]
        accounts = [self.defacct]
        accounts_net = {}            # accounts on the other networks of this wallet
        if self.defacct != 0:
            # the wallet's default account is not 0: account 0 named explicitly must be account 0
            purpose = {'legacy': 44, 'p2sh-segwit': 49, 'segwit': 84}[self.wt]
            try:
                a = w.new_account(account_id=0)
                want = "m/%d'/%d'/0'" % (purpose, NETS[self.net])
                if a.path != want or a.account_id != 0:
                    self.problems.append(('account', self.rep(real_op='new_account(account_id=0) on a wallet with default account %d' % self.defacct,
                                                              observed=(a.path, a.account_id), expected=want)))
                accounts.append(0)
                for chg_ in (0, 1):
                    self.ops.append('at.%s.0' % self.chain(self.wt, self.net, 0, chg_))
                    self.descr.append('new_account(account_id=0) -> key %d/0' % chg_)
                    self.real.append([])
                ms = run_driver(['keypaths 0 ' + ';'.join(self.ops)])[0].split(' | ')[0].split(';')[-2:]
                for m_ in ms:
                    for x in ([] if m_ in ('-', 'none') else m_.split(',')):
                        xs = x.split(':')
                        self.modelid[xs[2]] = int(xs[0])
                for acct_ in (0, 0, self.defacct):
                    kw_ = {'account_id': 0} if acct_ == 0 else {}
                    k = w.new_key(**kw_)
                    self.record('new.%s.1' % self.chain(self.wt, self.net, acct_, 0), [k], 'new_key(%s)' % kw_)
                k = w.get_key(account_id=0, change=1)
                self.record('get.%s.1' % self.chain(self.wt, self.net, 0, 1), [k], 'get_key(account_id=0, change=1)')
            except WalletError as e:
                self.problems.append(('refused', self.rep(real_op='prelude default account', error=str(e)[:100])))
        # structured prelude (every second history): explicit keys requested out of index order, then keys issued by the wallet
        elif self.hseed % 2 == 1:
            hi, lo = rng.choice([(6, 3), (9, 2), (4, 1)])
            chg = rng.choice([0, 1])
            c = self.chain(self.wt, self.net, 0, chg)
            try:
                for idx in (hi, lo):
                    k = w.key_for_path([chg, idx])
                    self.record('at.%s.%d' % (c, idx), [k], 'key_for_path([%d, %d])' % (chg, idx))
                for _ in range(2):
                    k = w.new_key(change=chg)
                    self.record('new.%s.1' % c, [k], 'new_key(change=%d)' % chg)
                ks = w.get_keys(number_of_keys=3, change=chg)
                self.record('get.%s.3' % c, ks, 'get_keys(3, change=%d)' % chg)
                # explicit paths that carry the ACCOUNT (no account_id argument), then keys issued for both accounts
                purpose = {'legacy': 44, 'p2sh-segwit': 49, 'segwit': 84}[self.wt]
                idx1 = rng.choice([2, 3, 5])
                c1 = self.chain(self.wt, self.net, 1, chg)
                if rng.random() < 0.5:
                    k = w.key_for_path([1, chg, idx1])
                    how = 'key_for_path([1, %d, %d])' % (chg, idx1)
                else:
                    pth = "m/%d'/%d'/1'/%d/%d" % (purpose, NETS[self.net], chg, idx1)
                    k = w.key_for_path(pth)
                    how = 'key_for_path(%r)' % pth
                self.record('at.%s.%d' % (c1, idx1), [k], how)
                if 1 not in accounts:
                    accounts.append(1)
                for acct_ in (0, 1, 1):
                    kw_ = {'account_id': acct_} if acct_ else {}
                    k = w.new_key(change=chg, **kw_)
                    self.record('new.%s.1' % self.chain(self.wt, self.net, acct_, chg), [k], 'new_key(change=%d, %s)' % (chg, kw_))
            except WalletError as e:
                self.problems.append(('refused', self.rep(real_op='prelude', error=str(e)[:100])))
        else:
            # structured prelude (the other histories): keys of ANOTHER witness type created in bulk, then issued one by one
            owt = rng.choice(other_wt)
            chg = rng.choice([0, 1])
            c = self.chain(owt, self.net, 0, chg)
            try:
                ks = w.new_keys(number_of_keys=rng.choice([3, 4]), change=chg, witness_type=owt)
                self.record('new.%s.%d' % (c, len(ks)), ks, 'new_keys(%d, change=%d, witness_type=%s)' % (len(ks), chg, owt))
                for _ in range(2):
                    k = w.new_key(change=chg, witness_type=owt)
                    self.record('new.%s.1' % c, [k], 'new_key(change=%d, witness_type=%s)' % (chg, owt))
                ks = w.get_keys(number_of_keys=2, change=chg, witness_type=owt)
                self.record('get.%s.2' % c, ks, 'get_keys(2, change=%d, witness_type=%s)' % (chg, owt))
            except Exception as e:
                from bitcoinlib.networks import NetworkError
                from bitcoinlib.keys import BKeyError
                if not isinstance(e, (WalletError, NetworkError, BKeyError)):
                    raise
                self.problems.append(('refused', self.rep(real_op='prelude %s' % owt, error=str(e)[:100])))
                self.w.session.rollback()
        self.accounts_net = accounts_net
        force_second_net = self.defacct == 0 and bool(other_net) and self.hseed % 2 == 0
        for step in range(self.nops):
            if self.problems and any(p[0] != 'refused' for p in self.problems):
                break
            w = self.w
            r = rng.random()
            if force_second_net and step == 1 and not accounts_net:
                r = 0.91            # (the branch that adds an account on another network)
            acct = rng.choice(accounts)
            wt = self.wt if rng.random() < 0.75 else rng.choice(other_wt)
            net = self.net
            change = rng.choice([0, 0, 1])
            if step == self.nops - 2 and len(accounts) > 1:
                # once per history: the change-chain wrapper asked for an account that is not the default one
                r, change, wt = 0.31, 1, self.wt
                acct = rng.choice([a_ for a_ in accounts if a_ != self.defacct])
                force_wrapper = True
            else:
                force_wrapper = False
            kw = {}
            if accounts_net and rng.random() < 0.45:
                # a key of another network of this wallet (own witness type only: its account was created for that)
                net = rng.choice(sorted(accounts_net))
                acct = rng.choice(accounts_net[net])
                wt = self.wt
                kw['network'] = net
                kw['account_id'] = acct
            elif acct != self.defacct:
                kw['account_id'] = acct          # also account 0, named explicitly, when it is not the default
            if wt != self.wt:
                kw['witness_type'] = wt
            c = self.chain(wt, net, acct, change)
            try:
                if r < 0.2:
                    kw2 = dict(kw)
                    if rng.random() < 0.25:
                        kw2['cosigner_id'] = 0        # meaningless for a single-signature wallet: the key issued is the next one all the same
                        self.ctx.count('new_key-with-cosigner_id')
                    k = w.new_key(change=change, **kw2)
                    self.record('new.%s.1' % c, [k], 'new_key(change=%d, %s)' % (change, kw2))
                elif r < 0.3:
                    k = w.new_key_change(**kw)
                    self.record('new.%s.1' % self.chain(wt, net, acct, 1), [k], 'new_key_change(%s)' % kw)
                elif r < 0.45:
                    if change == 1 and (force_wrapper or rng.random() < 0.6):
                        self.ctx.count('get_key_change-wrapper')
                        k = w.get_key_change(**kw)            # the change-chain wrapper takes the same account / network / witness type
                        self.record('get.%s.1' % c, [k], 'get_key_change(%s)' % kw)
                    else:
                        k = w.get_key(change=change, **kw)
                        self.record('get.%s.1' % c, [k], 'get_key(change=%d, %s)' % (change, kw))
                elif r < 0.6:
                    n = rng.choice([2, 3, 5])
                    if change == 1 and rng.random() < 0.6:
                        self.ctx.count('get_keys_change-wrapper')
                        ks = w.get_keys_change(number_of_keys=n, **kw)
                        self.record('get.%s.%d' % (c, n), ks, 'get_keys_change(%d, %s)' % (n, kw))
                    else:
                        ks = w.get_keys(number_of_keys=n, change=change, **kw)
                        self.record('get.%s.%d' % (c, n), ks, 'get_keys(%d, change=%d, %s)' % (n, change, kw))
                elif r < 0.7:
                    n = rng.choice([2, 4])
                    ks = w.new_keys(number_of_keys=n, change=change, **kw)
                    self.record('new.%s.%d' % (c, n), ks, 'new_keys(%d, change=%d, %s)' % (n, change, kw))
                elif r < 0.8:
                    # a key becomes used (it received an output)
                    cand = [k for k in w.keys(depth=5) if not k.used and k.path[2:] in self.modelid]
                    if cand:
                        k = rng.choice(cand)
                        if accounts_net:
                            # (utxo_add on a wallet with several networks goes on to ask the service providers about the other networks)
                            w.utxos_update(networks=k.network.name, account_id=k.account_id, rescan_all=False,
                                           utxos=[{'address': k.address, 'script': '', 'confirmations': 1, 'output_n': 0,
                                                   'txid': '%064x' % rng.getrandbits(250), 'value': 10000}])
                        else:
                            w.utxo_add(k.address, 10000, '%064x' % rng.getrandbits(250), 0, confirmations=1)
                        self.ops.append('used.%d' % self.modelid[k.path[2:]])
                        self.descr.append('utxo_add on %s (key becomes used)' % k.path)
                        self.real.append([])
                elif r < 0.88:
                    idx = rng.choice([0, 1, 2, 3, 5, 7, 12])
                    kw3 = dict(kw)
                    if rng.random() < 0.3 or not getattr(self, 'kfp_cos_done', False):
                        self.kfp_cos_done = True
                        kw3['cosigner_id'] = 0        # meaningless for a single-signature wallet: the key is the key of that path all the same
                        self.ctx.count('key_for_path-with-cosigner_id')
                    k = w.key_for_path([change, idx], **kw3)
                    self.record('at.%s.%d' % (c, idx), [k], 'key_for_path([%d, %d], %s)' % (change, idx, kw3))
                elif r < 0.895 or (step == self.nops - 4 and not getattr(self, 'bulk_done', False)):
                    # keys asked for in bulk from an explicit place on a chain ([change, index], n keys) - the first of them may exist already
                    idx = rng.choice([0, 1, 2, 4, 9])
                    nbulk = rng.choice([2, 3])
                    if not getattr(self, 'bulk_done', False):
                        # (once per history for certain: on the change chain, with the first key in place)
                        self.bulk_done = True
                        change = 1
                        c = self.chain(wt, net, acct, change)
                        k0_ = w.key_for_path([change, idx], **kw)
                        self.record('at.%s.%d' % (c, idx), [k0_], 'key_for_path([%d, %d], %s)' % (change, idx, kw))
                    self.ctx.count('keys_for_path-bulk')
                    ks = w.keys_for_path([change, idx], number_of_keys=nbulk, **kw)
                    for j_, k_ in enumerate(ks):
                        self.record('at.%s.%d' % (c, idx + j_), [k_], 'keys_for_path([%d, %d], number_of_keys=%d, %s)[%d]' % (change, idx, nbulk, kw, j_))
                        if k_.change != change:
                            self.problems.append(('path', self.rep(real_op='keys_for_path([%d, %d], number_of_keys=%d)' % (change, idx, nbulk),
                                                                   observed='change %s at %s' % (k_.change, k_.path), expected=change)))
                elif r < 0.905:
                    # the account public key is asked for in the middle of the history: it must be the documented one, and it must not
                    # change what the wallet hands out afterwards
                    pmkw = dict(kw)
                    pm = w.public_master(**pmkw)
                    self.check_account_key(pm, wt, net, acct, 'public_master(%s)' % pmkw)
                    self.descr.append('public_master(%s)' % pmkw)
                    self.ops.append('used.0')
                    self.real.append([])
                elif r < 0.925 and not accounts_net and self.defacct == 0 and other_net:
                    onet = rng.choice(other_net)
                    a = w.new_account(network=onet)
                    want = "m/%d'/%d'/%d'" % ({'legacy': 44, 'p2sh-segwit': 49, 'segwit': 84}[self.wt], NETS[onet], a.account_id)
                    if a.path != want or a.account_id != 0 or a.network.name != onet:
                        self.problems.append(('account', self.rep(real_op='new_account(network=%s)' % onet, observed=(a.path, a.account_id, a.network.name), expected=want)))
                    accounts_net[onet] = [a.account_id]
                    self.ctx.count('second-network-account')
                    for chg in (0, 1):
                        self.ops.append('at.%s.0' % self.chain(self.wt, onet, a.account_id, chg))
                        self.descr.append('new_account(network=%s) -> key %d/0' % (onet, chg))
                        self.real.append([])
                    ms = run_driver(['keypaths 0 ' + ';'.join(self.ops)])[0].split(' | ')[0].split(';')[-2:]
                    for m in ms:
                        for x in ([] if m in ('-', 'none') else m.split(',')):
                            xs = x.split(':')
                            self.modelid[xs[2]] = int(xs[0])
                elif r < 0.94 and len(accounts) < 3:
                    a = w.new_account()
                    accounts.append(a.account_id)
                    want = "m/%d'/%d'/%d'" % ({'legacy': 44, 'p2sh-segwit': 49, 'segwit': 84}[self.wt], NETS[self.net], a.account_id)
                    if a.path != want or a.account_id != max(accounts[:-1]) + 1:
                        self.problems.append(('account', self.rep(real_op='new_account()', observed=(a.path, a.account_id), expected=want)))
                    # new_account creates key 0 of both chains
                    for chg in (0, 1):
                        self.ops.append('at.%s.0' % self.chain(self.wt, self.net, a.account_id, chg))
                        self.descr.append('new_account() -> key %d/0' % chg)
                        self.real.append([])
                    run_driver(['keypaths 0 ' + ';'.join(self.ops)])
                    ms = run_driver(['keypaths 0 ' + ';'.join(self.ops)])[0].split(' | ')[0].split(';')[-2:]
                    for m in ms:
                        for x in ([] if m in ('-', 'none') else m.split(',')):
                            xs = x.split(':')
                            self.modelid[xs[2]] = int(xs[0])
                else:
                    self.w = Wallet('w', db_uri=self.db)
                    self.descr.append('close + reopen')
                    self.ops.append('used.0')       # no-op in the model
                    self.real.append([])
            except Exception as e:
                # a request the library does not support (e.g. no extended-key version for this witness type on this network)
                from bitcoinlib.networks import NetworkError
                from bitcoinlib.keys import BKeyError
                if not isinstance(e, (WalletError, NetworkError, BKeyError)):
                    raise
                self.problems.append(('refused', self.rep(real_op='%s %s' % (wt, kw), error=str(e)[:100])))
                self.w.session.rollback()
                continue
            if self.problems:
                break
        self.final_checks()

    def final_checks(self):
        from bitcoinlib.wallets import Wallet
        ctx = self.ctx
        w = Wallet('w', db_uri=self.db)
        leaves = [k for k in w.keys(depth=5)]
        addrs = [k.address for k in leaves]
        if len(set(addrs)) != len(addrs):
            self.problems.append(('duplicate-address', self.rep(observed=sorted(a for a in addrs if addrs.count(a) > 1)[:4])))
        # every leaf row re-derived
        for k in leaves:
            self.check_key(w.key(k.id), 'final sweep over all key rows')
        # indices per chain: no repeats (and no gaps unless key_for_path asked for a specific index)
        chains = {}
        for k in leaves:
            chains.setdefault((k.witness_type, k.network_name, k.account_id, k.change), []).append(k.address_index)
        explicit = set(o.split('.')[1:6][0] + o.split('.')[2] + o.split('.')[3] + o.split('.')[4] for o in self.ops if o.startswith('at.') and not o.endswith('.0'))
        for (wt, net, acct, chg), idxs in chains.items():
            ctx.evals += 1
            if len(set(idxs)) != len(idxs):
                self.problems.append(('repeated-index', self.rep(chain=(wt, net, acct, chg), observed=sorted(idxs))))
            key = wt + str(NETS[net]) + str(acct) + str(chg)
            if key not in explicit and sorted(idxs) != list(range(len(idxs))):
                self.problems.append(('gap', self.rep(chain=(wt, net, acct, chg), observed=sorted(idxs))))
        # ---- the account public key of every network of the wallet ---------------------------------------------------------------
        for onet, accts in sorted(getattr(self, 'accounts_net', {}).items()):
            for acct in accts:
                try:
                    pm = w.public_master(account_id=acct, network=onet)
                    self.check_account_key(pm, self.wt, onet, acct, 'public_master(account_id=%d, network=%s)' % (acct, onet))
                    w3 = Wallet.create('re_net_%s_%d' % (onet, acct), keys=pm.wif, witness_type=self.wt, network=onet, db_uri=self.db)
                    mine = sorted((k.change, k.address_index, k.address) for k in leaves if k.witness_type == self.wt and k.account_id == acct and k.network_name == onet)
                    ctx.count('recreate:account-xpub-second-network')
                    for chg, idx, addr in mine:
                        k3 = w3.key_for_path([chg, idx])
                        if k3.address != addr:
                            self.problems.append(('recreate', self.rep(variant='account-xpub of network %s' % onet, change=chg, index=idx, observed=k3.address, expected=addr)))
                            break
                except Exception as e:
                    self.problems.append(('recreate', self.rep(variant='account-xpub of network %s' % onet, error=repr(e)[:160])))
        # ---- re-creation ---------------------------------------------------------------------------------------------------
        mine0 = sorted((k.address_index, k.address) for k in leaves if k.witness_type == self.wt and k.account_id == self.defacct and k.change == 0 and k.network_name == self.net)
        mine1 = sorted((k.address_index, k.address) for k in leaves if k.witness_type == self.wt and k.account_id == self.defacct and k.change == 1 and k.network_name == self.net)
        variants = []
        from bitcoinlib.keys import HDKey
        if self.how == 'mnemonic':
            variants.append(('mnemonic', dict(keys=self.words, password=self.password)))
        variants.append(('seed', dict(keys=HDKey.from_seed(self.seed, witness_type=self.wt, network=self.net))))
        variants.append(('xprv', dict(keys=w.main_key.wif)))
        variants.append(('account-xpub', dict(keys=w.public_master(account_id=self.defacct).wif)))
        for name, kw in variants:
            acckw = {'account_id': self.defacct} if self.defacct else {}
            w2 = Wallet.create('re_' + name.replace('-', '_'), witness_type=self.wt, network=self.net, db_uri=self.db, **kw, **acckw)
            ctx.evals += 1
            ctx.count('recreate:' + name)
            for chg, mine in ((0, mine0), (1, mine1)):
                for idx, addr in mine:
                    k2 = w2.key_for_path([chg, idx])
                    if k2.address != addr:
                        self.problems.append(('recreate', self.rep(variant=name, change=chg, index=idx, observed=k2.address, expected=addr)))
                        break
            if name == 'account-xpub' and any(k.is_private for k in w2.keys()):
                self.problems.append(('recreate', self.rep(variant=name, observed='watch-only wallet holds private keys')))
            if name == 'account-xpub' and self.defacct == 0:
                # the watch-only wallet is given its private master key, is closed and reopened, and goes on handing out keys
                try:
                    w2.import_master_key(HDKey.from_seed(self.seed, witness_type=self.wt, network=self.net))
                    ctx.count('import_master_key')
                    for stage in ('same object', 'reopened'):
                        if stage == 'reopened':
                            w2 = Wallet('re_account_xpub', db_uri=self.db)
                        k3 = w2.new_key()
                        self.check_key(k3, 'watch-only wallet after import_master_key (%s): new_key()' % stage)
                        if not k3.is_private:
                            self.problems.append(('derivation', self.rep(real_op='new_key() after import_master_key (%s)' % stage, observed='public-only key', path=k3.path)))
                except Exception as e:
                    self.problems.append(('recreate', self.rep(variant='account-xpub + import_master_key', error=repr(e)[:160])))


class HistMs(Hist):
    """the same machine for a cosigner wallet of an m-of-n multisig: keys are issued one by one and in bulk, on both chains"""

    def create(self):
        from bitcoinlib.wallets import Wallet
        from bitcoinlib.keys import HDKey
        rng = self.rng
        self.db = 'sqlite:///' + os.path.join(os.environ['BCL_DATA_DIR'], 'c09ms_%s_%s_%s_%s.sqlite' % (self.wt.replace('-', '_'), self.net, self.ctx.seed, self.hseed))
        n = rng.choice([2, 3])
        seeds = [bytes(rng.randrange(256) for _ in range(32)) for _ in range(n)]
        own = rng.randrange(n)
        keys = []
        for j, sd in enumerate(seeds):
            hk = HDKey.from_seed(sd, witness_type=self.wt, multisig=True, network=self.net)
            keys.append(hk if j == own else hk.public_master_multisig(witness_type=self.wt))
        self.w = Wallet.create('w', keys=keys, sigs_required=rng.randrange(1, n + 1), witness_type=self.wt, network=self.net, db_uri=self.db)
        self.cos = self.w.cosigner_id

    def chain(self, wt, net, acct, change):
        return '%s.%d.%d.%d.%d' % (wt, NETS[net], acct, change, self.cos)

    def check_key(self, k, descr):
        # (scripts and addresses of cosigner wallets are C10's; here: the stored index is the index of the path)
        last = k.path.split('/')[-1]
        if str(k.address_index) != last.strip("'"):
            self.problems.append(('path', self.rep(real_op=descr, observed='address_index %s at %s' % (k.address_index, k.path), expected=last)))

    def record(self, op, keys, descr):
        self.ops.append(op)
        self.descr.append(descr)
        self.real.append([(int(k.path.split('/')[-1]), k.path[2:] if k.path.startswith('m/') else k.path) for k in keys])
        model = run_driver(['keypaths 1 ' + ';'.join(self.ops)])[0].split(' | ')[0].split(';')[-1]
        self.ctx.evals += 1
        self.ctx.count('ms-op:' + op.split('.')[0])
        got = ','.join('%d:%s' % x for x in self.real[-1]) or '-'
        mrows = [] if model in ('-', 'none') else [m.split(':') for m in model.split(',')]
        mstr = ','.join('%s:%s' % (m[1], m[2]) for m in mrows) or '-'
        for m in mrows:
            self.modelid[m[2]] = int(m[0])
        if got != mstr:
            self.problems.append(('machine', self.rep(op=op, real_op=descr, observed=got, model=mstr)))
            return False
        for k in keys:
            self.check_key(k, descr)
        return True

    def run(self):
        from bitcoinlib.wallets import Wallet, WalletError
        rng = self.rng
        self.create()
        for step in range(self.nops):
            if self.problems:
                break
            w = self.w
            r = rng.random()
            change = rng.choice([0, 0, 1])
            c = self.chain(self.wt, self.net, 0, change)
            try:
                if r < 0.25:
                    k = w.new_key(change=change)
                    self.record('new.%s.1' % c, [k], 'new_key(change=%d)' % change)
                elif r < 0.45:
                    n = rng.choice([2, 3, 4])
                    ks = w.new_keys(number_of_keys=n, change=change)
                    self.record('new.%s.%d' % (c, n), ks, 'new_keys(%d, change=%d)' % (n, change))
                elif r < 0.6:
                    k = w.get_key(change=change)
                    self.record('get.%s.1' % c, [k], 'get_key(change=%d)' % change)
                elif r < 0.75:
                    n = rng.choice([2, 3, 5])
                    ks = w.get_keys(number_of_keys=n, change=change)
                    self.record('get.%s.%d' % (c, n), ks, 'get_keys(%d, change=%d)' % (n, change))
                elif r < 0.82 or step == 1:
                    # a key asked for by its place on the chain ([change, index]), as cosigners do when they compare addresses
                    idx = rng.choice([0, 1, 2, 3, 6])
                    self.ctx.count('ms-key_for_path')
                    k = w.key_for_path([change, idx], cosigner_id=self.cos)
                    self.record('at.%s.%d' % (c, idx), [k], 'key_for_path([%d, %d], cosigner_id=%d)' % (change, idx, self.cos))
                    if k.change != change:
                        self.problems.append(('path', self.rep(real_op='key_for_path([%d, %d])' % (change, idx), observed='change %s at %s' % (k.change, k.path), expected=change)))
                elif r < 0.9:
                    cand = [k for k in w.keys(depth=w.key_depth) if not k.used and k.path[2:] in self.modelid]
                    if cand:
                        k = rng.choice(cand)
                        w.utxo_add(k.address, 10000, '%064x' % rng.getrandbits(250), 0, confirmations=1)
                        self.ops.append('used.%d' % self.modelid[k.path[2:]])
                        self.descr.append('utxo_add on %s (key becomes used)' % k.path)
                        self.real.append([])
                else:
                    self.w = Wallet('w', db_uri=self.db)
                    self.descr.append('close + reopen')
                    self.ops.append('used.0')
                    self.real.append([])
            except WalletError as e:
                self.problems.append(('refused', self.rep(real_op='multisig %s' % self.wt, error=str(e)[:100])))
                self.w.session.rollback()
        # no two key rows of the wallet share an address or a path
        w = Wallet('w', db_uri=self.db)
        leaves = [k for k in w.keys(depth=w.key_depth)]
        addrs = [k.address for k in leaves]
        if len(set(addrs)) != len(addrs) or len(set(k.path for k in leaves)) != len(leaves):
            self.problems.append(('duplicate-address', self.rep(observed=sorted(a for a in addrs if addrs.count(a) > 1)[:4])))


def account_key_wallets(ctx):
    """wallets made from a PRIVATE account-level extended key (depth 3): their keys are the children of that account key; a key of another
    witness type lies under another purpose' and cannot come from this key - such a request must be refused, not answered with some key"""
    from bitcoinlib.wallets import Wallet, WalletError
    from bitcoinlib.keys import HDKey, BKeyError
    rng = ctx.rng
    for wt, net in (('segwit', 'bitcoin'), ('p2sh-segwit', 'testnet'), ('legacy', 'bitcoin')):
        seed = bytes(rng.randrange(256) for _ in range(32))
        purpose = {'legacy': 44, 'p2sh-segwit': 49, 'segwit': 84}[wt]
        acct = rng.choice([0, 0, 2])
        apath = "m/%d'/%d'/%d'" % (purpose, NETS[net], acct)
        master = HDKey.from_seed(seed, witness_type=wt, network=net)
        akey = master.subkey_for_path(apath)
        db = 'sqlite:///' + os.path.join(os.environ['BCL_DATA_DIR'], 'c09acc_%s_%s_%s.sqlite' % (wt.replace('-', '_'), net, ctx.seed))
        try:
            w = Wallet.create('acc', keys=akey.wif_private(), witness_type=wt, network=net, db_uri=db)
        except Exception as e:
            ctx.count('account-key-wallet-not-created')
            continue
        enc, typ = ADDR_KIND[wt]

        def expect(change, idx):
            r = run_driver(['bip32 %s %s/%d/%d' % (seed.hex(), apath, change, idx)])[0].split(' | ')[0]
            f = dict(x.split('=') for x in r.split(' ')[1:])
            return run_driver(['addr %s %s %s %s' % (net, enc, typ, f['pub'])])[0].split(' | ')[0]
        issued = {0: [], 1: []}
        for step in range(6):
            change = rng.choice([0, 0, 1])
            other = rng.random() < 0.4
            owt = rng.choice([x for x in ADDR_KIND if x != wt])
            ctx.evals += 1
            ctx.count('account-key-wallet:' + ('other-witness-type' if other else 'own'))
            if step == 3:
                w = Wallet('acc', db_uri=db)
            try:
                if other:
                    k = rng.choice([lambda: w.new_key(change=change, witness_type=owt), lambda: w.get_key(change=change, witness_type=owt),
                                    lambda: w.get_keys(number_of_keys=2, change=change, witness_type=owt)[0]])()
                    ctx.violation('a wallet made from an account key of one witness type handed out a key for another witness type',
                                  {'op': 'account-key-wallet', 'wallet': (wt, net, apath), 'asked': owt, 'observed': (k.path, k.address)})
                    break
                k = w.new_key(change=change)
            except (WalletError, BKeyError) as e:
                if other:
                    continue
                ctx.violation('a wallet made from a private account key refuses its own keys', {'op': 'account-key-wallet', 'wallet': (wt, net, apath), 'error': str(e)[:100]})
                break
            idx = len(issued[change]) + (1 if change == 0 else 0)          # (the wallet owns key 0/0 from its creation)
            issued[change].append(k.address)
            want = expect(change, idx)
            if k.address != want:
                ctx.violation('a key of a wallet made from an account key is not the BIP32 child of that account key at the next index',
                              {'op': 'account-key-wallet', 'wallet': (wt, net, apath), 'change': change, 'index': idx, 'observed': (k.path, k.address), 'expected': want})
                break


def path_expand_checks(ctx):
    """keys.path_expand on partial paths / hardened markers against `expandWith`"""
    from bitcoinlib.keys import path_expand
    rng = ctx.rng
    lines, exp = [], []
    for _ in range(150 if not ctx.thorough else 1500):
        wt = rng.choice(['legacy', 'p2sh-segwit', 'segwit'])
        ms = rng.random() < 0.4
        net = rng.choice(list(NETS))
        acct, cos, chg, idx = rng.randrange(4), rng.randrange(3), rng.randrange(2), rng.choice([0, 1, 5, 2 ** 31 - 1])
        n = rng.randrange(0, 4)
        given = []
        for _ in range(n):
            given.append(str(rng.choice([0, 1, 2, 7, 1000])) + rng.choice(['', '', "'", 'h', 'H', 'p']))
        try:
            r = path_expand(list(given), account_id=acct, cosigner_id=cos, address_index=idx, change=chg, witness_type=wt, multisig=ms, network=net)
            r = '/'.join(r[1:]) if r and r[0] in 'mM' else '/'.join(r)
        except Exception as e:
            r = 'none'
        lines.append('kp_expand %s %d - %d %d %d %d %d %s' % (wt, 1 if ms else 0, NETS[net], acct, cos, chg, idx, ','.join(given) or '-'))
        exp.append(r)
    for l, e, got in zip(lines, exp, run_driver(lines)):
        ctx.evals += 1
        ctx.count('path_expand')
        if got.split(' | ')[0] != e:
            ctx.violation('path_expand disagrees with the Lean transcription', {'op': 'expand', 'line': l, 'observed': e, 'model': got.split(' | ')[0]})


def run(ctx):
    path_expand_checks(ctx)
    account_key_wallets(ctx)
    configs = [('segwit', 'bitcoin', 'hdkey'), ('legacy', 'bitcoin', 'mnemonic'), ('p2sh-segwit', 'litecoin', 'xprv'), ('segwit', 'testnet', 'mnemonic'),
               ('legacy', 'dogecoin', 'hdkey')]
    configs += [('segwit', 'bitcoin', 'multisig'), ('legacy', 'bitcoin', 'multisig'), ('p2sh-segwit', 'testnet', 'multisig')]
    per = 2 if not ctx.thorough else 6
    nops = 14 if not ctx.thorough else 40
    if ctx.thorough:
        configs += [('p2sh-segwit', 'bitcoin', 'mnemonic'), ('segwit', 'litecoin', 'xprv'), ('legacy', 'testnet', 'xprv'), ('segwit', 'bitcoinlib_test', 'hdkey')]
    todo = [(c, s) for c in configs for s in range(per)]
    rp = getattr(ctx, 'replay_obj', None)
    if rp and 'wt' in rp['replay']:
        r = rp['replay']
        todo = [((r['wt'], r['net'], r['how']), r['hseed'])]
        nops = r.get('nops', nops)
    for (wt, net, how), hseed in todo:
        h = (HistMs if how == 'multisig' else Hist)(ctx, wt, net, how, hseed, nops)
        h.run()
        ctx.traces += 1
        ctx.nontrivial.add(hash((wt, net, how, hseed)))
        for kind, rep in h.problems:
            msg = {'machine': 'the keys handed out differ from the machine of key rows (index / path)',
                   'derivation': 'key material at a wallet path differs from BIP32 derivation from the seed',
                   'address': 'address of a wallet key differs from the standard encoding of that key',
                   'path': 'a key does not lie at the documented path', 'account': 'new_account: wrong path or account number',
                   'duplicate-address': 'two keys of a wallet share an address', 'repeated-index': 'an address index was issued twice',
                   'gap': 'address indices were issued with a gap', 'recreate': 're-created wallet does not reproduce the addresses',
                   'refused': 'a key request was refused', 'account-key': 'the account public key is not the documented one'}[kind]
            if kind == 'refused':
                ctx.count('refused-request')
                continue
            ctx.violation(msg, dict(rep, op=kind))
    ctx.assumptions += ['single-signature HD wallets and cosigner wallets of m-of-n multisigs (index / path machine; their scripts and addresses are C10\'s)',
                        'key material and addresses are checked against the Lean BIP32 (C03) and address (C04/C11) functions']


def replay(ctx, obj):
    ctx.replay_obj = obj
    ctx.seed = obj.get('seed', ctx.seed)
    run(ctx)
    print('still failing' if ctx.violations else 'no longer failing')
    return 1 if ctx.violations else 0
