"""C12 — every key export format imports back to the same key and metadata."""
import re
from harness.core import hexp, run_driver

N = 0xFFFFFFFFFFFFFFFFFFFFFFFFFFFFFFFEBAAEDCE6AF48A03BBFD25E8CD0364141


def run(ctx):
    from bitcoinlib.keys import Key, HDKey, get_key_format
    from bitcoinlib.networks import NETWORK_DEFINITIONS, Network
    rng = ctx.rng
    T = ctx.thorough
    ctx.rule = ('secrets with forced first/last bytes (..00, ..01, 02.., 03.., 04.., leading zero bytes) and random; every network x '
                '{compressed, uncompressed}; representations int / hex / bytes / hex+01 / bytes+01 / WIF / public hex, bytes, point; '
                'extended keys for every network x {legacy, p2sh-segwit, segwit} x {single, multisig} x {private, public} at depths 0..5 '
                'with boundary child numbers, imported with and without hints. non-trivial = distinct (key, format) pair')
    nets = list(NETWORK_DEFINITIONS)

    def secret_with(first=None, last=None, zeros=0):
        b = bytearray(rng.randrange(256) for _ in range(32))
        for i in range(zeros):
            b[i] = 0
        if first is not None:
            b[zeros] = first
        if last is not None:
            b[31] = last
        d = int.from_bytes(b, 'big')
        return d if 0 < d < N else 1 + d % (N - 1)

    secrets = [1, N - 1, secret_with(last=1), secret_with(last=1), secret_with(last=0), secret_with(first=2), secret_with(first=3),
               secret_with(first=4), secret_with(zeros=1), secret_with(zeros=4, last=1), secret_with(zeros=15)]
    secrets += [secret_with() for _ in range(30 if T else 6)]
    # secrets whose compressed public key ends in 01 / 00 or starts 02 00 / 03 00 (text forms whose ends look like markers of other formats)
    found_, d_ = {}, 2
    while len(found_) < 4 and d_ < 4000:
        ph = Key(d_).public_hex
        tag = 'end01' if ph.endswith('01') else 'end00' if ph.endswith('00') else 'x00' if ph[2:4] == '00' else 'x01' if ph[2:4] == '01' else None
        if tag and tag not in found_:
            found_[tag] = d_
        d_ += 1
    secrets += sorted(found_.values())

    def viol(what, **kw):
        ctx.violation(what, dict(op=kw.pop('op', 'roundtrip'), **kw))

    # ---------------- plain keys --------------------------------------------------------------------------------
    enc_cases, dec_cases = [], []
    for d in secrets:
        for net in (nets if T else rng.sample(nets, 4) + ['bitcoin']):
            for comp in (True, False):
                k = Key(d, network=net, compressed=comp)
                wif = k.wif()
                enc_cases.append(('wif_enc %s %d %d' % (net, d, 1 if comp else 0), wif, True))
                ctx.nontrivial.add(hash((d, net, comp)))
                # import: WIF
                try:
                    try:
                        k2 = Key(wif)
                    except Exception as e:
                        if 'multiple networks' not in str(e):
                            raise
                        k2 = Key(wif, network=net)
                    py = '%s %d %s' % (NETWORK_DEFINITIONS[net]['prefix_wif'].lower(), k2.secret, 'true' if k2.compressed else 'false')
                    if k2.public_byte != k.public_byte:
                        py += ' public-point-differs'
                    kf = get_key_format(wif)
                    if kf['is_private'] is not True:
                        py += ' format-says-public'
                    if (kf['format'] == 'wif_compressed') != comp:
                        py += ' format-compression-flag-wrong'
                except Exception as e:
                    py = 'none'
                dec_cases.append(('wif_dec %s' % wif, py, True))
                # import: other representations of the same secret
                b32 = d.to_bytes(32, 'big')
                reps = {'int': d, 'hex': b32.hex(), 'bytes': b32}
                if len(str(d)) > 70:
                    reps['decimal-string'] = str(d)          # (shorter decimal strings are not a recognised format: they could be hexadecimal)
                if comp:
                    reps['hex+01'] = b32.hex() + '01'
                    reps['bytes+01'] = b32 + b'\x01'
                for name, rep in reps.items():
                    ctx.evals += 1
                    ctx.count('plain:' + name)
                    try:
                        k3 = Key(rep, network=net, compressed=comp)
                    except Exception as e:
                        if (name in ('hex+01', 'bytes+01') and b32[0] in (2, 3)) or (name == 'bytes+01' and b32[0] == 4):
                            ctx.count('hex+01-starting-02/03-classified-public (not self-describing, reported)')
                            continue
                        viol('valid private key representation refused', form=name, value=str(rep) if not isinstance(rep, bytes) else rep.hex(), error=repr(e)[:100])
                        continue
                    if not k3.is_private or k3.secret != d or k3.compressed != comp:
                        if name in ('hex+01', 'bytes+01') and b32[0] in (2, 3) and not k3.is_private:
                            ctx.count('hex+01-starting-02/03-classified-public (not self-describing, reported)')
                            continue
                        viol('private key representation imports as a different key', form=name,
                             value=str(rep) if not isinstance(rep, bytes) else rep.hex(), expected=(d, comp),
                             observed=(k3.secret, k3.compressed, k3.is_private))
                # public representations
                for name, rep in (('pubhex', k.public_hex), ('pubbytes', k.public_byte), ('point', k.public_point())):
                    ctx.evals += 1
                    ctx.count('public:' + name)
                    try:
                        k4 = Key(rep, network=net, compressed=comp)
                        if k4.is_private or k4.public_point() != k.public_point() or k4.compressed != comp:
                            viol('public key representation imports as a different key', form=name, expected=k.public_hex,
                                 observed=(k4.public_hex, k4.compressed, k4.is_private))
                    except Exception as e:
                        viol('valid public key representation refused', form=name, value=str(rep), error=repr(e)[:100])
    # one object, exports before and after its network is changed (and with explicit version bytes in between): the export always
    # describes the object as it is now, whatever an earlier call left in a cache
    for d in (secrets if T else rng.sample(secrets, min(len(secrets), 6))):
        n1, n2 = rng.sample(nets, 2)
        comp = rng.random() < 0.7
        for kind in ('Key', 'HDKey'):
            k = Key(d, network=n1, compressed=comp) if kind == 'Key' else HDKey(d.to_bytes(32, 'big'), chain=b'\x07' * 32, network=n1, compressed=comp)
            export = (lambda **kw: k.wif(**kw)) if kind == 'Key' else (lambda **kw: k.wif_key(**kw))
            steps = ['export', 'prefix', 'change', 'export', 'prefix', 'export', 'back', 'export']
            if rng.random() < 0.5:
                steps = steps[2:]
            cur = n1
            for st in steps:
                ctx.count('wif-history:' + kind + ':' + st)
                try:
                    if st == 'export':
                        enc_cases.append(('wif_enc %s %d %d' % (cur, d, 1 if comp else 0), export(), True))
                    elif st == 'prefix':
                        other = rng.choice(nets)
                        w = export(prefix=NETWORK_DEFINITIONS[other]['prefix_wif'])
                        enc_cases.append(('wif_enc %s %d %d' % (other, d, 1 if comp else 0), w, True))
                    elif st == 'change':
                        cur = n2
                        if kind == 'HDKey':
                            k.network_change(n2)
                        else:
                            k.network = Network(n2)
                    else:
                        cur = n1
                        if kind == 'HDKey':
                            k.network_change(n1)
                        else:
                            k.network = Network(n1)
                except Exception as e:
                    viol('export on an object whose network was changed fails', kind=kind, step=st, networks=[n1, n2], error=repr(e)[:120])
                    break
    ctx.compare(enc_cases, 'wif-export')
    ctx.compare(dec_cases, 'wif-import')

    # ---------------- BIP38: the third self-describing format.  Exported with a passphrase, recognised as private material, imported
    # by Key and by HDKey under every witness type hint (BIP38 commits to the P2PKH address, whatever the importing object is for)
    for d in rng.sample(secrets, 3 if not T else 8):
        net = rng.choice(['bitcoin', 'bitcoin', 'testnet', 'litecoin'])
        comp = rng.random() < 0.75
        pw = rng.choice(['TestingOneTwoThree', 'x', 'pass phrase é'])
        try:
            enc = Key(d, network=net, compressed=comp).encrypt(pw)
        except Exception as e:
            viol('BIP38 export raised', op='bip38 export', secret=d, network=net, error=repr(e)[:100])
            continue
        ctx.evals += 1
        ctx.count('bip38-export-import')
        ctx.nontrivial.add(hash(('bip38', d, net, comp)))
        kf = get_key_format(enc)
        if kf.get('format') != 'wif_protected' or kf.get('is_private') is not True:
            viol('format detection does not classify a BIP38 string as protected private material', op='bip38 format', detected=repr(kf)[:160])
        importers = [('Key', lambda: Key(enc, password=pw, network=net))]
        for wt in ((None, 'segwit', 'legacy', 'p2sh-segwit') if comp else (None, 'legacy')):
            importers.append(('HDKey/%s' % wt, (lambda wt=wt: HDKey(enc, password=pw, network=net) if wt is None else HDKey(enc, password=pw, network=net, witness_type=wt))))
        for name, fn in importers:
            ctx.evals += 1
            try:
                k2 = fn()
                got = (k2.secret, k2.compressed, k2.network.name, bool(k2.is_private))
            except Exception as e:
                got = 'raise:%s:%s' % (type(e).__name__, str(e)[:60])
            if got != (d, comp, net, True) and not (not comp and name == 'HDKey/None' and 'Uncompressed' in str(got)):
                viol('a BIP38 export does not import back to the same key', op='bip38 import %s' % name, secret=d, network=net, compressed=comp, observed=str(got)[:140])

    # ---------------- public keys: compressed <-> uncompressed on one object, incl. y coordinates with leading zero digits ----------
    pub_cases = []
    small_y = []
    for dd in list(range(1, 700 if not T else 3000)):
        kk = Key(dd)
        yb = kk.public_uncompressed_byte[33:]
        if yb[0] < 0x10:
            small_y.append(kk)
        if len(small_y) >= (12 if not T else 60):
            break
    for kk in small_y + [Key(rng.randrange(1, 2**255)) for _ in range(6)]:
        comp = kk.public_compressed_byte
        for how, mk in (('hex', lambda: Key(comp.hex())), ('bytes', lambda: Key(comp)),
                        ('xpub', lambda: HDKey(HDKey(key=kk.private_byte, chain=b'\x07' * 32).wif_public()))):
            try:
                k2 = mk()
                got = '%s %s' % (k2.public_compressed_byte.hex(), k2.public_uncompressed_byte.hex())
                # and the uncompressed export must import as the same point again
                k3 = Key(k2.public_uncompressed_hex)
                if k3.public_compressed_byte != comp or k3.is_private:
                    got += ' reimport-differs'
            except Exception as e:
                got = 'raise:%s' % type(e).__name__
            ctx.count('public-roundtrip:' + how)
            pub_cases.append(('key_pub %s' % comp.hex(), got, True))
    ctx.compare(pub_cases, 'public-forms')

    # ---------------- extended keys ---------------------------------------------------------------------------------
    enc_cases = []
    imports = []
    for net in nets:
        seed = bytes(rng.randrange(256) for _ in range(32))
        master = HDKey.from_seed(seed, network=net)
        paths = ['m', "m/0'", "m/44'/0'/0'/0/5", "m/2147483647'/2147483647/1", "m/1/2/3/4/5"]
        for path in (paths if T else rng.sample(paths, 3)):
            k = master.subkey_for_path(path)
            for wt in ('legacy', 'p2sh-segwit', 'segwit'):
                for ms in (False, True):
                    for priv in (True, False):
                        try:
                            s = k.wif(is_private=priv, witness_type=wt, multisig=ms)
                        except Exception as e:
                            ctx.count('no-prefix-for:%s' % wt)
                            continue
                        kd = (b'\0' + k.private_byte) if priv else k.public_byte
                        enc_cases.append(('xkey_enc %s %d %s %d %d %s %d %s %s' % (net, priv, wt, ms, k.depth, k.parent_fingerprint.hex(),
                                                                                   k.child_index, k.chain.hex(), kd.hex()), s, True))
                        imports.append((s, net, wt, ms, priv, k, kd))
    # an HD key object made from an uncompressed private key: BIP32 serialises the compressed public key whatever the object's own flag
    for _ in range(6 if T else 2):
        net = rng.choice(nets)
        d_ = rng.choice(secrets)
        try:
            hu = HDKey(Key(d_, network=net, compressed=False).wif(), network=net)
        except Exception:
            ctx.count('no-hdkey-from-uncompressed-wif')
            continue
        for priv in (True, False):
            try:
                s_ = hu.wif(is_private=priv)
            except Exception:
                ctx.count('no-prefix-for-history-call')
                continue
            kd = (b'\0' + hu.private_byte) if priv else hu.public_compressed_byte
            ctx.count('xkey-export-uncompressed-object')
            enc_cases.append(('xkey_enc %s %d %s %d %d %s %d %s %s' % (net, priv, hu.witness_type, bool(hu.multisig), hu.depth, hu.parent_fingerprint.hex(),
                                                                       hu.child_index, hu.chain.hex(), kd.hex()), s_, True))
            imports.append((s_, net, hu.witness_type, bool(hu.multisig), priv, hu, kd))
    # the same exports in random order on ONE object, mixed with the default-argument forms (nothing cached may leak into another form)
    for net in (nets if T else rng.sample(nets, 3)):
        k = HDKey.from_seed(bytes(rng.randrange(256) for _ in range(32)), network=net, witness_type=rng.choice(['legacy', 'p2sh-segwit', 'segwit'])).subkey_for_path("m/1'/2")
        own_wt, own_ms = k.witness_type, bool(k.multisig)
        calls = [('args', p_, w_, m_) for p_ in (True, False) for w_ in ('legacy', 'p2sh-segwit', 'segwit') for m_ in (False, True)]
        calls += [('wif()',), ('wif_public()',), ('wif_private()',), ('wif(is_private=True)',)] * 2
        rng.shuffle(calls)
        for c in calls:
            try:
                if c[0] == 'args':
                    s_, priv, wt, ms = k.wif(is_private=c[1], witness_type=c[2], multisig=c[3]), c[1], c[2], c[3]
                elif c[0] == 'wif()':
                    s_, priv, wt, ms = k.wif(), False, own_wt, own_ms
                elif c[0] == 'wif_public()':
                    s_, priv, wt, ms = k.wif_public(), False, own_wt, own_ms
                elif c[0] == 'wif_private()':
                    s_, priv, wt, ms = k.wif_private(), True, own_wt, own_ms
                else:
                    s_, priv, wt, ms = k.wif(is_private=True), True, own_wt, own_ms
            except Exception:
                ctx.count('no-prefix-for-history-call')
                continue
            kd = (b'\0' + k.private_byte) if priv else k.public_byte
            ctx.count('xkey-export-history')
            enc_cases.append(('xkey_enc %s %d %s %d %d %s %d %s %s' % (net, priv, wt, ms, k.depth, k.parent_fingerprint.hex(),
                                                                       k.child_index, k.chain.hex(), kd.hex()), s_, True))
    # ... and across a network change of the object
    for _ in range(6 if T else 2):
        n1, n2 = rng.sample(nets, 2)
        k = HDKey.from_seed(bytes(rng.randrange(256) for _ in range(32)), network=n1).subkey_for_path("m/3'/1")
        for cur in (n1, n2, n1):
            if cur != k.network.name:
                k.network_change(cur)
            for priv in (True, False):
                try:
                    s_ = k.wif(is_private=priv)
                except Exception:
                    ctx.count('no-prefix-for-history-call')
                    continue
                kd = (b'\0' + k.private_byte) if priv else k.public_byte
                ctx.count('xkey-export-network-change')
                enc_cases.append(('xkey_enc %s %d %s %d %d %s %d %s %s' % (cur, priv, k.witness_type, bool(k.multisig), k.depth, k.parent_fingerprint.hex(),
                                                                           k.child_index, k.chain.hex(), kd.hex()), s_, True))
    ctx.compare(enc_cases, 'xkey-export')

    res = run_driver(['xkey_dec ' + s for s, *_ in imports])
    for (s, net, wt, ms, priv, k, kd), r in zip(imports, res):
        spec = r.split(' | ')[0].strip()
        ctx.evals += 1; ctx.traces += 1
        ctx.count('xkey-import')
        ctx.nontrivial.add(hash(s))
        m = re.match(r'depth=(\d+) fp=(\w+) child=(\d+) chain=(\w+) keydata=(\w+) private=\[(.*?)\] networks=\[(.*?)\] witness=\[(.*?)\] multisig=\[(.*?)\]', spec)
        if not m:
            viol('specification cannot decode an exported extended key', op='xkey_dec ' + s, spec=spec)
            continue
        depth, fp, child, chain, keydata = int(m.group(1)), m.group(2), int(m.group(3)), m.group(4), m.group(5)
        privs, snets, wts, mss = [x.strip() for x in m.group(6).split(',')], [x.strip() for x in m.group(7).split(',')], \
            [x.strip() for x in m.group(8).split(',')], [x.strip() for x in m.group(9).split(',')]
        if (depth, fp, child, chain, keydata) != (k.depth, k.parent_fingerprint.hex(), k.child_index, k.chain.hex(), kd.hex()):
            viol('exported extended key does not carry the key\'s fields', op='xkey_dec ' + s, spec=spec)
            continue
        for hints in (False, True, 'witness', 'network', 'network+witness'):
            try:
                if hints is True:
                    k2 = HDKey(s, network=net, witness_type=wt, multisig=ms)
                elif hints == 'witness':
                    try:
                        k2 = HDKey(s, witness_type=wt)
                    except Exception as e:
                        if 'network' not in str(e).lower():
                            raise
                        ctx.count('ambiguous-network-needs-hint')
                        continue
                elif hints == 'network':
                    k2 = HDKey(s, network=net)
                elif hints == 'network+witness':
                    k2 = HDKey(s, network=net, witness_type=wt)
                else:
                    try:
                        k2 = HDKey(s)
                    except Exception as e:
                        if 'multiple networks' not in str(e).lower() and 'network' not in str(e).lower():
                            raise
                        ctx.count('ambiguous-network-needs-hint')
                        continue
            except Exception as e:
                viol('exported extended key refused on import', op='xkey_dec ' + s, hints=hints, error=repr(e)[:120])
                continue
            kd2 = (b'\0' + k2.private_byte) if k2.is_private else k2.public_byte
            problems = []
            if (k2.depth, k2.parent_fingerprint, k2.child_index, k2.chain, kd2) != (k.depth, k.parent_fingerprint, k.child_index, k.chain, kd):
                problems.append('fields')
            if k2.is_private != priv or [str(priv).lower()] != privs:
                problems.append('private/public classification')
            kf = get_key_format(s)
            if kf['is_private'] != priv:
                problems.append('get_key_format.is_private')
            if hints is True:
                if k2.network.name != net or k2.witness_type != wt or bool(k2.multisig) != ms:
                    problems.append('metadata-with-hints %s/%s/%s' % (k2.network.name, k2.witness_type, k2.multisig))
            elif hints:
                # partial hints: what the hint does not say must still come from the version bytes where they are unambiguous
                if 'network' in hints and k2.network.name != net:
                    problems.append('network %s despite hint %s' % (k2.network.name, net))
                if 'witness' in hints and k2.witness_type != wt:
                    problems.append('witness_type %s despite hint %s' % (k2.witness_type, wt))
                if 'witness' not in hints and len(wts) == 1 and k2.witness_type != wt:
                    problems.append('witness_type %s' % k2.witness_type)
                if len(mss) == 1 and bool(k2.multisig) != ms:
                    problems.append('multisig %s with hints %s (the version bytes say %s)' % (k2.multisig, hints, ms))
                if len(mss) == 1 and len(wts) == 1 and k2.network.name == net and k2.wif(is_private=priv) != s:
                    problems.append('re-export with the imported metadata differs')
            else:
                if k2.network.name not in snets or (len(snets) == 1 and k2.network.name != net):
                    problems.append('network %s not in %s' % (k2.network.name, snets))
                if len(wts) == 1 and k2.witness_type != wt:
                    problems.append('witness_type %s' % k2.witness_type)
                if len(mss) == 1 and bool(k2.multisig) != ms:
                    problems.append('multisig %s' % k2.multisig)
            if hints is True and k2.wif(is_private=priv, witness_type=wt, multisig=ms) != s:
                problems.append('re-export differs')
            if problems:
                viol('extended key import differs: ' + ', '.join(problems), op='xkey_dec ' + s, hints=hints, spec=spec)
    ctx.exhaustive = False
    ctx.assumptions += ['metadata (network / witness type / multisig) is compared exactly only where the generated prefix table makes the version '
                        'unambiguous; ambiguous versions (e.g. xprv: bitcoin/regtest/dogecoin, single/multisig legacy) must yield a member of the candidate set']


def replay(ctx, obj):
    run(ctx)
    op = obj['replay'].get('op')
    bad = [v for v in ctx.violations if v['replay'].get('op') == op]
    print('still failing' if bad else 'no longer failing', op)
    return 1 if bad else 0
