"""C20 — service layer: provider failover, never fabricated answers, cache fidelity."""
import os, sys, json, types, itertools
from harness.core import hexp, run_driver


def run(ctx):
    import bitcoinlib
    from bitcoinlib.config.config import BCL_DATA_DIR
    rng = ctx.rng
    T = ctx.thorough
    ctx.rule = ('real Service objects with a generated providers.json and fake provider classes injected into bitcoinlib.services; '
                'EXHAUSTIVE: every assignment of {ok, False, exception, AttributeError, skipped (no method / no url / api key)} to k <= 3 '
                '(thorough 4) providers, in every priority order, max_providers in {1,2}, max_errors in {1,2,4}, through the pass-through '
                'query sendrawtransaction; then every query method with {ok, False, exception} on 2 providers, cache cold / warm. '
                'non-trivial = distinct (configuration, outcome assignment)')
    K = 4
    provs = {}
    for i in range(K):
        provs['fake%d' % i] = {"provider": "fakeprov", "network": "bitcoin", "client_class": "FakeClient%d" % i, "provider_coin_id": "",
                               "url": "http://fake%d/" % i, "api_key": "", "priority": 10 + i, "denominator": 1, "network_overrides": None,
                               "timeout": 0}
    with open(os.path.join(BCL_DATA_DIR, 'providers.json'), 'w') as f:
        json.dump(provs, f)
    import bitcoinlib.services as services
    from bitcoinlib.services.baseclient import BaseClient, ClientError
    from bitcoinlib.services.services import Service, ServiceError
    from bitcoinlib.transactions import Transaction
    from bitcoinlib.keys import Key

    script = {}          # provider index -> {method: outcome}
    calls = []

    def make_client(i):
        class Fake(BaseClient):
            def __init__(self, network, base_url, denominator, *args):
                super().__init__(network, 'fake%d' % i, base_url, denominator, *args)

            def __getattribute__(self, name):
                sc = script.get(i, {})
                if name in METHODS:
                    oc = sc.get(name, ('nomethod',))
                    if oc[0] == 'nomethod':
                        raise AttributeError(name)

                    def call(*a, **kw):
                        calls.append((i, name))
                        if oc[0] == 'ok':
                            return oc[1](i) if callable(oc[1]) else oc[1]
                        if oc[0] == 'okfn':
                            return oc[1](*a, **kw)
                        if oc[0] == 'empty':
                            return False
                        if oc[0] == 'raise':
                            raise ClientError('scripted failure of provider %d' % i)
                        if oc[0] == 'attr':
                            raise AttributeError('scripted attribute error')
                        raise RuntimeError('bad script')
                    return call
                return object.__getattribute__(self, name)
        Fake.__name__ = 'FakeClient%d' % i
        return Fake

    METHODS = {'blockcount', 'sendrawtransaction', 'getrawtransaction', 'gettransaction', 'getutxos', 'getbalance', 'estimatefee',
               'gettransactions', 'mempool', 'isspent', 'getinfo', 'getblock', 'getrawblock'}
    mod = types.ModuleType('bitcoinlib.services.fakeprov')
    for i in range(K):
        setattr(mod, 'FakeClient%d' % i, make_client(i))
    services.fakeprov = mod
    sys.modules['bitcoinlib.services.fakeprov'] = mod

    def new_service(k, cache=True, **kw):
        for i in range(K):
            script[i] = {'blockcount': ('ok', 800000)}
        uri = 'sqlite:///' + os.path.join(BCL_DATA_DIR, 'cache_%d.sqlite' % rng.randrange(10**9)) if cache else ''
        srv = Service(network='bitcoin', providers=['fakeprov'], cache_uri=uri, **kw)
        for name in list(srv.providers):
            if int(name[4:]) >= k:
                del srv.providers[name]
        return srv

    OUT = ['ok', 'empty', 'raise', 'attr', 'nomethod', 'nourl', 'apikey']

    def to_model(o, i):
        return {'ok': 'ok%d' % (100 + i), 'empty': 'empty', 'raise': 'raise', 'attr': 'attr'}.get(o, 'skip')

    # ---- exhaustive failover patterns through a pass-through query -----------------------------------------------------
    cases = []
    for k in ((1, 2, 3, 4) if T else (1, 2, 3)):
        srv = new_service(k)
        outs_list = list(itertools.product(OUT, repeat=k))
        if k == 4:
            outs_list = [o for o in outs_list if len(set(o)) > 1]
        for outs in outs_list:
            perms = list(itertools.permutations(range(k))) if (k <= 3) else [tuple(rng.sample(range(k), k))]
            for perm in (perms if T or k < 3 else rng.sample(perms, 2)):
                for maxp in (1, 2):
                    for maxe in ((1, 2, 4) if T or k < 3 else (rng.choice([1, 2, 4]),)):
                        # perm[j] = provider tried at position j  (priority descending)
                        for j, pi in enumerate(perm):
                            name = 'fake%d' % pi
                            srv.providers[name]['priority'] = 100 - j
                            o = outs[pi]
                            srv.providers[name]['url'] = '' if o == 'nourl' else 'http://x/'
                            srv.providers[name]['api_key'] = 'api-key-needed' if o == 'apikey' else ''
                            script[pi] = {'sendrawtransaction': ({'ok': ('ok', {'txid': 'from%d' % pi, 'response_dict': pi}),
                                                                  'empty': ('empty',), 'raise': ('raise',), 'attr': ('attr',)}.get(o, ('nomethod',)))}
                        srv.max_providers, srv.max_errors = maxp, maxe
                        try:
                            r = srv.sendrawtransaction('00')
                            if r is False:
                                py = 'false'
                            elif isinstance(r, dict) and r.get('txid', '').startswith('from'):
                                py = 'value %d' % (100 + r['response_dict'])
                            else:
                                py = 'fabricated:%r' % (r,)
                        except ServiceError:
                            py = 'error'
                        except Exception as e:
                            py = 'raise:' + type(e).__name__
                        pos = {pi: j for j, pi in enumerate(perm)}
                        # bookkeeping may only name providers of this service (anything else is a stale / invented entry)
                        name_pos = lambda n: pos[int(n[4:])] if n.startswith('fake') and n[4:].isdigit() and int(n[4:]) in pos else 'foreign:%s' % n
                        res = sorted((name_pos(n) for n in srv.results), key=str)
                        err = sorted((name_pos(n) for n in srv.errors), key=str)
                        py += ' results=%s errors=%s' % (str(res), str(err))
                        model_outs = ','.join(to_model(outs[pi], pi) for pi in perm)
                        cases.append(('svc_exec %d %d %s' % (maxp, maxe, model_outs), py, True))
    # the model prints results in arrival order = sorted positions, errors likewise
    ctx.compare(cases, 'failover')
    ctx.exhaustive = True

    # ---- every query method: the answer is the first responding provider's answer, or an error -----------------------------
    k1 = Key(12345)
    t = Transaction(network='bitcoin', witness_type='segwit')
    t.add_input(bytes(range(32)), 1, keys=[k1], script_type='sig_pubkey', value=100000, witness_type='segwit')
    t.add_output(60000, lock_script=b'\x00\x14' + bytes(20))
    t.add_output(0, lock_script=b'\x6a\x03abc')
    t.add_output(1234, lock_script=b'\x00\x14' + b'\x09' * 20)
    t.sign([k1])
    rawhex = t.raw_hex()

    def tx_from(i):
        from datetime import datetime, timezone
        tt = Transaction.parse_hex(rawhex)
        tt.block_height = 700000 + i
        tt.confirmations = 100001
        tt.date = datetime(2021, 1, 1, tzinfo=timezone.utc)
        tt.status = 'confirmed'
        for inp in tt.inputs:
            inp.value = 100000
        tt.update_totals()
        return tt

    addr = k1.address(encoding='bech32', script_type='p2wpkh')
    queries = {
        'sendrawtransaction': (lambda s: s.sendrawtransaction(rawhex), lambda i: {'txid': t.txid, 'response_dict': i}, lambda r: r['response_dict']),
        'getrawtransaction': (lambda s: s.getrawtransaction(t.txid), lambda i: rawhex + '%02x' % i, lambda r: int(r[-2:], 16) if r.startswith(rawhex) else 'fabricated'),
        'getbalance': (lambda s: s.getbalance(addr), lambda i: 1000 + i, lambda r: r - 1000 if isinstance(r, int) and 1000 <= r < 1010 else 'fabricated:%r' % r),
        'getutxos': (lambda s: s.getutxos(addr), lambda i: [{'address': addr, 'txid': t.txid, 'confirmations': 10, 'output_n': 0, 'input_n': 0,
                                                             'block_height': 700000, 'fee': None, 'size': 0, 'value': 5000 + i, 'script': '',
                                                             'date': None}],
                     lambda r: (r[0]['value'] - 5000) if isinstance(r, list) and len(r) == 1 else 'fabricated:%r' % (r,)),
        'gettransactions': (lambda s: s.gettransactions(addr), lambda i: [tx_from(i)],
                            lambda r: (r[0].block_height - 700000) if isinstance(r, list) and len(r) == 1 and r[0].raw_hex() == rawhex else 'fabricated:%r' % (r,)),
        'gettransaction': (lambda s: s.gettransaction(t.txid), tx_from, lambda r: (r.block_height - 700000) if r and r.txid == t.txid and r.raw_hex() == rawhex else 'fabricated'),
        'mempool': (lambda s: s.mempool(t.txid), lambda i: [t.txid, 'p%d' % i], lambda r: int(r[1][1:]) if isinstance(r, list) and len(r) == 2 else 'fabricated:%r' % (r,)),
        'isspent': (lambda s: s.isspent(t.txid, 0), lambda i: True, lambda r: 'T' if r is True else 'fabricated:%r' % (r,)),
        'estimatefee': (lambda s: s.estimatefee(5), lambda i: 20000 + i, lambda r: r - 20000 if isinstance(r, int) and 20000 <= r < 20010 else 'normalised:%r' % (r,)),
        'getrawblock': (lambda s: s.getrawblock(700123), lambda i: 'ab' * 80 + '%02x' % i, lambda r: int(r[-2:], 16) if isinstance(r, str) and r.startswith('ab' * 80) else 'fabricated:%r' % (r,)),
        'getinfo': (lambda s: s.getinfo(), lambda i: {'blockcount': 800000, 'chain': 'main', 'difficulty': 1.0, 'hashrate': 5, 'mempool_size': 900 + i},
                    lambda r: r['mempool_size'] - 900 if isinstance(r, dict) and set(r) == {'blockcount', 'chain', 'difficulty', 'hashrate', 'mempool_size'} else 'fabricated:%r' % (r,)),
    }
    f36_listed = any(f['id'] == 'F36' for f in ctx.known)
    for qname, (call, answer, who) in queries.items():
        for outs in itertools.product(['ok', 'empty', 'raise', 'none'], repeat=2):
            for maxe in (1, 4):
                for warm in (False, True):
                    if 'none' in outs and warm:
                        continue
                    srv = new_service(2)
                    srv.max_errors = maxe
                    for i in range(2):
                        # ('none': a malformed answer - the provider's method returns nothing at all; as good as an empty answer)
                        script[i] = {'blockcount': ('ok', 800000),
                                     qname: {'ok': ('ok', answer), 'empty': ('empty',), 'raise': ('raise',), 'none': ('ok', None)}[outs[i]]}
                        srv.providers['fake%d' % i]['priority'] = 50 - i
                    ctx.evals += 1; ctx.traces += 1
                    ctx.count('query:' + qname)
                    ctx.nontrivial.add(hash((qname, outs, maxe, warm)))
                    model = run_driver(['svc_exec 1 %d %s' % (maxe, ','.join('ok%d' % i if o == 'ok' else ('empty' if o == 'none' else o) for i, o in enumerate(outs)))])[0].split(' | ')[0]
                    expected = model.split(' results')[0]
                    try:
                        if warm:
                            # fill the cache with provider 0's answer first (when it can answer), then make every provider fail
                            first = None
                            try:
                                first = who(call(srv))
                            except Exception:
                                first = None
                            for i in range(2):
                                script[i][qname] = ('raise',)
                            calls.clear()
                            try:
                                r = call(srv)
                                got = 'value %s' % who(r) if r is not False else 'false'
                            except ServiceError:
                                got = 'error'
                            # a warm answer must equal what was stored; a cold cache must not answer
                            if qname == 'getbalance' and got == 'value fabricated:0' and f36_listed:
                                ctx.known_hit('F36', {'op': 'query getbalance warm', 'outcomes': list(outs), 'max_errors': maxe,
                                                      'observed': got, 'expected': 'error'})
                                continue
                            if got.startswith('value') and (first is None or got != 'value %s' % first):
                                ctx.violation('cache served an answer that no provider gave', {'op': 'query %s warm' % qname, 'outcomes': outs,
                                                                                              'first': first, 'observed': got})
                            if got.startswith('value'):
                                ctx.count('served-from-cache:' + qname)
                            continue
                        r = call(srv)
                        got = 'false' if r is False else 'value %s' % who(r)
                    except ServiceError:
                        got = 'error'
                    except Exception as e:
                        got = 'error'      # any exception is a failure, not an answer
                        ctx.count('query-raised-%s:%s' % (type(e).__name__, qname))
                    if qname == 'isspent' and expected.startswith('value'):
                        expected = 'value T'          # a boolean answer cannot be tagged with its provider
                    if (qname == 'getbalance' and got == 'value fabricated:0' and expected in ('false', 'error')
                            and f36_listed):
                        # listed finding F36: a failed provider run is reported as balance 0
                        ctx.known_hit('F36', {'op': 'query getbalance', 'outcomes': list(outs), 'max_errors': maxe,
                                              'observed': got, 'expected': expected})
                        continue
                    if got != expected and not (expected == 'false' and got == 'error'):
                        ctx.violation('query result is not the first responding provider\'s answer (or a failure)',
                                      {'op': 'query %s' % qname, 'outcomes': outs, 'max_errors': maxe, 'observed': got, 'expected': expected})
    # ---- a cached transaction read again after the cached block count has expired (no provider is asked for a confirmed transaction):
    # its confirmations are those of a confirmed transaction, not a negative number
    from datetime import datetime as _dt2, timedelta as _td2
    try:
        from bitcoinlib.db_cache import DbCacheVars
    except Exception:
        DbCacheVars = None
    if DbCacheVars is not None:
        srv = new_service(2)
        for i in range(2):
            script[i] = {'blockcount': ('ok', 800000), 'gettransaction': ('ok', tx_from)}
            srv.providers['fake%d' % i]['priority'] = 50 - i
        try:
            first = srv.gettransaction(t.txid)
            srv.cache.session.query(DbCacheVars).update({DbCacheVars.expires: _dt2.now() - _td2(days=2)})
            srv.cache.session.commit()
            for i in range(2):
                script[i] = {'blockcount': ('raise',), 'gettransaction': ('raise',)}
            again = srv.gettransaction(t.txid)
            ctx.evals += 1
            ctx.count('cached-after-blockcount-expired')
            if again and (again.confirmations is None or again.confirmations < 1 or again.block_height != first.block_height):
                ctx.violation('a cached confirmed transaction comes back with impossible confirmations after the cached block count expired',
                              {'op': 'query gettransaction expired-blockcount', 'first': [first.block_height, first.confirmations], 'again': [again.block_height, again.confirmations]})
        except ServiceError:
            ctx.count('cached-after-blockcount-expired:refused')
    # ---- getinputvalues: the value written into an input is the value of that output in one provider's copy of the previous
    # transaction; when no provider has it the call fails and nothing is invented
    kprev = Key(4242)
    def prev_from(i):
        from datetime import datetime as datetime_, timezone as timezone_
        tp = Transaction(network='bitcoin', witness_type='segwit')
        tp.add_input(b'\x99' * 32, 1, keys=[kprev], script_type='sig_pubkey', value=90000, witness_type='segwit')
        tp.add_output(1111, lock_script=b'\x00\x14' + b'\x01' * 20)
        tp.add_output(7000 + i, lock_script=b'\x00\x14' + b'\x02' * 20)
        tp.sign([kprev])
        tq = Transaction.parse_hex(tp.raw_hex())
        tq.block_height, tq.confirmations, tq.status, tq.date = 700000, 1000, 'confirmed', datetime_(2021, 1, 1, tzinfo=timezone_.utc)
        tq.inputs[0].value = 90000
        tq.update_totals()
        return tq
    for outs in itertools.product(['ok', 'empty', 'raise'], repeat=2):
        srv = new_service(2)
        for i in range(2):
            script[i] = {'blockcount': ('ok', 800000), 'gettransaction': {'ok': ('ok', prev_from), 'empty': ('empty',), 'raise': ('raise',)}[outs[i]]}
            srv.providers['fake%d' % i]['priority'] = 50 - i
        spend = Transaction(network='bitcoin', witness_type='segwit')
        spend.add_input(bytes.fromhex(prev_from(0).txid), 1, keys=[Key(77).public()], script_type='sig_pubkey', witness_type='segwit')
        spend.add_output(500, lock_script=b'\x00\x14' + b'\x03' * 20)
        ctx.evals += 1
        ctx.count('query:getinputvalues')
        ctx.nontrivial.add(hash(('getinputvalues', outs)))
        try:
            r = srv.getinputvalues(spend)
            got = 'value %s' % (r.inputs[0].value - 7000) if r else 'false'
        except Exception:
            got = 'error'
        okp = [i for i, o in enumerate(outs) if o == 'ok']
        want = ('value %d' % okp[0]) if okp else 'error'
        if got != want and not (want == 'error' and got == 'false'):
            ctx.violation('getinputvalues wrote a value that is not the first responding provider\'s (or did not fail)',
                          {'op': 'query getinputvalues', 'outcomes': outs, 'observed': got, 'expected': want})
    # ---- getblock page by page: every page, cold or served from the cache, holds exactly the transactions the provider has at those
    # positions of the block
    from datetime import datetime as _dt, timezone as _tz
    blk_txs = []
    for j in range(7):
        kk = Key(3000 + j)
        tj = Transaction(network='bitcoin', witness_type='segwit')
        tj.add_input(bytes([0x90 + j]) * 32, j, keys=[kk], script_type='sig_pubkey', value=60000 + j, witness_type='segwit')
        tj.add_output(50000 + j, lock_script=b'\x00\x14' + bytes([0x70 + j]) * 20)
        tj.sign([kk])
        blk_txs.append(tj.raw_hex())
    def block_answer(i):
        def answer(blockid, parse_transactions=True, page=1, limit=25):
            txs = []
            for pos, rh in enumerate(blk_txs):
                tq = Transaction.parse_hex(rh)
                tq.block_height, tq.confirmations, tq.status, tq.date = 700500, 100, 'confirmed', _dt(2021, 1, 1, tzinfo=_tz.utc)
                tq.inputs[0].value = 60000 + pos
                tq.update_totals()
                txs.append(tq)
            page_txs = txs[(page - 1) * limit: page * limit]
            return {'bits': 0x1d00ffff, 'depth': 10, 'block_hash': '00' * 31 + '%02x' % (i + 1), 'height': 700500, 'merkle_root': 'ab' * 32, 'nonce': 7,
                    'prev_block': 'cd' * 32, 'time': 1600000000, 'tx_count': len(blk_txs), 'txs': page_txs if parse_transactions else [t_.txid for t_ in page_txs],
                    'version': 1, 'page': page, 'pages': None, 'limit': limit}
        return answer
    want_ids = [Transaction.parse_hex(rh).txid for rh in blk_txs]
    for limit_ in (2, 3):
        for order in ([1, 2, 3, 4], [2, 1, 3], [3, 3, 1, 2], [1, 1, 2, 2]):
            srv = new_service(2)
            for i in range(2):
                srv.providers['fake%d' % i]['priority'] = 50 - i
            script[0] = {'blockcount': ('ok', 800000), 'getblock': ('raise',)}
            # (a callable answer is called with the provider index: hand back the paging function itself)
            script[1] = {'blockcount': ('ok', 800000), 'getblock': ('okfn', block_answer(1))}
            for pg in order:
                ctx.evals += 1
                ctx.count('getblock-page')
                ctx.nontrivial.add(hash(('getblock', limit_, tuple(order), pg)))
                try:
                    b_ = srv.getblock(700500, parse_transactions=True, page=pg, limit=limit_)
                    got = [t_.txid for t_ in b_.transactions] if b_ else 'false'
                except Exception as e:
                    got = 'error:' + type(e).__name__
                exp = want_ids[(pg - 1) * limit_: pg * limit_]
                if got != exp and not (got in ('false',) or str(got).startswith('error')):
                    ctx.violation('a page of a block holds other transactions than the provider has at those positions (cold or from the cache)',
                                  {'op': 'query getblock pages', 'limit': limit_, 'pages_asked': order, 'page': pg, 'from_cache': bool(srv.results_cache_n),
                                   'observed': [want_ids.index(x) if x in want_ids else x for x in got], 'expected': list(range((pg - 1) * limit_, min(pg * limit_, len(want_ids))))})
                    break
    # ---- histories of cached queries (gettransaction on several txids): the Lean cache + provider machine --------------
    txs = []
    for j in range(3):
        kk = Key(1000 + j)
        tj = Transaction(network='bitcoin', witness_type='segwit')
        tj.add_input(bytes([j + 1]) * 32, 0, keys=[kk], script_type='sig_pubkey', value=50000, witness_type='segwit')
        tj.add_output(40000, lock_script=b'\x00\x14' + bytes([j]) * 20)
        if j != 1:
            # a data carrier output of value 0 before another paying output (what a cache must store like any other output)
            tj.add_output(0, lock_script=b'\x6a\x04' + bytes([0x40 + j]) * 4)
            tj.add_output(700 + j, lock_script=b'\x00\x14' + bytes([0x30 + j]) * 20)
        tj.sign([kk])
        txs.append(tj.raw_hex())

    def tagged(rawj, tag):
        from datetime import datetime, timezone
        tt = Transaction.parse_hex(rawj)
        tt.block_height = 700000 + tag
        tt.confirmations = 100001
        tt.date = datetime(2021, 1, 1, tzinfo=timezone.utc)
        tt.status = 'confirmed'
        for inp in tt.inputs:
            inp.value = 50000
        tt.update_totals()
        return tt

    for hidx in range(12 if not T else 60):
        srv = new_service(2)
        srv.max_providers = 1
        qlines, real = [], []
        for step in range(rng.randrange(3, 9)):
            key = rng.randrange(3)
            maxe = rng.choice([1, 2, 4])
            outs = [rng.choice(['ok', 'ok', 'empty', 'raise']) for _ in range(2)]
            srv.max_errors = maxe
            for i in range(2):
                tag = step * 10 + i
                script[i] = {'blockcount': ('ok', 800000),
                             'gettransaction': {'ok': ('ok', (lambda rawj, tg: (lambda _i: tagged(rawj, tg)))(txs[key], tag)), 'empty': ('empty',), 'raise': ('raise',)}[outs[i]]}
                srv.providers['fake%d' % i]['priority'] = 50 - i
            qlines.append('%d:1:%d:%s' % (key, maxe, ','.join('ok%d' % (step * 10 + i) if o == 'ok' else o for i, o in enumerate(outs))))
            try:
                txid = Transaction.parse_hex(txs[key]).txid
                r = srv.gettransaction(txid)
                if r is False or r is None:
                    real.append('false')
                elif r.txid == txid and r.raw_hex() == txs[key]:
                    real.append('value %d' % (r.block_height - 700000))
                else:
                    real.append('fabricated')
            except ServiceError:
                real.append('error')
            except Exception as e:
                real.append('raise:%s' % type(e).__name__)     # neither an answer nor a ServiceError
        model = run_driver(['svc_hist ' + ';'.join(qlines)])[0].split(' | ')[0].split(';')
        ctx.evals += len(real)
        ctx.traces += 1
        ctx.count('cached-history')
        canon = lambda x: 'error' if x == 'false' else x          # both are failures, not answers
        if [canon(x) for x in real] != [canon(x) for x in model]:
            ctx.violation('a history of cached gettransaction queries disagrees with the cache + provider machine',
                          {'op': 'svc_hist', 'line': ';'.join(qlines), 'observed': real, 'model': model})
    # ---- histories of estimatefee (cached per group high / medium / low): what is read for a block count is what was stored for
    #      that block count's group, or a provider's answer ----------------------------------------------------------------------
    for hidx in range(10 if not T else 50):
        srv = new_service(2)
        srv.max_providers = 1
        qlines, real = [], []
        for step in range(rng.randrange(3, 8)):
            blocks = rng.choice([1, 2, 3, 5, 5, 6, 10, 25])
            prio = rng.choice(['', '', '', 'low', 'high'])
            maxe = rng.choice([1, 2, 4])
            outs = [rng.choice(['ok', 'ok', 'empty', 'raise']) for _ in range(2)]
            srv.max_errors = maxe
            for i in range(2):
                tag = step * 10 + i
                script[i] = {'blockcount': ('ok', 800000), 'estimatefee': {'ok': ('ok', 20000 + tag), 'empty': ('empty',), 'raise': ('raise',)}[outs[i]]}
                srv.providers['fake%d' % i]['priority'] = 50 - i
            key = int(run_driver(['svc_feegroup %d %s' % (blocks, prio or '-')])[0].split(' | ')[0])
            qlines.append('%d:1:%d:%s' % (key, maxe, ','.join('ok%d' % (step * 10 + i) if o == 'ok' else o for i, o in enumerate(outs))))
            try:
                r = srv.estimatefee(blocks, priority=prio)
                real.append('value %d' % (r - 20000) if isinstance(r, int) and 20000 <= r < 21000 else 'other:%r' % (r,))
            except ServiceError:
                real.append('error')
            except Exception as e:
                real.append('raise:%s' % type(e).__name__)
        model = run_driver(['svc_hist ' + ';'.join(qlines)])[0].split(' | ')[0].split(';')
        ctx.evals += len(real)
        ctx.traces += 1
        ctx.count('estimatefee-history')
        canon = lambda x: 'error' if x == 'false' else x
        if [canon(x) for x in real] != [canon(x) for x in model]:
            ctx.violation('a history of estimatefee queries disagrees with the cache + provider machine (cache slot = fee group of the block count)',
                          {'op': 'svc_hist estimatefee', 'line': ';'.join(qlines), 'observed': real, 'model': model})

    # ---- gettransactions with after_txid from a warm cache: several transactions, two of them in one block ------------------------
    from datetime import datetime, timezone
    for rep_i in range(2 if not T else 6):
        heights = rng.choice([[100, 100, 101, 103], [200, 201, 201, 201], [7, 7, 7, 9], [50, 51, 52, 52]])
        many = []
        for j, hgt in enumerate(heights):
            kj = Key(5000 + 10 * rep_i + j)
            tj = Transaction(network='bitcoin', witness_type='segwit')
            tj.add_input(bytes([rep_i + 1, j + 1]) * 16, j, keys=[kj], script_type='sig_pubkey', value=90000, witness_type='segwit')
            tj.add_output(80000, address=addr)
            tj.sign([kj])
            many.append((tj.raw_hex(), hgt))

        def all_txs(_i, many=many):
            out = []
            for rawj, hgt in many:
                tt = Transaction.parse_hex(rawj)
                tt.block_height = hgt
                tt.confirmations = 800000 - hgt
                tt.date = datetime(2021, 1, 1, tzinfo=timezone.utc)
                tt.status = 'confirmed'
                for inp in tt.inputs:
                    inp.value = 90000
                tt.update_totals()
                out.append(tt)
            return out

        ids = [Transaction.parse_hex(r).txid for r, _ in many]
        srv = new_service(2)
        srv.max_errors = 4
        for i in range(2):
            script[i] = {'blockcount': ('ok', 800000), 'gettransactions': ('ok', all_txs)}
            srv.providers['fake%d' % i]['priority'] = 50 - i
        try:
            cold = [x.txid for x in srv.gettransactions(addr)]
        except Exception as e:
            cold = 'raise:%s' % type(e).__name__
        ctx.evals += 1
        if cold != ids:
            ctx.violation('gettransactions does not return the provider\'s answer', {'op': 'gettransactions cold', 'observed': cold, 'expected': ids})
            continue
        for i in range(2):
            script[i]['gettransactions'] = ('raise',)
        for pos, after in enumerate(ids):
            ctx.evals += 1
            ctx.count('gettransactions-after_txid-from-cache')
            try:
                got = [x.txid for x in srv.gettransactions(addr, after_txid=after)]
            except ServiceError:
                got = 'error'
            except Exception as e:
                got = 'raise:%s' % type(e).__name__
            if got != 'error' and got != ids[pos + 1:]:
                ctx.violation('a cached gettransactions answer after a given txid is not the stored answer after that transaction',
                              {'op': 'gettransactions warm after_txid', 'block_heights': heights, 'after_position': pos,
                               'observed': [g[:8] for g in got] if isinstance(got, list) else got, 'expected': [g[:8] for g in ids[pos + 1:]]})

    # ---- getutxos with a partially filled cache: transactions paying the address were cached by gettransaction / gettransactions, whose
    # providers do not say whether the outputs are spent; the unspent outputs reported are the provider's, not the cache's guesses -------
    for rep_i in range(2 if not T else 6):
        k_a = Key(8000 + rep_i)
        addr_a = k_a.address(encoding='bech32', script_type='p2wpkh')
        olds = []
        for j in range(rng.choice([1, 2])):
            kj = Key(8100 + 10 * rep_i + j)
            tj = Transaction(network='bitcoin', witness_type='segwit')
            tj.add_input(bytes([0x40 + rep_i, j + 1]) * 16, j, keys=[kj], script_type='sig_pubkey', value=90000, witness_type='segwit')
            tj.add_output(50000 + j, address=addr_a)
            tj.sign([kj])
            olds.append(tj.raw_hex())
        kn = Key(8200 + rep_i)
        tn = Transaction(network='bitcoin', witness_type='segwit')
        tn.add_input(bytes([0x60 + rep_i, 9]) * 16, 0, keys=[kn], script_type='sig_pubkey', value=9000, witness_type='segwit')
        tn.add_output(7000, address=addr_a)
        tn.sign([kn])
        how_cached = rng.choice(['gettransaction', 'gettransactions'])

        def old_tx(rawj, hgt):
            tt = Transaction.parse_hex(rawj)
            tt.block_height, tt.confirmations, tt.status = hgt, 800000 - hgt, 'confirmed'
            tt.date = datetime(2021, 1, 1, tzinfo=timezone.utc)
            for inp in tt.inputs:
                inp.value = 90000
            for o_ in tt.outputs:
                o_.spent = None            # this provider does not know (as bitcoind, bcoin, chainso, cryptoid, mempool.space clients)
            tt.update_totals()
            return tt

        provider_utxos = [{'address': addr_a, 'txid': tn.txid, 'confirmations': 10, 'output_n': 0, 'input_n': 0, 'block_height': 799990, 'fee': None,
                           'size': 0, 'value': 7000, 'script': '', 'date': None}]
        srv = new_service(2)
        for i in range(2):
            script[i] = {'blockcount': ('ok', 800000), 'getutxos': ('ok', [dict(u) for u in provider_utxos]),
                         'gettransaction': ('okfn', lambda txid, olds=olds: next(old_tx(r_, 700000 + n_) for n_, r_ in enumerate(olds) if Transaction.parse_hex(r_).txid == txid)),
                         'gettransactions': ('ok', lambda _i, olds=olds: [old_tx(r_, 700000 + n_) for n_, r_ in enumerate(olds)])}
        ctx.evals += 1
        ctx.count('getutxos-with-partially-filled-cache:' + how_cached)
        try:
            if how_cached == 'gettransaction':
                for r_ in olds:
                    srv.gettransaction(Transaction.parse_hex(r_).txid)
            else:
                srv.gettransactions(addr_a)
            got = sorted((u['txid'], u['output_n'], u['value']) for u in srv.getutxos(addr_a))
        except ServiceError:
            got = 'error'
        except Exception as e:
            got = 'raise:%s' % type(e).__name__
        want = sorted((u['txid'], u['output_n'], u['value']) for u in provider_utxos)
        if got != 'error' and got != want:
            ctx.violation('getutxos reports outputs that no provider reported (cached outputs whose spent status is unknown)',
                          {'op': 'getutxos partial cache', 'cached_by': how_cached, 'observed': [(g[0][:8], g[1], g[2]) for g in got] if isinstance(got, list) else got,
                           'expected': [(g[0][:8], g[1], g[2]) for g in want]})

    # ---- getbalance of several addresses of which one is served from the cache: what is stored afterwards for the cached address is
    # still ITS balance (a later getbalance of that address alone, answered from the cache, is unchanged) ------------------------------
    for rep_i in range(2 if not T else 5):
        k_a, k_b = Key(9000 + rep_i), Key(9100 + rep_i)
        addr_a, addr_b = k_a.address(encoding='bech32', script_type='p2wpkh'), k_b.address(encoding='bech32', script_type='p2wpkh')
        txs_a = []
        for j in range(rng.choice([1, 2])):
            kj = Key(9200 + 10 * rep_i + j)
            tj = Transaction(network='bitcoin', witness_type='segwit')
            tj.add_input(bytes([0x70 + rep_i, j + 1]) * 16, j, keys=[kj], script_type='sig_pubkey', value=90000, witness_type='segwit')
            tj.add_output(30000 + 1000 * j, address=addr_a)
            tj.sign([kj])
            txs_a.append(tj.raw_hex())

        def txs_of_a(_i, txs_a=txs_a):
            out = []
            for n_, rawj in enumerate(txs_a):
                tt = Transaction.parse_hex(rawj)
                tt.block_height, tt.confirmations, tt.status = 700000 + n_, 100000 - n_, 'confirmed'
                tt.date = datetime(2021, 1, 1, tzinfo=timezone.utc)
                for inp in tt.inputs:
                    inp.value = 90000
                tt.update_totals()
                out.append(tt)
            return out

        srv = new_service(2)
        bal_b = 5000 + rep_i
        for i in range(2):
            script[i] = {'blockcount': ('ok', 800000), 'gettransactions': ('ok', txs_of_a),
                         'getbalance': ('okfn', lambda addresslist, bal_b=bal_b, addr_b=addr_b: bal_b if addr_b in addresslist else 0)}
        ctx.evals += 1
        ctx.count('getbalance-with-one-cached-address')
        try:
            srv.gettransactions(addr_a)
            alone_before = srv.getbalance([addr_a])
            both = srv.getbalance(rng.choice([[addr_a, addr_b], [addr_b, addr_a]]))
            alone_after = srv.getbalance([addr_a])
            b_alone = srv.getbalance([addr_b])
        except ServiceError:
            continue
        except Exception as e:
            ctx.violation('getbalance with a partly cached address list raised', {'op': 'getbalance partly cached', 'error': repr(e)[:120]})
            continue
        if both != alone_before + bal_b or alone_after != alone_before or b_alone != bal_b:
            ctx.violation('getbalance of a list with one cached address changes what is answered for the addresses afterwards',
                          {'op': 'getbalance partly cached', 'A_alone_before': alone_before, 'A_and_B': both, 'B_from_provider': bal_b,
                           'A_alone_after': alone_after, 'B_alone_after': b_alone})

    # ---- a PARTIAL unspent-output query (after_txid given) on an address that is in step with the chain: the answer is a part of the
    # address's outputs and is not its balance - what getbalance / the cached address record say afterwards is what they said before ----
    for rep_i in range(2 if not T else 5):
        k_a = Key(9500 + rep_i)
        addr_a = k_a.address(encoding='bech32', script_type='p2wpkh')
        n_tx = rng.choice([2, 3])
        vals = [1000 * (2 ** j) + rep_i for j in range(n_tx)]
        raws_p = []
        for j in range(n_tx):
            kj = Key(9600 + 10 * rep_i + j)
            tj = Transaction(network='bitcoin', witness_type='segwit')
            tj.add_input(bytes([0x50 + rep_i, j + 1]) * 16, j, keys=[kj], script_type='sig_pubkey', value=90000, witness_type='segwit')
            tj.add_output(vals[j], address=addr_a)
            tj.sign([kj])
            raws_p.append(tj.raw_hex())

        def txs_p(_i, raws_p=raws_p):
            out = []
            for n_, rawj in enumerate(raws_p):
                tt = Transaction.parse_hex(rawj)
                tt.block_height, tt.confirmations, tt.status = 700000 + n_, 100000 - n_, 'confirmed'
                tt.date = datetime(2021, 1, 1, tzinfo=timezone.utc)
                for inp in tt.inputs:
                    inp.value = 90000
                tt.update_totals()
                out.append(tt)
            return out
        txids_p = [Transaction.parse_hex(r_).txid for r_ in raws_p]
        after_pos = rng.randrange(0, n_tx - 1)
        later = [{'address': addr_a, 'txid': txids_p[n_], 'confirmations': 100000 - n_, 'output_n': 0, 'input_n': 0, 'block_height': 700000 + n_,
                  'fee': None, 'size': 0, 'value': vals[n_], 'script': '', 'date': None} for n_ in range(after_pos + 1, n_tx)]
        srv = new_service(2)
        total = sum(vals)
        for i in range(2):
            script[i] = {'blockcount': ('ok', 800000), 'gettransactions': ('ok', txs_p),
                         'getbalance': ('okfn', lambda addresslist, total=total, addr_a=addr_a: total if addr_a in addresslist else 0),
                         'getutxos': ('ok', [dict(u) for u in later])}
        ctx.evals += 1
        ctx.count('getutxos-after_txid-then-getbalance')
        try:
            srv.gettransactions(addr_a)
            before = srv.getbalance(addr_a)
            part = srv.getutxos(addr_a, after_txid=txids_p[after_pos])
            after = srv.getbalance(addr_a)
            info_after = srv.getcacheaddressinfo(addr_a)
        except ServiceError:
            continue
        except Exception as e:
            ctx.violation('a partial getutxos on a synchronised address raised', {'op': 'getutxos after_txid then getbalance', 'error': repr(e)[:120]})
            continue
        if before != total or after != total or (info_after.get('balance') not in (None, total)):
            ctx.violation('after a partial unspent-output query (after_txid) the service answers another balance than every provider gives',
                          {'op': 'getutxos after_txid then getbalance', 'every_provider_says': total, 'before': before, 'after': after,
                           'partial_answer_sum': sum(u['value'] for u in part), 'cached_record_balance': info_after.get('balance')})

    # ---- a failed query must not poison later ones: all providers down (error limit reached), then healthy again ---------------
    for qname, (call, answer, who) in queries.items():
        for maxe in (1, 2, 4):
            srv = new_service(2)
            srv.max_errors = maxe
            for i in range(2):
                script[i] = {'blockcount': ('ok', 800000), qname: ('raise',)}
                srv.providers['fake%d' % i]['priority'] = 50 - i
            ctx.evals += 1
            ctx.count('failed-then-healthy:' + qname)
            try:
                r = call(srv)
                first = 'false' if r is False else 'value %s' % who(r)
            except ServiceError:
                first = 'error'
            except Exception as e:
                first = 'raise:' + type(e).__name__
            if first.startswith('value') and not (qname == 'getbalance' and f36_listed and first == 'value fabricated:0') \
                    and not (qname == 'estimatefee' and first.startswith('value normalised')):
                ctx.violation('a query answered although every provider failed', {'op': 'all-down %s' % qname, 'max_errors': maxe, 'observed': first})
            for i in range(2):
                script[i][qname] = ('ok', answer)
            try:
                r = call(srv)
                second = 'false' if r is False else 'value %s' % who(r)
            except ServiceError:
                second = 'error'
            except Exception as e:
                second = 'raise:' + type(e).__name__
            want = 'value T' if qname == 'isspent' else 'value 0'
            if second != want and not (qname == 'estimatefee' and second.startswith('value')):
                ctx.violation('after a failed query the next query (providers healthy again) does not return the provider\'s answer',
                              {'op': 'down-then-up %s' % qname, 'max_errors': maxe, 'first': first, 'observed': second, 'expected': want})
    ctx.assumptions += ['providers are in-process fakes; real network behaviour (timeouts, partial HTTP answers) is represented by the outcome classes',
                        'estimatefee clamps to the network fee limits and substitutes the default for a falsy answer: a documented normalisation']


def replay(ctx, obj):
    run(ctx)
    op = obj['replay'].get('op')
    bad = [v for v in ctx.violations if v['replay'].get('op') == op]
    print('still failing' if bad else 'no longer failing', op)
    return 1 if bad else 0
