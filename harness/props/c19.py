"""C19 — script evaluation agrees with consensus for the implemented opcodes."""
import itertools
from harness.core import hexp, run_driver

ALPHA = [b'', b'\x00', b'\x80', b'\x01', b'\x81', b'\x02', b'\x7f', b'\xff\x00', b'\x00\x80', b'\xff\xff\xff\x7f',
         b'\x01\x00\x00\x00\x00', bytes(range(20))]
IMPLEMENTED = [0, 79] + list(range(81, 98)) + [99, 100, 103, 104, 105, 106] + list(range(109, 126)) + [130, 135, 136, 139, 140, 143, 144,
               145, 146, 147, 148, 154, 155, 156, 157, 158, 159, 160, 161, 162, 163, 164, 165, 166, 167, 168, 169, 170, 172, 173, 174,
               175, 176, 177, 178, 179, 180, 181, 182, 183, 184, 185]


def item_str(c):
    return 'o%d' % c if isinstance(c, int) else 'd' + c.hex()


def run(ctx):
    from bitcoinlib.scripts import Script, Stack
    from bitcoinlib.keys import Key, sign
    rng = ctx.rng
    T = ctx.thorough
    ctx.rule = ('every opcode number 0..255 executed on every stack of <= 2 (thorough: <= 3) items over a 12-value alphabet of edge '
                'encodings ("", 00, 80, 01, 81, 02, 7f, ff00, 0080, ffffff7f, 5-byte, 20-byte); random programs to length 12 (thorough '
                '40) from a grammar with nested conditionals (80% well nested); standard spends (P2PKH, P2PK, m-of-n multisig) with real '
                'signatures, wrong keys and wrong digests. Observable: accept / reject / exception and the remaining stack. '
                'non-trivial = distinct program')

    REEVAL = {'n': 0}

    def lib_eval(cmds, env, msg):
        try:
            s = Script(list(cmds))
            r = s.evaluate(message=msg, env_data=dict(env))
        except Exception:
            return 'raises'
        res = 'reject' if not r else 'accept ' + (','.join(hexp(x) for x in s.stack) if len(s.stack) else '-')
        # the same Script object evaluated again must give the same verdict (no state left over from the first run)
        if REEVAL['n'] % 7 == 0:
            try:
                r2 = s.evaluate(message=msg, env_data=dict(env))
                res2 = 'reject' if not r2 else 'accept ' + (','.join(hexp(x) for x in s.stack) if len(s.stack) else '-')
            except Exception:
                res2 = 'raises'
            if res2 != res:
                ctx.violation('evaluating the same Script object twice gives two different results',
                              {'op': 'reevaluate', 'commands': [item_str(c) for c in cmds], 'first': res, 'second': res2})
        REEVAL['n'] += 1
        return res

    def op_line(cmds, env, msg):
        return 'eval %s %d %d %d %s %s' % (','.join(item_str(c) for c in cmds) or '-', env['sequence'], env['locktime'], env['version'],
                                           env['redeemscript'].hex() if 'redeemscript' in env else 'none', msg.hex())

    known_ids = {f['id'] for f in ctx.known}

    def trig(extra, op, py, spec):
        devs = [d for d in extra.split('devops=')[1].split(' ')[0].split(',') if d]
        for d in devs:
            if 'F13.' + d in known_ids:
                return 'F13.' + d
        if 'unsupported=true' in extra and py in ('raises', 'reject'):
            ctx.count('opcode-outside-the-implemented-set-refused')
            return 'OBS-unsupported'
        return None

    def compare_impl(cases, stream):
        """py must equal Spec, or equal the Impl model *and* be attributable to a listed deviation"""
        res = run_driver([c[0] for c in cases])
        for (op, py, nt), r in zip(cases, res):
            spec, impl, extra = [x.strip() for x in r.split(' | ')]
            ctx.evals += 1; ctx.traces += 1
            ctx.count(stream)
            if nt:
                ctx.nontrivial.add(hash(op))
            if py == spec:
                if ctx.evals % 4001 == 0:
                    ctx.sample({'op': op, 'impl': py, 'spec': spec})
                continue
            fid = trig(extra, op, py, spec) if py == impl else None
            if fid is None and 'unsupported=true' in extra and py in ('raises', 'reject') and spec == 'reject':
                fid = 'OBS-unsupported'
            if fid is not None:
                ctx.known_hit(fid, {'op': op, 'impl': py, 'spec': spec})
                if spec == 'reject' and py.startswith('accept'):
                    ctx.count('consensus-rejects-library-accepts:' + fid)
            else:
                ctx.violation('evaluation differs from consensus and is not the listed behaviour', {
                    'op': op, 'observed': py, 'spec': spec, 'impl_model': impl, 'extra': extra})

    env0 = {'sequence': 0xfffffffe, 'locktime': 0, 'version': 2}
    msg0 = bytes(32)

    # ---- the witnesses of the listed findings are always replayed ---------------------------------------------
    cases = []
    for f in ctx.known:
        w = f.get('witness', {}).get('op', '')
        if w.startswith('eval '):
            toks = w.split(' ')
            cmds = [int(t[1:]) if t[0] == 'o' else bytes.fromhex(t[1:]) for t in toks[1].split(',')] if toks[1] != '-' else []
            env = {'sequence': int(toks[2]), 'locktime': int(toks[3]), 'version': int(toks[4])}
            if toks[5] != 'none':
                env['redeemscript'] = bytes.fromhex(toks[5])
            cases.append((w, lib_eval(cmds, env, bytes.fromhex(toks[6])), True))
    compare_impl(cases, 'witness')

    # ---- every opcode on every small stack ----------------------------------------------------------------
    stacks = [()] + [(a,) for a in ALPHA] + [(a, b) for a in ALPHA for b in ALPHA]
    three = [(a, b, c) for a in ALPHA for b in ALPHA for c in ALPHA]
    stacks += three if T else rng.sample(three, 150)
    cases = []
    envs = [env0, {'sequence': 5, 'locktime': 500000, 'version': 2}, {'sequence': 5, 'locktime': 1700000000, 'version': 1}]
    for opc in range(256):
        for st in stacks:
            if opc in (99, 100):
                cmds = list(st) + [opc, 81, 103, 82, 104]
            else:
                cmds = list(st) + [opc]
            env = envs[0] if opc not in (177, 178) else rng.choice(envs)
            cases.append((op_line(cmds, env, msg0), lib_eval(cmds, env, msg0), True))
    compare_impl(cases, 'exhaustive')
    ctx.exhaustive = False

    # ---- random programs with nested conditionals -------------------------------------------------------------
    straight = [c for c in IMPLEMENTED if c not in (99, 100, 103, 104, 172, 173, 174, 175)]

    def gen_block(depth, budget):
        out = []
        while budget > 0:
            k = rng.random()
            if k < 0.35:
                out.append(rng.choice(ALPHA[:10]))
                budget -= 1
            elif k < 0.5:
                out.append(rng.choice([0, 79] + list(range(81, 97))))
                budget -= 1
            elif k < 0.62 and depth < 3 and budget >= 3:
                inner = rng.randint(0, max(0, budget - 2) // 2)
                blk = [rng.choice([99, 100])] + gen_block(depth + 1, inner)
                if rng.random() < 0.6:
                    blk += [103] + gen_block(depth + 1, inner)
                    if rng.random() < 0.1:
                        blk += [103] + gen_block(depth + 1, 1)          # second ELSE
                blk.append(104)
                out += blk
                budget -= len(blk)
            else:
                out.append(rng.choice(straight))
                budget -= 1
        return out

    cases = []
    for _ in range(20000 if T else 3000):
        prog = gen_block(0, rng.randint(1, 40 if T else 12))
        if rng.random() < 0.2:      # ill nested
            i = rng.randrange(len(prog) + 1)
            prog.insert(i, rng.choice([99, 100, 103, 104]))
        env = rng.choice(envs)
        cases.append((op_line(prog, env, msg0), lib_eval(prog, env, msg0), True))
    compare_impl(cases, 'random')

    # ---- straight-line programs over the agreeing opcode set: must equal consensus exactly -----------------------
    agree = [c for c in straight if c not in (148, 114, 125, 121, 122, 165, 159, 160, 161, 162, 157, 177, 178)]
    cases = []
    for _ in range(20000 if T else 3000):
        n = rng.randint(1, 40 if T else 14)
        prog = [rng.choice(ALPHA[:10]) if rng.random() < 0.45 else rng.choice(agree) for _ in range(n)]
        cases.append((op_line(prog, env0, msg0), lib_eval(prog, env0, msg0), True))
    compare_impl(cases, 'straightline-agreeing-set')

    # ---- standard spends with real signatures ----------------------------------------------------------------------
    import hashlib
    from Crypto.Hash import RIPEMD160

    def h160(b):
        return RIPEMD160.new(hashlib.sha256(b).digest()).digest()

    cases = []
    for _ in range(60 if T else 15):
        msg = bytes(rng.randrange(256) for _ in range(32))
        k = Key(rng.randrange(1, 2**250))
        other = Key(rng.randrange(1, 2**250))
        sg = sign(msg, k).as_der_encoded()
        bad = sign(msg, other).as_der_encoded()
        wrongmsg = sign(bytes(32), k).as_der_encoded()
        for s_ in (sg, bad, wrongmsg):
            pk = k.public_byte
            p2pkh = [s_, pk, 118, 169, h160(pk), 136, 172]
            cases.append((op_line(p2pkh, env0, msg), lib_eval(p2pkh, env0, msg), True))
            p2pk = [s_, pk, 172]
            cases.append((op_line(p2pk, env0, msg), lib_eval(p2pk, env0, msg), True))
        # m-of-n multisig
        n = rng.randint(1, 3)
        m = rng.randint(1, n)
        ks = [Key(rng.randrange(1, 2**250)) for _ in range(n)]
        signers = sorted(rng.sample(range(n), m))
        sigs = [sign(msg, ks[i]).as_der_encoded() for i in signers]
        redeem = bytes([80 + m]) + b''.join(bytes([len(x.public_byte)]) + x.public_byte for x in ks) + bytes([80 + n, 174])
        env = dict(env0, redeemscript=redeem)
        for variant in ('ok', 'missing', 'swapped', 'nodummy'):
            ss = list(sigs)
            if variant == 'missing':
                ss = ss[:-1] + [bad]
            if variant == 'swapped' and len(ss) > 1:
                ss = ss[::-1]
            prog = ([0] if variant != 'nodummy' else []) + ss + [80 + m] + [x.public_byte for x in ks] + [80 + n, 174]
            cases.append((op_line(prog, env, msg), lib_eval(prog, env, msg), True))
            cases.append((op_line(prog, env0, msg), lib_eval(prog, env0, msg), True))
    compare_impl(cases, 'standard-spends')
    ctx.assumptions += ['consensus = my transcription of Bitcoin Core EvalScript (legacy rules, BIP65/66/112 active); size limits not modelled',
                        'signature checks in the driver: strict DER + independent secp256k1 verification of the supplied digest']


def replay(ctx, obj):
    op = obj['replay']['op']
    print('model:', run_driver([op])[0])
    run(ctx)
    bad = [v for v in ctx.violations if v['replay'].get('op') == op]
    print('still failing' if bad else 'no longer failing')
    return 1 if bad else 0
