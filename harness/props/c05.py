"""C05 — address <-> locking script mapping standard and mutually inverse; other network refused."""
from harness.core import hexp, run_driver
from harness.props.c11 import segwit_enc_ref, b58enc_ref, sha256d


def run(ctx):
    from bitcoinlib.transactions import Output, Transaction
    from bitcoinlib.keys import Address, HDKey, Key
    from bitcoinlib.networks import NETWORK_DEFINITIONS
    rng = ctx.rng
    T = ctx.thorough
    ctx.rule = ('destinations: 20/32-byte payloads (random, all-zero, ASCII-hex-looking, whitespace bytes), witness versions 0..16 x '
                'program lengths 2..40, every network and both encodings; outputs created from address strings, Address objects, HD keys, '
                'public keys, hashes and raw scripts; each address also offered to every other network. non-trivial = distinct op line')
    nets = list(NETWORK_DEFINITIONS)

    def payload(n):
        k = rng.random()
        if k < 0.12:
            # a hash that begins like a serialised witness program: <version opcode> <its own length - 2>
            return bytes([rng.choice([0x00, 0x51, 0x52, 0x60]), n - 2]) + bytes(rng.randrange(256) for _ in range(n - 2))
        k = rng.random()
        if k < 0.6:
            return bytes(rng.randrange(256) for _ in range(n))
        if k < 0.7:
            return b'\0' * n
        if k < 0.85:
            return bytes(rng.choice(b'0123456789abcdef') for _ in range(n))       # looks like hexadecimal text
        return bytes(rng.choice(b' \t\n0a') for _ in range(n))

    def att(fn):
        try:
            return fn()
        except Exception:
            return None

    def b58addr(pre_hex, h):
        raw = bytes.fromhex(pre_hex) + h
        return b58enc_ref(raw + sha256d(raw)[:4])

    addrs = []   # (net, address)
    for net in nets:
        d = NETWORK_DEFINITIONS[net]
        for _ in range(6 if T else 2):
            addrs.append((net, b58addr(d['prefix_address'], payload(20))))
            addrs.append((net, b58addr(d['prefix_address_p2sh'], payload(20))))
            addrs.append((net, segwit_enc_ref(d['prefix_bech32'], 0, payload(20))))
            addrs.append((net, segwit_enc_ref(d['prefix_bech32'], 0, payload(32))))
            addrs.append((net, segwit_enc_ref(d['prefix_bech32'], 1, payload(32))))
        for v in (range(2, 17) if T else rng.sample(range(2, 17), 3)):
            addrs.append((net, segwit_enc_ref(d['prefix_bech32'], v, payload(rng.choice([2, 20, 32, 40])))))
        addrs.append((net, segwit_enc_ref(d['prefix_bech32'], 1, payload(20))))
        addrs.append((net, segwit_enc_ref(d['prefix_bech32'], 0, payload(25))))      # invalid v0 length

    # ---- address -> script, on the own network and on every other network ---------------------------------
    cases = []
    for net, a in addrs:
        targets = nets if T else [net] + rng.sample(nets, 3)
        for tn in targets:
            o = att(lambda: Output(1000, address=a, network=tn))
            cases.append(('dest_script %s %s' % (tn, a), hexp(o.lock_script) if o is not None else 'none', True))
            # the address together with its OWN payload (a redundant, consistent argument): still the script of the address, still
            # refused on another network
            ap = att(lambda: Address.parse(a))
            if ap is not None and ap.hash_bytes:
                ctx.count('address+own-payload')
                o3 = att(lambda: Output(1000, address=a, public_hash=ap.hash_bytes, network=tn))
                cases.append(('dest_script %s %s' % (tn, a), hexp(o3.lock_script) if o3 is not None else 'none', True))
                if tn == net:
                    t3 = att(lambda: Transaction(network=tn))
                    r3 = att(lambda: t3.add_output(1000, a, public_hash=ap.hash_bytes)) if t3 is not None else None
                    cases.append(('dest_script %s %s' % (tn, a), hexp(t3.outputs[-1].lock_script) if r3 is not None and t3.outputs else 'none', True))
                    if o3 is not None and o3.address != a:
                        ctx.violation('an output built from an address and its own payload shows another address', {'op': 'dest_script %s %s' % (tn, a), 'observed': o3.address})
            if tn == net:
                ao = att(lambda: Address.parse(a))
                if ao is not None:
                    o2 = att(lambda: Output(1000, address=ao, network=tn))
                    cases.append(('dest_script %s %s' % (tn, a), hexp(o2.lock_script) if o2 is not None else 'none', True))
                t = att(lambda: Transaction(network=tn))
                if t is not None:
                    r = att(lambda: t.add_output(1000, a))
                    cases.append(('dest_script %s %s' % (tn, a), hexp(t.outputs[-1].lock_script) if r is not None and t.outputs else 'none', True))
    ctx.compare(cases, 'address-to-script')

    # ---- the generic encoders / converters of a destination: same string as the independent reference encoders ----------------------
    from bitcoinlib.encoding import pubkeyhash_to_addr
    from bitcoinlib.keys import addr_convert
    for net in (nets if T else rng.sample(nets, 5)):
        d = NETWORK_DEFINITIONS[net]
        for _ in range(4 if T else 2):
            h20, h32 = payload(20), payload(32)
            want58 = b58addr(d['prefix_address'], h20)
            want58s = b58addr(d['prefix_address_p2sh'], h20)
            wantw = segwit_enc_ref(d['prefix_bech32'], 0, h20)
            wantws = segwit_enc_ref(d['prefix_bech32'], 0, h32)
            wantt = segwit_enc_ref(d['prefix_bech32'], 1, h32)
            other_hrp = NETWORK_DEFINITIONS[rng.choice(nets)]['prefix_bech32']
            trials = [
                ('pubkeyhash_to_addr base58', lambda: pubkeyhash_to_addr(h20, prefix=bytes.fromhex(d['prefix_address']), encoding='base58'), want58),
                ('pubkeyhash_to_addr base58 hex hash', lambda: pubkeyhash_to_addr(h20.hex(), prefix=bytes.fromhex(d['prefix_address_p2sh']), encoding='base58'), want58s),
                ('pubkeyhash_to_addr bech32 v0/20', lambda: pubkeyhash_to_addr(h20, prefix=d['prefix_bech32'], encoding='bech32'), wantw),
                ('pubkeyhash_to_addr bech32 v0/32', lambda: pubkeyhash_to_addr(h32, prefix=d['prefix_bech32'], encoding='bech32', witver=0), wantws),
                ('pubkeyhash_to_addr bech32 v1/32', lambda: pubkeyhash_to_addr(h32, prefix=d['prefix_bech32'], encoding='bech32', witver=1), wantt),
                ('addr_convert base58->bech32', lambda: addr_convert(want58, d['prefix_bech32'], to_encoding='bech32'), wantw),
                ('addr_convert bech32->base58', lambda: addr_convert(wantw, bytes.fromhex(d['prefix_address']), to_encoding='base58'), want58),
                ('addr_convert bech32->base58 hex prefix', lambda: addr_convert(wantw, d['prefix_address_p2sh'], to_encoding='base58'), want58s),
                ('addr_convert base58->base58 other prefix', lambda: addr_convert(want58, bytes.fromhex(d['prefix_address_p2sh'])), want58s),
                ('addr_convert bech32 v1/32 -> bech32 of another network', lambda: addr_convert(wantt, other_hrp), segwit_enc_ref(other_hrp, 1, h32)),
                ('addr_convert bech32 v0/32 -> bech32 of another network', lambda: addr_convert(wantws, other_hrp), segwit_enc_ref(other_hrp, 0, h32)),
            ]
            for name, fn, want in trials:
                ctx.evals += 1
                ctx.count('generic:' + name)
                ctx.nontrivial.add(hash((name, want)))
                try:
                    got = fn()
                except Exception as e:
                    got = 'raise:%s' % type(e).__name__
                if got != want:
                    ctx.violation('generic address encoder / converter gives another address than the standard encoding of the same destination',
                                  {'op': 'generic ' + name, 'network': net, 'hash': (h32 if '32' in name else h20).hex(), 'observed': got, 'expected': want})

    # ---- Address OBJECTS made from a public key (not parsed from a string), of every address kind: the output pays the script of the
    # address the object shows; objects and keys of ANOTHER network are refused by a transaction; options do not empty the script
    from bitcoinlib.keys import Address as _Addr
    for net in (nets if T else rng.sample(nets, 4) + ['bitcoin']):
        kk = Key(rng.randrange(1, 2 ** 250), network=net)
        for st_, enc_ in (('p2pkh', 'base58'), ('p2sh_p2wpkh', 'base58'), ('p2wpkh', 'bech32')):
            ao = att(lambda: _Addr(kk.public_byte, script_type=st_, encoding=enc_, network=net))
            if ao is None:
                ctx.count('address-object-not-available:%s' % st_)
                continue
            ctx.count('address-object-from-key:' + st_)
            o1 = att(lambda: Output(1000, address=ao, network=net))
            cases.append(('dest_script %s %s' % (net, ao.address), hexp(o1.lock_script) if o1 is not None else 'none', True))
            t1 = att(lambda: Transaction(network=net))
            if t1 is not None:
                r1 = att(lambda: t1.add_output(1000, ao))
                cases.append(('dest_script %s %s' % (net, ao.address), hexp(t1.outputs[-1].lock_script) if r1 is not None and t1.outputs else 'none', True))
            # the same address string with strict=False: the script may not silently be left out
            for how_, mk in (('Output', lambda: Output(1000, address=ao.address, network=net, strict=False)),):
                o2 = att(mk)
                if o2 is not None and o2.lock_script == b'':
                    ctx.violation('an output built from an address has an empty locking script', {'op': 'dest_script %s %s' % (net, ao.address), 'how': how_ + '(strict=False)'})
            # another network's transaction must refuse the object (and the key it was made from)
            onet = rng.choice([n_ for n_ in nets if NETWORK_DEFINITIONS[n_]['prefix_bech32'] != NETWORK_DEFINITIONS[net]['prefix_bech32']
                               and NETWORK_DEFINITIONS[n_]['prefix_address'] != NETWORK_DEFINITIONS[net]['prefix_address']])
            t2 = att(lambda: Transaction(network=onet))
            if t2 is not None:
                ctx.evals += 1
                ctx.count('foreign-network-object')
                r2 = att(lambda: t2.add_output(1000, ao))
                if r2 is not None and t2.outputs:
                    ctx.violation('a transaction accepted an Address object of another network', {'op': 'foreign-object %s in %s' % (ao.address, onet), 'script': t2.outputs[-1].lock_script.hex()})
        hk_ = att(lambda: HDKey.from_seed(bytes(rng.randrange(256) for _ in range(32)), network=net))
        if hk_ is not None:
            onet = rng.choice([n_ for n_ in nets if NETWORK_DEFINITIONS[n_]['prefix_bech32'] != NETWORK_DEFINITIONS[net]['prefix_bech32']])
            t3 = att(lambda: Transaction(network=onet))
            if t3 is not None:
                ctx.evals += 1
                r3 = att(lambda: t3.add_output(1000, hk_))
                if r3 is not None and t3.outputs:
                    ctx.violation('a transaction accepted an HD key of another network as destination', {'op': 'foreign-hdkey %s in %s' % (net, onet), 'script': t3.outputs[-1].lock_script.hex()})
        # Address.parse told the wrong network
        for a_ in (segwit_enc_ref(NETWORK_DEFINITIONS[net]['prefix_bech32'], 0, payload(20)), b58addr(NETWORK_DEFINITIONS[net]['prefix_address'], payload(20))):
            onet = rng.choice([n_ for n_ in nets if NETWORK_DEFINITIONS[n_]['prefix_bech32'] != NETWORK_DEFINITIONS[net]['prefix_bech32']
                               and NETWORK_DEFINITIONS[n_]['prefix_address'] != NETWORK_DEFINITIONS[net]['prefix_address']])
            ctx.evals += 1
            ctx.count('address-parse-with-wrong-network')
            pr = att(lambda: _Addr.parse(a_, network=onet))
            if pr is not None:
                ctx.violation('Address.parse accepted an address for a network it does not belong to', {'op': 'parse %s as %s' % (a_, onet), 'observed_network': pr.network.name})
    ctx.compare(cases, 'address-objects')
    cases = []

    # ---- script -> address / type -----------------------------------------------------------------------------
    cases = []
    from harness.core import run_driver as rd
    scripts = []
    wit_future = []
    for _ in range(40 if T else 12):
        h20, h32 = payload(20), payload(32)
        scripts += [b'\x76\xa9\x14' + h20 + b'\x88\xac', b'\xa9\x14' + h20 + b'\x87', b'\x00\x14' + h20, b'\x00\x20' + h32, b'\x51\x20' + h32]
    for v in range(1, 17):
        for ln in ((2, 20, 32, 33, 40) if T else (20, 32)):
            scripts.append(bytes([0x50 + v, ln]) + payload(ln))
    for sc in scripts:
        for net in (nets if T else rng.sample(nets, 2) + ['bitcoin']):
            o = att(lambda: Output(1000, lock_script=sc, network=net, strict=False))
            if o is None:
                py = 'none'
            else:
                try:
                    py = '%s %s' % (o.script_type, o.address)
                except Exception as e:
                    py = '%s address-raises:%s' % (o.script_type, type(e).__name__)
                if o.lock_script != sc:
                    py += ' lock_script-changed:' + o.lock_script.hex()
            cases.append(('script_dest %s %s' % (net, sc.hex()), py, True))
            wit_future.append(len(cases) - 1)

    # witness programs other than v0/20, v0/32, v1/32 have no standard type name: only the address is compared
    specs = rd([c[0] for c in cases])
    cases2 = []
    for (op, py, nt), r in zip(cases, specs):
        if r.split(' | ')[0].startswith('witness_v'):
            addr_part = py.split(' ', 1)[1] if ' ' in py else ''
            proglen = len(op.split(' ')[2]) // 2 - 2
            if proglen not in (20, 32) and 'lock_script-changed' not in py:
                # a future witness program whose length is neither 20 nor 32 bytes: outside the standard destinations C05 quantifies over
                # (20/32-byte payloads); the script itself is kept byte for byte. The library mostly has no address for these
                # (EncodingError); for a few it reports one that is not the BIP350 address (DESIGN §8.2) - counted, not judged here
                ctx.count('future-witness-program-without-address' if (addr_part.strip() == '' or addr_part.startswith('address-raises:'))
                          else 'future-witness-program-other-length-with-some-address')
                continue
            py = 'witness_v%s %s' % (r.split(' | ')[0].split(' ')[0][9:], addr_part)
        cases2.append((op, py, nt))
    ctx.compare(cases2, 'script-to-address')

    # ---- outputs from keys / hashes: must be the standard script for that key's hash ------------------------------
    cases = []
    for net in (nets if T else rng.sample(nets, 4)):
        k = Key(rng.randrange(1, 2**255), network=net)
        d = NETWORK_DEFINITIONS[net]
        import hashlib
        from Crypto.Hash import RIPEMD160
        h = RIPEMD160.new(hashlib.sha256(k.public_byte).digest()).digest()
        a_p2pkh = b58addr(d['prefix_address'], h)
        for how, fn in (('public_key', lambda: Output(1000, public_key=k.public_byte, network=net)),
                        ('public_hash', lambda: Output(1000, public_hash=h, network=net)),
                        ('key-object', lambda: Output(1000, address=k.address(), network=net))):
            o = att(fn)
            ctx.count('from:' + how)
            ctx.evals += 1
            if how == 'key-object':
                cases.append(('dest_script %s %s' % (net, a_p2pkh), hexp(o.lock_script) if o is not None else 'none', True))
            elif o is None or o.lock_script not in (b'\x76\xa9\x14' + h + b'\x88\xac', b'\x00\x14' + h):
                # the default script type for a bare key / hash is the library's choice; it must commit to this key's hash
                ctx.violation('output built from a public key / hash does not commit to that key\'s hash',
                              {'op': 'output-from-' + how, 'network': net, 'pubkey': k.public_byte.hex(),
                               'observed': None if o is None else o.lock_script.hex()})
        # a bare 20-byte hash given as BYTES (whatever its bytes look like: hexadecimal digits, blanks, a witness-program header), through
        # the Output class and through Transaction.add_output: the script commits to exactly these 20 bytes
        for _ in range(4):
            hp = payload(20)
            for how, fn in (('Output(public_hash)', lambda: Output(1000, public_hash=hp, network=net)),
                            ('add_output(public_hash)', lambda: Transaction(network=net).add_output(1000, public_hash=hp) or True)):
                ctx.count('from-hash-bytes:' + how)
                ctx.evals += 1
                if how.startswith('add_output'):
                    t_ = att(lambda: Transaction(network=net))
                    r_ = att(lambda: t_.add_output(1000, public_hash=hp)) if t_ is not None else None
                    sc_ = t_.outputs[-1].lock_script if (t_ is not None and t_.outputs) else None
                else:
                    o_ = att(fn)
                    sc_ = None if o_ is None else o_.lock_script
                if sc_ is None or sc_ not in (b'\x76\xa9\x14' + hp + b'\x88\xac', b'\x00\x14' + hp):
                    ctx.violation('output built from a 20-byte hash given as bytes does not commit to these bytes',
                                  {'op': 'output-from-hash-bytes', 'how': how, 'network': net, 'hash': hp.hex(), 'observed': None if sc_ is None else sc_.hex()})
        hk = att(lambda: HDKey.from_seed(bytes(rng.randrange(256) for _ in range(32)), network=net, witness_type='segwit'))
        if hk is not None:
            hh = RIPEMD160.new(hashlib.sha256(hk.public_byte).digest()).digest()
            a = segwit_enc_ref(d['prefix_bech32'], 0, hh)
            o = att(lambda: Output(1000, address=hk.address(), network=net))
            cases.append(('dest_script %s %s' % (net, a), hexp(o.lock_script) if o is not None else 'none', True))
    ctx.compare(cases, 'key-to-script')

    # ---- an HD key handed to Output(...) after it was asked for other address forms: the output must still be the standard
    #      script of THAT key for ITS witness type, and Output.address the address of that script -------------------------------
    histories = [(), ('default',), ('bech32',), ('base58',), ('nested',), ('bech32', 'default'), ('nested', 'base58')]
    for net in ('bitcoin', 'testnet', 'litecoin'):
        d = NETWORK_DEFINITIONS[net]
        for wt in ('legacy', 'p2sh-segwit', 'segwit'):
            for hist in (histories if T else rng.sample(histories, 4)):
                hk = att(lambda: HDKey.from_seed(bytes(rng.randrange(256) for _ in range(32)), network=net, witness_type=wt))
                if hk is None:
                    continue
                hh = RIPEMD160.new(hashlib.sha256(hk.public_byte).digest()).digest()
                for stepname in hist:
                    att({'default': lambda: hk.address(), 'bech32': lambda: hk.address(encoding='bech32'),
                         'base58': lambda: hk.address(encoding='base58'),
                         'nested': lambda: hk.address(script_type='p2sh_p2wpkh', encoding='base58')}[stepname])
                if wt == 'legacy':
                    want_script = b'\x76\xa9\x14' + hh + b'\x88\xac'
                    want_addr = b58addr(d['prefix_address'], hh)
                elif wt == 'segwit':
                    want_script = b'\x00\x14' + hh
                    want_addr = segwit_enc_ref(d['prefix_bech32'], 0, hh)
                else:
                    rh = RIPEMD160.new(hashlib.sha256(b'\x00\x14' + hh).digest()).digest()
                    want_script = b'\xa9\x14' + rh + b'\x87'
                    want_addr = b58addr(d['prefix_address_p2sh'], rh)
                o = att(lambda: Output(1000, address=hk, network=net))
                ctx.evals += 1
                ctx.count('from:hdkey-object-after-history')
                ctx.nontrivial.add(hash((net, wt, hist)))
                got = None if o is None else (o.lock_script.hex(), o.address)
                if got != (want_script.hex(), want_addr):
                    ctx.violation('an output built from an HD key is not the standard script / address of that key',
                                  {'op': 'output-from-hdkey', 'network': net, 'witness_type': wt, 'address_calls_before': list(hist),
                                   'observed': got, 'expected': (want_script.hex(), want_addr)})
    ctx.exhaustive = False
    ctx.assumptions += ['networks that share a version byte / HRP in the library\'s own table (e.g. bitcoin and regtest Base58 versions) are not '
                        'distinguishable; the Spec accepts an address on every network whose table entry matches']


def replay(ctx, obj):
    op = obj['replay']['op']
    print('model:', run_driver([op])[0])
    run(ctx)
    bad = [v for v in ctx.violations if v['replay'].get('op') == op]
    print('still failing' if bad else 'no longer failing')
    return 1 if bad else 0
