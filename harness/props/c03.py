"""C03 — BIP32 derivation; public/private derivation agree; hardened never from public."""
from harness.core import hexp, run_driver


def dump(k):
    return '%s depth=%d fp=%s child=%d chain=%s key=%s pub=%s' % (
        'priv' if k.is_private else 'pub', k.depth, k.parent_fingerprint.hex(), k.child_index, k.chain.hex(),
        k.private_byte.hex() if k.is_private else '-', k.public_byte.hex())


def run(ctx):
    from bitcoinlib.keys import HDKey
    rng = ctx.rng
    T = ctx.thorough
    ctx.rule = ('seeds of 16..64 bytes; paths to depth 8 (thorough 20) over indices {0,1,2,2^31-2,2^31-1,2^31,2^31+1,2^32-1,random}, every '
                'hardened marker spelling, m/ and M/ prefixes; every split point between private and public derivation (public part '
                'imported from the exported xpub string); direct child_private/child_public calls at the index boundaries. '
                'non-trivial = distinct op line that derives at least one child')
    MARK = ["'", 'h', 'H', 'p', 'P']
    IDX = [0, 1, 2, 2**31 - 2, 2**31 - 1]

    def rand_item(allow_hard=True, allow_big=True):
        k = rng.random()
        if k < 0.5:
            n = rng.choice(IDX)
        elif k < 0.8:
            n = rng.randrange(2**31)
        elif allow_big and k < 0.9:
            return str(rng.choice([2**31, 2**31 + 1, 2**32 - 1, 2**32, rng.randrange(2**31, 2**32)]))
        else:
            n = rng.randrange(100)
        if allow_hard and rng.random() < 0.4:
            return str(n) + rng.choice(MARK)
        return str(n)

    def attempt(fn):
        try:
            return dump(fn())
        except Exception:
            return 'none'

    seeds = [bytes(range(16)), bytes([0xff] * 64), b'\x00' * 16 + b'\x01' * 16] + \
            [bytes(rng.randrange(256) for _ in range(rng.choice([16, 20, 24, 32, 33, 48, 64]))) for _ in range(30 if T else 8)]
    cases = []
    # BIP32 test vector 1 and 2 chains as corpus
    corpus = [('000102030405060708090a0b0c0d0e0f', "m/0'/1/2'/2/1000000000"),
              ('fffcf9f6f3f0edeae7e4e1dedbd8d5d2cfccc9c6c3c0bdbab7b4b1aeaba8a5a29f9c999693908d8a8784817e7b7875726f6c696663605d5a5754514e4b484542',
               "m/0/2147483647'/1/2147483646'/2"), ('4b381541583be4423346c643850da4b320e46a87ae3d2a4e6da11eba819cd4acba45d239319ac14f863b8d5ab5a0d0c64d2e8a1e7d1457df2e5a3c51c73235be', "m/0'")]
    for sh, p in corpus:
        cases.append(('bip32 %s %s' % (sh, p), attempt(lambda: HDKey.from_seed(bytes.fromhex(sh)).subkey_for_path(p)), True))
    for seed in seeds:
        master = HDKey.from_seed(seed)
        for _ in range(40 if T else 14):
            depth = rng.randint(1, 20 if T else 8)
            if rng.random() < 0.15:
                depth = 1
            prefix = rng.choice(['m', 'm', 'm', 'M', ''])
            items = [rand_item(allow_hard=True) for _ in range(depth)]
            path = '/'.join(([prefix] if prefix else []) + items)
            cases.append(('bip32 %s %s' % (seed.hex(), path), attempt(lambda: master.subkey_for_path(path)), True))
        # a master key object created with compressed=False (addresses of the uncompressed form) still derives the BIP32 children;
        # a hardened marker on a number from 2^31 on is not a child number
        mu = attempt(lambda: HDKey.from_seed(seed, compressed=False))
        for pth in ('m/0', "m/1'/2", 'm/2147483647/5', 'M/3/4'):
            cases.append(('bip32 %s %s' % (seed.hex(), pth), attempt(lambda: HDKey.from_seed(seed, compressed=False).subkey_for_path(pth)), True))
        for pth in ("m/2147483648'", 'm/0/2147483649h', "m/4294967295'"):
            cases.append(('bip32 %s %s' % (seed.hex(), pth), attempt(lambda: master.subkey_for_path(pth)), True))
        # the prefixes alone: 'm' is the key itself, 'M' its public part (on the master and on a derived key)
        for base in ([], ['m', "3'", '7']):
            def bare(prefix_, base_=base):
                k0 = master.subkey_for_path('/'.join(base_)) if base_ else master
                return k0.subkey_for_path(prefix_)
            for prefix_ in ('m', 'M'):
                pth = '/'.join(base) if base else 'm'
                if prefix_ == 'm':
                    cases.append(('bip32 %s %s' % (seed.hex(), pth), attempt(lambda: bare(prefix_)), True))
                else:
                    cases.append(('bip32_split %s %s -' % (seed.hex(), pth), attempt(lambda: bare(prefix_)), True))
        # every split point of a path with non-hardened tail
        for _ in range(6 if T else 2):
            p1 = ['m'] + [rand_item(allow_big=False) for _ in range(rng.randint(0, 4))]
            p2 = [rand_item(allow_hard=False, allow_big=False) for _ in range(rng.randint(1, 5))]
            for cut in range(len(p2) + 1):
                a, b = p1 + p2[:cut], p2[cut:]

                def split():
                    k = master.subkey_for_path('/'.join(a))
                    pub = HDKey(k.wif_public())
                    return pub.subkey_for_path('/'.join(b)) if b else pub
                cases.append(('bip32_split %s %s %s' % (seed.hex(), '/'.join(a), '/'.join(b) or '-'), attempt(split), True))
            # a hardened element after the split must fail, in every spelling
            for mk in MARK:
                b = [str(rng.choice([0, 1, 5])) + mk]

                def split_h():
                    k = master.subkey_for_path('/'.join(p1))
                    return HDKey(k.wif_public()).subkey_for_path('/'.join(b))
                cases.append(('bip32_split %s %s %s' % (seed.hex(), '/'.join(p1), '/'.join(b)), attempt(split_h), True))
                cases.append(('bip32 %s M/%s' % (seed.hex(), b[0]), attempt(lambda: master.subkey_for_path('M/' + b[0])), True))
        # relative derivation on a derived PRIVATE key (two steps on objects) and through `.public()` (no string export in between)
        for _ in range(4 if T else 2):
            a = ['m'] + [rand_item(allow_big=False) for _ in range(rng.randint(1, 3))]
            b = [rand_item(allow_big=False) for _ in range(rng.randint(1, 3))]
            cases.append(('bip32 %s %s' % (seed.hex(), '/'.join(a + b)),
                          attempt(lambda: master.subkey_for_path('/'.join(a)).subkey_for_path('/'.join(b))), True))
            b2 = [rand_item(allow_hard=False, allow_big=False) for _ in range(rng.randint(1, 3))]
            cases.append(('bip32_split %s %s %s' % (seed.hex(), '/'.join(a), '/'.join(b2)),
                          attempt(lambda: master.subkey_for_path('/'.join(a)).public().subkey_for_path('/'.join(b2))), True))
            cases.append(('bip32_split %s %s %s' % (seed.hex(), '/'.join(a), '/'.join(b2)),
                          attempt(lambda: master.subkey_for_path('/'.join(a)).subkey_for_path('M/' + '/'.join(b2))), True))
        # direct calls at the boundaries
        for i in (0, 1, 2**31 - 1, 2**31, 2**31 + 1, 2**32 - 1):
            cases.append(('bip32_split %s m %d' % (seed.hex(), i), attempt(lambda: master.public().child_public(i)), True))
            cases.append(('bip32 %s m/%d' % (seed.hex(), i), attempt(lambda: master.child_private(index=i, hardened=False)), True))
            if i < 2**31:
                cases.append(('bip32 %s m/%dh' % (seed.hex(), i), attempt(lambda: master.child_private(index=i, hardened=True)), True))
    ctx.compare(cases, 'derive')
    ctx.exhaustive = False
    ctx.assumptions += ['secp256k1 group law, HMAC-SHA512, RIPEMD160 in the driver are executable reference code (BIP32 vectors + agreement with the library)',
                        'an unmarked path element >= 2^31 denotes the hardened child with that number (BIP32 child numbers are 32-bit; 2^31+i = i\')']


def replay(ctx, obj):
    op = obj['replay']['op']
    print('model:', run_driver([op])[0])
    run(ctx)
    bad = [v for v in ctx.violations if v['replay'].get('op') == op]
    print('still failing' if bad else 'no longer failing')
    return 1 if bad else 0
