"""C01 — signed digests equal the consensus sighash (legacy and BIP143)."""
from harness.core import hexp, run_driver
from harness import txgen


def run(ctx):
    from bitcoinlib.transactions import Transaction
    from bitcoinlib.networks import NETWORK_DEFINITIONS
    rng = ctx.rng
    T = ctx.thorough
    ctx.rule = ('transactions built through the API over 8 spend kinds (P2PKH compressed/uncompressed, P2PK, P2SH multisig, P2WPKH, '
                'P2WSH multisig, P2SH-P2WPKH, P2SH-P2WSH multisig), 1..4 inputs (thorough: up to 254 and m-of-n up to 15), every '
                'network; for every input the library\'s signature_hash is compared with the consensus digest the Lean model '
                'computes from the harness\'s own serialisation + script code + amount; then the library signs and every produced '
                'signature is verified by the Lean secp256k1 ECDSA against that digest. non-trivial = distinct (tx, input) pair')
    nets = list(NETWORK_DEFINITIONS)
    n_tx = 400 if T else 70
    cases = []
    sigchecks = []
    for trial in range(n_tx):
        net = rng.choice(nets) if rng.random() < 0.5 else 'bitcoin'
        big = T and trial % 40 == 0
        # some transaction OBJECTS are created as 'legacy' although they get segwit inputs (a legacy wallet with a segwit key): the
        # library may refuse to hash / sign such an input, but it must not sign another digest
        legacy_typed = (not big) and trial % 7 == 3
        t, d = txgen.build_api_tx(rng, network=net, nin=(rng.choice([252, 253, 254]) if big else None),
                                  nout=(rng.choice([252, 253, 254]) if big and rng.random() < 0.5 else None),
                                  max_n=(15 if T and trial % 10 == 0 else 4), tx_witness_type='legacy' if legacy_typed else 'segwit')
        d['version'] = t.version_int
        raw = txgen.ser_tx(d)
        for i, m in enumerate(d['meta']):
            for ht in ([1] if (i % 3 or not m['wt'] == 'segwit') else [1, 2, 3, 0x81, 0x82, 0x83]):
                try:
                    h = t.signature_hash(i, ht, t.inputs[i].witness_type).hex()
                except Exception as e:
                    h = 'raise:' + type(e).__name__
                if legacy_typed and h.startswith('raise:') and m['wt'] == 'segwit':
                    ctx.count('legacy-typed-transaction-refuses-segwit-input')
                    continue
                cases.append(('sighash %s %d %s %d %d %s' % (raw.hex(), i, hexp(m['sc']), m['val'], ht, m['wt']), h, True))
                if ht == 1 and not legacy_typed and i < 4:
                    # asked without naming the kind of input: the digest for input i is the digest of THAT input's kind
                    try:
                        h0 = t.signature_hash(i).hex()
                    except Exception as e:
                        h0 = 'raise:' + type(e).__name__
                    ctx.count('digest-by-input-number-only')
                    cases.append(('sighash %s %d %s %d %d %s' % (raw.hex(), i, hexp(m['sc']), m['val'], 1, m['wt']), h0, True))
        # history: the transaction object is changed IN PLACE after digests were computed (same numbers of inputs and outputs);
        # the digests computed afterwards must be those of the transaction as it now is
        if not big and trial % 2 == 0:
            import copy
            d2 = copy.deepcopy({k: v for k, v in d.items() if k != 'meta'})
            edits = []
            if t.outputs and rng.random() < 0.8:
                j = rng.randrange(len(t.outputs))
                nv = (d['outs'][j][0] + rng.choice([1, 1000, 2 ** 32])) % (21 * 10 ** 14)
                t.outputs[j].value = nv
                d2['outs'][j] = (nv, d['outs'][j][1])
                edits.append('output value')
            if rng.random() < 0.6:
                j = rng.randrange(len(t.inputs))
                ns = rng.choice([0, 1, 10, 0xfffffffd])
                t.inputs[j].sequence = ns
                d2['ins'][j] = (d['ins'][j][0], d['ins'][j][1], d['ins'][j][2], ns)
                edits.append('sequence')
            if rng.random() < 0.5:
                t.locktime = (t.locktime + 7) % 2 ** 32
                d2['locktime'] = t.locktime
                edits.append('locktime')
            raw2 = txgen.ser_tx(d2)
            for i, m in enumerate(d['meta']):
                try:
                    h = t.signature_hash(i, 1, t.inputs[i].witness_type).hex()
                except Exception as e:
                    h = 'raise:' + type(e).__name__
                ctx.count('digest-after-in-place-edit')
                if legacy_typed and h.startswith('raise:') and m['wt'] == 'segwit':
                    continue
                cases.append(('sighash %s %d %s %d %d %s' % (raw2.hex(), i, hexp(m['sc']), m['val'], 1, m['wt']), h, True))
            d = dict(d2, meta=d['meta'])
            raw = raw2
        # sign with all keys, then check every signature the library placed in the transaction
        if not big:
            try:
                for i, m in enumerate(d['meta']):
                    t.sign(m['keys'], index_n=i)
                ok = t.verify()
            except Exception as e:
                if legacy_typed and isinstance(e, AssertionError):
                    ctx.count('legacy-typed-transaction-refuses-to-sign-segwit-input')
                    continue
                ctx.violation('signing a standard transaction raised', {'op': 'sign', 'error': repr(e), 'raw': raw.hex()})
                continue
            if not ok:
                ctx.violation('library does not verify its own fully signed transaction', {'op': 'sign', 'raw': t.raw_hex()})
            for i, m in enumerate(d['meta']):
                inp = t.inputs[i]
                sigs = [s for s in inp.signatures]
                if len(sigs) < m['m']:
                    ctx.violation('fewer signatures than required after signing with all keys',
                                  {'op': 'sign', 'input': i, 'kind': m['kind'], 'have': len(sigs), 'need': m['m']})
                sigchecks.append((raw, i, m, [s.as_der_encoded()[:-1] if s.as_der_encoded()[-1:] == bytes([s.hash_type]) else s.as_der_encoded() for s in sigs],
                                  [k.public_byte for k in m['keys']]))
    # ---- key-less inputs: the output being spent is named by its address or its scriptPubKey only, and ALL keys are handed to one sign()
    # call in any order (with a stranger among them): the digest of input i commits to the script code of the key of THAT output
    from bitcoinlib.transactions import Transaction as _Tx
    from bitcoinlib.keys import Key as _Key
    for trial in range(40 if T else 12):
        nin_ = rng.randint(2, 3)
        ks_ = [_Key(rng.randrange(2 ** 200, 2 ** 250)) for _ in range(nin_)]
        t = _Tx(network='bitcoin', witness_type='segwit', version=2, locktime=0)
        ins_, meta_ = [], []
        for k_ in ks_:
            kind_ = rng.choice(['p2pkh', 'p2wpkh', 'p2sh_p2wpkh'])
            wt_ = {'p2pkh': 'legacy', 'p2wpkh': 'segwit', 'p2sh_p2wpkh': 'p2sh-segwit'}[kind_]
            h_ = txgen._h160(k_.public_byte)
            spk_ = {'p2pkh': b'\x76\xa9\x14' + h_ + b'\x88\xac', 'p2wpkh': b'\x00\x14' + h_,
                    'p2sh_p2wpkh': b'\xa9\x14' + txgen._h160(b'\x00\x14' + h_) + b'\x87'}[kind_]
            txid_, n_, val_, seq_ = txgen.rbytes(rng, 32), rng.randrange(4), rng.choice([5000, 123456, 2 ** 32 + 7]), rng.choice([0xffffffff, 0xfffffffd])
            # (a P2SH scriptPubKey alone does not say what is nested in it: the nested kind is named by its address form only)
            form_ = rng.choice(['address', 'locking_script']) if kind_ != 'p2sh_p2wpkh' else 'address'
            ctx.count('key-less-input:' + form_)
            if form_ == 'address':
                t.add_input(txid_, n_, address=k_.address(encoding='bech32' if kind_ == 'p2wpkh' else 'base58', script_type=kind_), value=val_, witness_type=wt_, sequence=seq_)
            else:
                t.add_input(txid_, n_, locking_script=spk_, value=val_, witness_type=wt_, sequence=seq_)
            ins_.append((txid_[::-1], n_, b'', seq_))
            meta_.append((b'\x76\xa9\x14' + h_ + b'\x88\xac', val_, 'legacy' if kind_ == 'p2pkh' else 'segwit'))
        osp_ = b'\x00\x14' + txgen.rbytes(rng, 20)
        t.add_output(1000, lock_script=osp_)
        rawk = txgen.ser_tx({'version': 2, 'ins': ins_, 'outs': [(1000, osp_)], 'wit': None, 'locktime': 0})
        kl_ = list(ks_) + ([_Key(rng.randrange(2 ** 200, 2 ** 250))] if rng.random() < 0.5 else [])
        rng.shuffle(kl_)
        try:
            t.sign(kl_, fail_on_unknown_key=False)
        except Exception as e:
            ctx.violation('signing key-less inputs with the list of their keys raised', {'op': 'sign-key-less', 'error': repr(e)[:160]})
            continue
        for i, (sc_, val_, wtm_) in enumerate(meta_):
            try:
                h = t.signature_hash(i, 1, t.inputs[i].witness_type).hex()
            except Exception as e:
                h = 'raise:' + type(e).__name__
            cases.append(('sighash %s %d %s %d %d %s' % (rawk.hex(), i, hexp(sc_), val_, 1, wtm_), h, True))
            if len(t.inputs[i].signatures) != 1 or txgen._h160(t.inputs[i].keys[0].public_byte) != txgen._h160(ks_[i].public_byte):
                ctx.violation('a key-less input signed with the list of all keys does not carry the signature of the key of its output',
                              {'op': 'sign-key-less', 'input': i, 'signatures': len(t.inputs[i].signatures)})
    # ---- lengths at the CompactSize thresholds inside the preimage: an output script of 252 / 253 / 65535 / 65536 bytes
    for ln in (252, 253, 65535, 65536):
        t, d = txgen.build_api_tx(rng, nin=2, nout=1, max_n=2)
        big = b'\x6a' + b'\x61' * (ln - 1)
        try:
            t.add_output(0, lock_script=big)
        except Exception as e:
            ctx.count('big-output-script-refused')
            continue
        d['outs'] = d['outs'] + [(0, big)]
        d['version'] = t.version_int
        rawb = txgen.ser_tx(d)
        ctx.count('output-script-length:%d' % ln)
        for i, m in enumerate(d['meta']):
            try:
                h = t.signature_hash(i, 1, t.inputs[i].witness_type).hex()
            except Exception as e:
                h = 'raise:' + type(e).__name__
            cases.append(('sighash %s %d %s %d %d %s' % (rawb.hex(), i, hexp(m['sc']), m['val'], 1, m['wt']), h, True))
    # ---- merged transactions (t1 + t2 / merge_transaction): inputs and outputs are re-ordered and re-signed by the library; the digest of
    # every input must be the consensus digest of the merged transaction as serialised, and the new signatures must be valid for it
    for trial in range(40 if T else 10):
        net = rng.choice(nets) if rng.random() < 0.3 else 'bitcoin'
        ta, da = txgen.build_api_tx(rng, network=net, nin=rng.randint(1, 3), nout=rng.randint(1, 2), max_n=3)
        tb, db = txgen.build_api_tx(rng, network=net, nin=rng.randint(1, 2), nout=rng.randint(1, 2), max_n=3)
        try:
            ta.sign(); tb.sign()
            if rng.random() < 0.5:
                tm = ta + tb
            else:
                ta.merge_transaction(tb)
                tm = ta
        except Exception as e:
            ctx.violation('merging two signed transactions raised', {'op': 'merge', 'error': repr(e)[:150]})
            continue
        by_in = {(i_[0][::-1], i_[1]): (i_, m_) for dd in (da, db) for i_, m_ in zip(dd['ins'], dd['meta'])}
        try:
            ins_m, meta_m = [], []
            for inp in tm.inputs:
                i_, m_ = by_in[(inp.prev_txid, inp.output_n_int)]
                ins_m.append((i_[0], i_[1], i_[2], inp.sequence))
                meta_m.append(m_)
            outs_m = [(o.value, o.lock_script) for o in tm.outputs]
        except KeyError:
            ctx.violation('a merged transaction has an input that neither part had', {'op': 'merge', 'raw': tm.raw_hex()})
            continue
        if sorted(outs_m) != sorted(da['outs'] + db['outs']) or len(ins_m) != len(da['ins']) + len(db['ins']):
            ctx.violation('a merged transaction does not have the inputs and outputs of its parts', {'op': 'merge', 'raw': tm.raw_hex()})
            continue
        dm = {'version': tm.version_int, 'ins': ins_m, 'outs': outs_m, 'wit': None, 'locktime': tm.locktime}
        rawm = txgen.ser_tx(dm)
        ctx.count('merged-transaction')
        for i, m in enumerate(meta_m):
            try:
                h = tm.signature_hash(i, 1, tm.inputs[i].witness_type).hex()
            except Exception as e:
                h = 'raise:' + type(e).__name__
            cases.append(('sighash %s %d %s %d %d %s' % (rawm.hex(), i, hexp(m['sc']), m['val'], 1, m['wt']), h, True))
            sigs = list(tm.inputs[i].signatures)
            if len(sigs) < m['m']:
                ctx.violation('fewer signatures than required after merging (the merge re-signs)', {'op': 'merge-sign', 'input': i, 'kind': m['kind'],
                                                                                                   'have': len(sigs), 'need': m['m']})
            sigchecks.append((rawm, i, m, [s_.as_der_encoded()[:-1] if s_.as_der_encoded()[-1:] == bytes([s_.hash_type]) else s_.as_der_encoded() for s_ in sigs],
                              [k.public_byte for k in m['keys']]))
    ctx.compare(cases, 'api')

    # every signature must verify under one of the input's keys, against the Lean-computed consensus digest
    lines, idx = [], []
    dig = run_driver(['sighash %s %d %s %d 1 %s' % (raw.hex(), i, hexp(m['sc']), m['val'], m['wt']) for raw, i, m, _, _ in sigchecks])
    for (raw, i, m, ders, pubs), dline in zip(sigchecks, dig):
        digest = dline.split(' | ')[0].strip()
        for der in ders:
            for pk in pubs:
                lines.append('ecdsa_verify %s %s %s' % (pk.hex(), digest, der.hex()))
                idx.append((raw, i, m['kind'], der, pk))
    res = run_driver(lines)
    per_sig = {}
    for (raw, i, kind, der, pk), r in zip(idx, res):
        v = r.split(' | ')[0].strip()
        key = (raw, i, der)
        per_sig.setdefault(key, []).append(v)
        ctx.evals += 1
    for (raw, i, der), vs_ in per_sig.items():
        ctx.traces += 1
        ctx.count('signature-checked-by-lean-ecdsa')
        ctx.nontrivial.add(hash((raw, i, der)))
        if not any(v.startswith('true') for v in vs_):
            ctx.violation('a signature produced by the library is not valid for the consensus digest under any key of the input',
                          {'op': 'ecdsa_verify', 'rawtx': raw.hex(), 'input': i, 'der': der.hex(), 'results': vs_,
                           'kind': [k for (r_, i_, k, d_, p_) in idx if r_ == raw and i_ == i][0]})
        elif not any(v == 'true lows' for v in vs_):
            ctx.count('high-s-signature (reported under C13)')
    ctx.exhaustive = False
    ctx.assumptions += ['FindAndDelete / OP_CODESEPARATOR are not modelled (the library never produces such scripts)',
                        'legacy non-ALL hash types are not implemented by the library (it refuses to sign them); compared for BIP143 only']


def replay(ctx, obj):
    op = obj['replay']['op']
    print('model:', run_driver([op])[0])
    run(ctx)
    bad = [v for v in ctx.violations if v['replay'].get('op') == op]
    print('still failing' if bad else 'no longer failing')
    return 1 if bad else 0
