"""C10 - multisig cosigner wallets: same script / address for the same path in every cosigner wallet (against the Lean
redeem-script and address functions on independently derived keys) and signing ceremonies in every order and through
every hand-off form (against the Lean signer-set / verification-loop model)."""
import os, itertools

from harness.core import run_driver, Infra

EXT = 'bc1qw508d6qejxtdg4y5r3zarvary0c5xw7kv8f3t4'
PUSHED = []
ADDR = {'legacy': ('base58', 'p2sh'), 'p2sh-segwit': ('base58', 'p2sh_p2wsh'), 'segwit': ('bech32', 'p2wsh')}


def install_fake_service():
    import bitcoinlib.wallets as W
    from bitcoinlib.transactions import Transaction

    class FakeService:
        def __init__(self, *a, **k):
            self.results = {'fake': 1}
            self.errors = {}
            self.complete = True

        def estimatefee(self, blocks=3, priority=''):
            return 20000

        def blockcount(self):
            return 800000

        def sendrawtransaction(self, raw):
            PUSHED.append(raw)
            return {'txid': Transaction.parse_hex(raw).txid, 'response_dict': {}}

    W.Service = FakeService


def cosigner_path(wt, cosigner_id, change, index):
    if wt == 'legacy':
        return "m/45'/%d/%d/%d" % (cosigner_id, change, index)
    return "m/48'/0'/0'/%d'/%d/%d" % (1 if wt == 'p2sh-segwit' else 2, change, index)


class Group:
    """n cosigner seeds, threshold m, one witness type: the wallets of every holder for one order of supplied keys"""

    def __init__(self, ctx, wt, m, n, tag):
        from bitcoinlib.keys import HDKey
        self.ctx, self.wt, self.m, self.n, self.tag = ctx, wt, m, n, tag
        rng = ctx.rng
        self.seeds = [bytes(rng.randrange(256) for _ in range(32)) for _ in range(n)]
        self.masters = [HDKey.from_seed(s, witness_type=wt, multisig=True, network='bitcoin') for s in self.seeds]
        self.pubs = [mk.public_master_multisig(witness_type=wt) for mk in self.masters]
        self.db = 'sqlite:///' + os.path.join(os.environ['BCL_DATA_DIR'], 'c10_%s_%d%d_%s_%s.sqlite' % (wt.replace('-', '_'), m, n, ctx.seed, tag))
        self.count = 0

    def wallet(self, holder, order):
        from bitcoinlib.wallets import Wallet
        self.count += 1
        keys = [self.masters[j] if j == holder else self.pubs[j] for j in order]
        return Wallet.create('w%d_h%d_%s' % (self.count, holder, ''.join(map(str, order))), keys=keys, sigs_required=self.m, witness_type=self.wt,
                             network='bitcoin', db_uri=self.db)

    def expected(self, cosigner_id, change, index):
        """redeem script and address from the seeds alone (Lean BIP32, sorting, script, address)"""
        path = cosigner_path(self.wt, cosigner_id, change, index)
        lines = ['bip32 %s %s' % (s.hex(), path) for s in self.seeds]
        pubs = []
        for r in run_driver(lines):
            f = dict(x.split('=') for x in r.split(' | ')[0].split(' ')[1:])
            pubs.append(f['pub'])
        script = run_driver(['ms_script %d %s' % (self.m, ','.join(pubs))])[0].split(' | ')[0]
        enc, typ = ADDR[self.wt]
        addr = run_driver(['addr bitcoin %s %s %s' % (enc, typ, script)])[0].split(' | ')[0]
        # position of every cosigner's key in the sorted key list of this path
        pos = {j: sorted(pubs).index(pubs[j]) for j in range(self.n)}
        return script, addr, pos


def part_addresses(ctx, wt, m, n, thorough):
    g = Group(ctx, wt, m, n, 'addr')
    orders = list(itertools.permutations(range(n)))
    cap = 3 if not thorough else 12
    if len(orders) > cap:
        orders = [orders[i] for i in sorted(ctx.rng.sample(range(len(orders)), cap))]
    paths = [(0, 0, 0), (0, 0, 1), (0, 1, 0), (0, 0, 5)]
    if wt == 'legacy':
        paths += [(1, 0, 0), (n - 1, 1, 2)]
    exp = {p: g.expected(*p) for p in paths}
    for holder in range(n):
        for order in orders:
            w = g.wallet(holder, order)
            for p in paths:
                cos, chg, idx = p
                ctx.evals += 1
                ctx.count('address:%s' % wt)
                try:
                    k = w.key_for_path([chg, idx], cosigner_id=cos)
                    got = k.address
                except Exception as e:
                    got = 'raise:%s:%s' % (type(e).__name__, str(e)[:60])
                if got != exp[p][1]:
                    ctx.violation('a cosigner wallet derives a different address for the same path',
                                  {'op': 'address', 'wt': wt, 'm': m, 'n': n, 'holder': holder, 'order_of_supplied_keys': order, 'path': cosigner_path(wt, cos, chg, idx),
                                   'observed': got, 'expected (sorted keys, Lean)': exp[p][1]})
                    return
            # the same through get_key(cosigner_id=...): the first unused key of that cosigner's chain is the key of index 0 of that chain,
            # whichever cosigner the wallet itself is (an explicit cosigner 0 is cosigner 0)
            for cos in ((0, 1) if wt == 'legacy' else (0,)):
                ctx.evals += 1
                ctx.count('address-by-get_key:%s' % wt)
                try:
                    got = w.get_key(cosigner_id=cos).address
                except Exception as e:
                    got = 'raise:%s:%s' % (type(e).__name__, str(e)[:60])
                if got != exp[(cos, 0, 0)][1]:
                    ctx.violation('a cosigner wallet hands out a different address for the first key of a cosigner',
                                  {'op': 'address get_key', 'wt': wt, 'm': m, 'n': n, 'holder': holder, 'order_of_supplied_keys': order, 'own_cosigner_id': w.cosigner_id,
                                   'asked_cosigner_id': cos, 'observed': got, 'expected (sorted keys, Lean)': exp[(cos, 0, 0)][1]})
                    return
    ctx.nontrivial.add(hash(('addr', wt, m, n)))


def part_signing(ctx, wt, m, n, how, thorough):
    """every signing order (incl. a cosigner signing twice) through one hand-off form"""
    from bitcoinlib.wallets import WalletError
    g = Group(ctx, wt, m, n, 'sign_' + how)
    script, addr, pos = g.expected(0, 0, 0)
    ws = [g.wallet(i, tuple(range(n))) for i in range(n)]
    for w_ in ws:
        k = w_.key_for_path([0, 0], cosigner_id=0)
        if k.address != addr:
            ctx.violation('a cosigner wallet derives a different address for the same path',
                          {'op': 'address', 'wt': wt, 'm': m, 'n': n, 'handoff': how, 'observed': k.address, 'expected (sorted keys, Lean)': addr})
            return
    txn = [0]
    auto_done = [False]
    sequences = []
    for k in range(1, n + 1):
        sequences += list(itertools.permutations(range(n), k))
    sequences += [(0, 0), (n - 1, 0, n - 1)]
    cap = 7 if not thorough else 40
    if len(sequences) > cap:
        must = [s for s in sequences if len(s) in (m - 1, m)]
        must = [must[i] for i in sorted(ctx.rng.sample(range(len(must)), min(len(must), cap // 2)))]
        # ceremonies that go on well beyond the threshold (m + 2 signers and more: every cosigner signs)
        full = [s for s in sequences if len(s) == n and n >= m + 2]
        must += [full[i] for i in sorted(ctx.rng.sample(range(len(full)), min(len(full), 2 if not thorough else 8)))]
        rest = [s for s in sequences if s not in must]
        sequences = must + [rest[i] for i in sorted(ctx.rng.sample(range(len(rest)), min(cap - len(must), len(rest))))]
    f26 = next((f for f in ctx.known if f['id'] == 'F26'), None)
    for seq in sequences:
        txn[0] += 1
        txid = '%064x' % (0xabc000 + txn[0])
        # the spent outputs: one or two, with output numbers that differ from their position in the spend
        outns = ctx.rng.choice([[0], [3], [2, 0], [1, 4], [2, 0], [1, 4, 0]])
        # (mostly every cosigner wallet has seen the outputs; sometimes only the creator's has - the others get to know them from the hand-off,
        #  which works for the forms that carry address and value: object and dict)
        only_creator = how in ('object', 'dict') and ctx.rng.random() < 0.3
        for w_ in ws:
            if only_creator and w_ is not ws[seq[0]]:
                continue
            for on in outns:
                w_.utxo_add(addr, 1000000, txid, on, confirmations=3)
        rep = {'op': 'sign', 'wt': wt, 'm': m, 'n': n, 'handoff': how, 'signers_in_order': seq, 'spent_output_numbers': outns,
               'outputs_known_to': 'the creator only' if only_creator else 'every cosigner wallet'}
        if only_creator:
            ctx.count('spent-outputs-known-to-creator-only')
        first = ws[seq[0]]
        created_by = ctx.rng.choice(['transaction_create', 'send'])
        rbf = ctx.rng.random() < 0.4          # the creator signals replace-by-fee: a sequence the importing wallet would not choose itself
        rep['created_by'] = created_by
        rep['replace_by_fee'] = rbf
        # the first ceremony of every group lets the wallet choose the inputs itself (nothing else is spendable yet); the others name them
        auto = not auto_done[0] and len(set(seq)) >= m
        if auto:
            auto_done[0] = True
        rep['inputs_chosen_by'] = 'wallet' if auto else 'caller'
        ia = None if auto else [(txid, on) for on in outns]
        # (some spends also carry a data output - no address, only a script - which every hand-off form has to carry along)
        outs_ = [(EXT, 100000)]
        if ctx.rng.random() < 0.3:
            from bitcoinlib.transactions import Output as _Output
            outs_.append(_Output(0, lock_script=bytes.fromhex('6a0b68656c6c6f20776f726c64'), network='bitcoin'))
            rep['data_output'] = True
            ctx.count('spend-with-data-output')
        try:
            if created_by == 'send':
                # the usual way: send() without broadcasting creates, signs and serialises the transaction
                t = first.send(outs_, input_arr=ia, fee=5000, broadcast=False, replace_by_fee=rbf, min_confirms=0)
            else:
                t = first.transaction_create(outs_, input_arr=ia, fee=5000, replace_by_fee=rbf, min_confirms=0)
                t.sign()
        except Exception as e:
            ctx.violation('the first cosigner cannot create and sign the spend', dict(rep, error='%s: %s' % (type(e).__name__, str(e)[:80])))
            return
        if t.inputs[0].redeemscript.hex() != script:
            ctx.violation('redeem script of the spend differs from the sorted-key script', dict(rep, observed=t.inputs[0].redeemscript.hex(), expected=script))
            return
        cur = t
        # what the creator spends (all the named outputs; a subset of them when the wallet chose): every later holder spends the same
        created_outpoints = sorted((i_.prev_txid.hex(), i_.output_n_int) for i_ in t.inputs)
        if not auto and created_outpoints != sorted((txid, on) for on in outns):
            ctx.violation('the created spend does not spend the outputs it was given', dict(rep, observed=created_outpoints))
            return
        trace = []
        ok = True
        for step, signer in enumerate(seq):
            if step > 0:
                w_ = ws[signer]
                try:
                    if how == 'object':
                        cur = w_.transaction_import(cur)
                    elif how == 'dict':
                        cur = w_.transaction_import(cur.as_dict())
                    else:
                        cur = w_.transaction_import_raw(cur.raw_hex())
                    cur.sign()
                except Exception as e:
                    trace.append('EXC %s %s' % (type(e).__name__, str(e)[:60]))
                    ok = False
                    break
            prefix = seq[:step + 1]
            model = run_driver(['ms_signed %d %d %s' % (m, n, ','.join(str(pos[s]) for s in prefix))])[0].split(' | ')[0]
            msig, mvalid = model.split(' valid=')
            nsig = min(len(i_.signatures) for i_ in cur.inputs)
            if sorted((i_.prev_txid.hex(), i_.output_n_int) for i_ in cur.inputs) != created_outpoints:
                trace.append('the imported transaction spends other outpoints: %s' % [(i_.prev_txid.hex()[:8], i_.output_n_int) for i_ in cur.inputs])
                ok = False
                break
            # signatures beyond the threshold are not constrained by the property (the raw form carries m of them, a repeated signer
            # may be stored twice): compare the count up to m, and validity
            got = '%d valid=%s' % (min(nsig, m), 'true' if cur.verify() else 'false')
            want = '%d valid=%s' % (min(len(msig.split(',')) if msig != '-' else 0, m), mvalid)
            trace.append((got, want))
            ctx.evals += 1
            ctx.count('step:%s:%s' % (how, 'agree' if got == want else 'differ'))
            if got != want:
                ok = False
                break
        distinct = len(set(seq))
        expect_valid = distinct >= m
        PUSHED.clear()
        pushed = None
        if ok:
            try:
                cur.send(broadcast=True)
                pushed = bool(cur.pushed)
            except Exception as e:
                pushed = 'EXC %s %s (after %d pushes)' % (type(e).__name__, str(e)[:60], len(PUSHED))
        else:
            # whatever the library believes: is it able to broadcast a spend with fewer than m signers?
            try:
                cur.send(broadcast=True)
                pushed = bool(cur.pushed) or bool(PUSHED)
            except Exception:
                pushed = bool(PUSHED)
        ctx.traces += 1
        ctx.nontrivial.add(hash((wt, m, n, how, seq)))
        # what was handed to the network must itself be the complete spend: at least m signatures, and it verifies
        broadcast_problem = None
        if PUSHED:
            from bitcoinlib.transactions import Transaction
            try:
                bt = Transaction.parse_hex(PUSHED[-1], network='bitcoin')
                for bi in bt.inputs:
                    bi.value = 1000000
                nsig_b = min(len(bi.signatures) for bi in bt.inputs)
                if nsig_b < m or not bt.verify():
                    broadcast_problem = 'the broadcast bytes carry %d signature(s) / do not verify (needed %d)' % (nsig_b, m)
                elif bt.inputs[0].redeemscript.hex() != script:
                    broadcast_problem = 'the broadcast bytes use another redeem script'
            except Exception as e:
                broadcast_problem = 'the broadcast bytes do not parse: %s' % type(e).__name__
        if broadcast_problem:
            ctx.violation('a multisig spend was broadcast without the required signatures in the bytes sent', dict(rep, trace=trace, problem=broadcast_problem,
                                                                                                           raw=PUSHED[-1][:200]))
        good = ok and pushed == expect_valid
        if not good:
            rep.update(trace=trace, pushed=pushed, expected_valid=expect_valid, signatures_needed=m)
            under_signed_broadcast = (not expect_valid) and pushed is True
            if how == 'raw' and not under_signed_broadcast and f26 and m >= 2 and len(seq) >= 2:
                # listed finding F26: a partially signed multisig input does not carry its signatures in the raw form
                ctx.known_hit('F26', rep)
            else:
                what = 'a spend with fewer than m cosigner signatures was broadcast' if under_signed_broadcast else \
                    'signing ceremony disagrees with the signer-set model (valid iff at least m distinct cosigners signed)'
                ctx.violation(what, rep)
        # the output is not spent unless the spend was pushed: clean up for the next sequence
        for w_ in ws:
            try:
                for tt in w_.transactions():
                    pass
            except Exception:
                pass


def part_many(ctx, n, wt):
    """many cosigners (two-digit numbers of them): the address of a path is the same before and after reopening the wallet, in every holder's
    wallet, with sorted keys (the Lean script) and with keys kept in the order supplied"""
    from bitcoinlib.wallets import Wallet
    m = 2
    g = Group(ctx, wt, m, n, 'many%d' % n)
    script, addr, pos = g.expected(0, 1, 2)
    for sort_keys in (True, False):
        seen = {}
        for holder in (0, n - 1, ctx.rng.randrange(1, n - 1)):
            g.count += 1
            name = 'many_%d_%s_%d' % (n, sort_keys, g.count)
            keys = [g.masters[j] if j == holder else g.pubs[j] for j in range(n)]
            w = Wallet.create(name, keys=keys, sigs_required=m, witness_type=wt, network='bitcoin', db_uri=g.db, sort_keys=sort_keys)
            fresh = w.key_for_path([1, 2], cosigner_id=0).address
            again = Wallet(name, db_uri=g.db).key_for_path([1, 2], cosigner_id=0).address
            # (a wallet object that creates the key itself after reopening)
            other = Wallet(name, db_uri=g.db).key_for_path([0, 5], cosigner_id=0).address
            g.count += 1
            w2 = Wallet.create(name + 'b', keys=keys, sigs_required=m, witness_type=wt, network='bitcoin', db_uri=g.db, sort_keys=sort_keys)
            other_fresh = w2.key_for_path([0, 5], cosigner_id=0).address
            ctx.evals += 3
            ctx.count('many-cosigners:%d:%s' % (n, 'sorted' if sort_keys else 'given-order'))
            rep = {'op': 'address-many', 'wt': wt, 'm': m, 'n': n, 'holder': holder, 'sort_keys': sort_keys}
            if again != fresh or other != other_fresh:
                ctx.violation('a reopened cosigner wallet derives another address for the same path than before it was closed',
                              dict(rep, fresh=[fresh, other_fresh], reopened=[again, other]))
                return
            if sort_keys and fresh != addr:
                ctx.violation('a cosigner wallet derives a different address for the same path', dict(rep, observed=fresh, **{'expected (sorted keys, Lean)': addr}))
                return
            seen[holder] = fresh
        if len(set(seen.values())) != 1:
            ctx.violation('cosigner wallets made from the same keys in the same order derive different addresses', dict(rep, addresses=seen))
            return
    ctx.nontrivial.add(hash(('many', wt, n)))


def part_reload(ctx, wt, m, n):
    """a spend that was created and stored before anybody signed it, read back from the wallet: it still carries the script and the
    threshold of its address (the cosigner who signs the reloaded object signs the same script as everybody else)"""
    g = Group(ctx, wt, m, n, 'reload')
    script, addr, pos = g.expected(0, 0, 0)
    w = g.wallet(ctx.rng.randrange(n), tuple(range(n)))
    k = w.key_for_path([0, 0], cosigner_id=0)
    txid = '%064x' % 0xdef001
    w.utxo_add(addr, 1000000, txid, 0, confirmations=3)
    ctx.evals += 1
    ctx.count('stored-unsigned-spend-reloaded')
    rep = {'op': 'reload', 'wt': wt, 'm': m, 'n': n}
    try:
        t = w.transaction_create([(EXT, 100000)], input_arr=[(txid, 0)], fee=5000, min_confirms=0)
        t.store()
        tt = w.transaction(t.txid)
        got = (tt.inputs[0].redeemscript.hex(), tt.inputs[0].sigs_required)
    except Exception as e:
        ctx.violation('a stored unsigned multisig spend cannot be read back', dict(rep, error=repr(e)[:120]))
        return
    if got != (script, m):
        ctx.violation('a stored unsigned multisig spend comes back with another redeem script / threshold than its address has',
                      dict(rep, observed_script=got[0][:40] + '...', observed_threshold=got[1], expected_script=script[:40] + '...', expected_threshold=m))


def run(ctx):
    install_fake_service()
    T = ctx.thorough
    combos = [(2, 2), (2, 3), (2, 5)] if not T else [(1, 2), (2, 2), (1, 3), (2, 3), (3, 3), (2, 4), (3, 5), (2, 5)]
    rp = getattr(ctx, 'replay_obj', None)
    if not rp or rp['replay'].get('op') == 'address-many':
        for n_ in ((11,) if not T else (11, 12, 15)):
            part_many(ctx, n_, ctx.rng.choice(['legacy', 'p2sh-segwit', 'segwit']) if not rp else rp['replay']['wt'])
    for wt in ('legacy', 'p2sh-segwit', 'segwit'):
        for (m, n) in combos:
            if rp and (rp['replay'].get('wt'), rp['replay'].get('m'), rp['replay'].get('n')) != (wt, m, n):
                continue
            if (m, n) == (2, 3) or T:
                if not rp or rp['replay'].get('op') == 'address':
                    part_addresses(ctx, wt, m, n, T)
            if (not rp or rp['replay'].get('op') == 'reload') and (m, n) != (2, 5):
                part_reload(ctx, wt, m, n)
            for how in ('object', 'dict', 'raw'):
                if (m, n) == (2, 5) and not T and how != 'dict':
                    continue        # quick tier: the long ceremonies of 2-of-5 through the dict hand-off only
                if rp and rp['replay'].get('handoff') not in (None, how):
                    continue
                if rp and rp['replay'].get('op') == 'address' and 'handoff' not in rp['replay']:
                    continue
                part_signing(ctx, wt, m, n, how, T)
    ctx.assumptions += ['cosigner keys are derived from independent seeds; the expected script is computed from the seeds alone with the Lean BIP32, '
                        'sorting, script and address functions', 'the service layer is an in-process fake that accepts every push']


def replay(ctx, obj):
    ctx.replay_obj = obj
    ctx.seed = obj.get('seed', ctx.seed)
    run(ctx)
    print('still failing' if ctx.violations else 'no longer failing')
    return 1 if ctx.violations else 0
