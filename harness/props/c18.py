"""C18 — wire primitives: CompactSize, script numbers, pushes, script round trip."""
from harness.core import hexp


def _cmds_str(cmds):
    out = []
    for c in cmds:
        if isinstance(c, int):
            out.append('o%02x' % c)
        elif isinstance(c, (bytes, bytearray)):
            out.append('d' + bytes(c).hex())
        else:
            return 'nested'
    return ','.join(out) if out else '-'


def _py(fn, *a):
    try:
        return fn(*a)
    except OverflowError:
        return 'none'


def gen_cmds(rng, wf=True, maxlen=12):
    lens = [1, 1, 2, 4, 5, 20, 20, 21, 32, 33, 64, 65, 70, 71, 72, 75, 76, 77, 80, 255, 256, 300, 520]
    n = rng.randint(0, maxlen)
    cmds = []
    for _ in range(n):
        k = rng.random()
        if k < 0.5:
            if wf:
                b = rng.choice([0] + list(range(0x4f, 0x100)))
            else:
                b = rng.randrange(256)
            cmds.append(b)
        else:
            ln = rng.choice(lens) if wf or rng.random() < 0.8 else 0
            style = rng.random()
            if style < 0.5:
                d = bytes(rng.randrange(256) for _ in range(ln))
            elif style < 0.7:
                d = bytes([rng.choice([0, 0x51, 0x6a, 0xac, 0x87])]) * ln     # opcode-like content
            elif style < 0.85:
                d = bytes([rng.choice([2, 3, 4, 0x30])]) + bytes(rng.randrange(256) for _ in range(max(ln - 1, 0)))
            else:
                d = b'\x00' * ln
            d = d[:ln]
            if rng.random() < 0.25 and cmds != [] and wf:
                cmds.append(0x6a)    # OP_RETURN in front: exempt from the nested-script heuristic
            cmds.append(d)
    return cmds


def run(ctx):
    from bitcoinlib.encoding import int_to_varbyteint, varbyteint_to_int, varstr, read_varbyteint, read_varbyteint_return
    from bitcoinlib.scripts import Script, ScriptError, encode_num, decode_num, data_pack
    from io import BytesIO
    rng = ctx.rng
    T = ctx.thorough
    ctx.rule = ('exhaustive ranges + every boundary of the anchored comparisons +-3 + 2^k+-1 + random; a case is '
                'non-trivial when it is a distinct op line whose result is not a bare rejection')

    # ---- CompactSize encode: exhaustive low range, boundaries, powers of two --------------------
    ns = set(range(0, 200000 if T else 70000))
    for b in [0xfc, 0xfd, 0xffff, 0x10000, 0xffffffff, 0x100000000, 2**64 - 1, 2**64, 2**63]:
        ns.update(range(max(b - 3, 0), b + 4))
    for k in range(65):
        ns.update([2**k - 1, 2**k, 2**k + 1])
    ns.update(rng.getrandbits(rng.randint(1, 64)) for _ in range(5000 if T else 1000))
    cases = []
    for n in sorted(ns):
        py = _py(lambda: int_to_varbyteint(n).hex())
        cases.append(('cs_enc %d' % n, py, py != 'none'))
    ctx.compare(cases, 'exhaustive')

    # ---- CompactSize decode: every first byte x tails, canonical encodings ------------------------
    cases = []
    blobs = set()
    for first in range(256):
        for ln in range(0, 10):
            blobs.add(bytes([first]) + bytes(rng.randrange(256) for _ in range(ln)))
    blobs.add(b'')
    for n in list(ns)[:3000]:
        if n < 2**64:
            blobs.add(int_to_varbyteint(n) + bytes(rng.randrange(256) for _ in range(rng.randint(0, 3))))
    for b in sorted(blobs):
        v, sz = varbyteint_to_int(b)
        s = BytesIO(b + b'\x00' * 9)
        v2 = read_varbyteint(s)
        py = '%d %d' % (v, sz)
        if len(b) >= 9 and (v2 != v or s.tell() != sz):
            py += ' stream-reader-differs(%d,%d)' % (v2, s.tell())
        if b:
            s3 = BytesIO(b + b'\x00' * 9)
            v3, raw3 = read_varbyteint_return(s3)
            if v3 != v or s3.tell() != sz or raw3 != (b + b'\x00' * 9)[:sz]:
                py += ' stream-reader-return-differs(%d,%d,%s)' % (v3, s3.tell(), raw3.hex())
            # the same on a stream that ENDS with the integer or a few bytes after it (the last field of a stream)
            if len(b) >= sz:
                for tail_ in (b'', b'\xa1', b'\xa1\xb2\xc3'):
                    data_ = b[:sz] + tail_
                    s4 = BytesIO(data_)
                    v4, raw4 = read_varbyteint_return(s4)
                    rest4 = s4.read()
                    s5 = BytesIO(data_)
                    v5 = read_varbyteint(s5)
                    rest5 = s5.read()
                    if v4 != v or raw4 != b[:sz] or rest4 != tail_ or v5 != v or rest5 != tail_:
                        py += ' stream-end-differs(%d,%s,%s|%d,%s)' % (v4, raw4.hex(), rest4.hex(), v5, rest5.hex())
                        break
        cases.append(('cs_dec %s' % hexp(b), py, True))
    ctx.compare(cases, 'boundary')

    # ---- varstr ---------------------------------------------------------------------------------
    cases = []
    for ln in list(range(0, 300)) + [0xfc, 0xfd, 0xfffe, 0xffff, 0x10000, 0x10001]:
        for fill in ([0], [0xff], None):
            d = bytes(fill * ln) if fill else bytes(rng.randrange(256) for _ in range(ln))
            cases.append(('varstr %s' % hexp(d), _py(lambda: varstr(d).hex() or '-'), True))
    # payloads whose bytes read as text: hexadecimal digits, digits, blanks (a byte string is data, whatever it looks like)
    for ln in [1, 2, 3, 4, 8, 16, 32, 64, 66, 0xfc, 0xfd, 0xfe, 254, 300, 0xffff, 0x10000] + [rng.randrange(1, 600) for _ in range(30)]:
        for alphabet in (b'a', b'0123456789abcdef', b'0123456789ABCDEF', b'0123456789', b' ', b'0 \t\n'):
            d = bytes(rng.choice(alphabet) for _ in range(ln))
            ctx.count('varstr:text-looking')
            cases.append(('varstr %s' % hexp(d), _py(lambda: varstr(d).hex() or '-'), True))
    ctx.compare(cases, 'boundary')

    # ---- script numbers ---------------------------------------------------------------------------
    R = 2**17 if T else 2**16
    zs = set(range(-R, R + 1))
    for k in range(0, 72):
        for d in (-1, 0, 1):
            zs.update([2**k + d, -(2**k) + d])
    zs.update(rng.randint(-2**40, 2**40) for _ in range(100000 if T else 5000))
    cases = []
    for z in sorted(zs):
        e = encode_num(z)
        py = hexp(e)
        if decode_num(e) != z:
            py += ' python-roundtrip-fails'
        cases.append(('num_enc %d' % z, py, True))
    # numbers written in script text are script numbers too
    for z in [0, 1, 16, 17, 75, 76, 127, 128, 200, 255, 256, 32767, 32768, 65535, 8388607, 8388608, 2**31 - 1] + [rng.randrange(17, 2**31) for _ in range(40)]:
        try:
            cm = Script.parse_str('%d OP_DROP' % z).commands[0]
            py = hexp(cm) if isinstance(cm, bytes) else 'opcode:%r' % (cm,)
        except Exception as e:
            py = 'none'
        ctx.count('number-in-script-text')
        cases.append(('num_enc %d' % z, py, True))
    ctx.compare(cases, 'exhaustive')
    cases = []
    blobs = [b''] + [bytes([a]) for a in range(256)] + [bytes([a, b]) for a in range(256) for b in range(256)]
    blobs += [bytes(rng.randrange(256) for _ in range(rng.randint(3, 9))) for _ in range(20000 if T else 4000)]
    blobs += [bytes([rng.randrange(256)]) * 0 + bytes(rng.choice([0, 0x80, 0x7f, 0xff, 1]) for _ in range(rng.randint(1, 6)))
              for _ in range(2000)]
    for b in blobs:
        cases.append(('num_dec %s' % hexp(b), str(decode_num(b)), True))
    ctx.compare(cases, 'exhaustive')

    # ---- pushes -----------------------------------------------------------------------------------
    cases = []
    for ln in list(range(0, 601)) + [65534, 65535, 65536, 70000]:
        d = bytes(rng.randrange(256) for _ in range(ln))
        cases.append(('pack %s' % hexp(d), _py(lambda: data_pack(d).hex()), ln <= 65535))
    ctx.compare(cases, 'exhaustive')

    # ---- scripts: build -> serialise -> parse -> serialise ------------------------------------------
    def script_rt(cmds, strict):
        try:
            b = Script(list(cmds)).serialize()
        except OverflowError:
            return 'none'
        try:
            s2 = Script.parse_bytes(b, strict=strict)
        except Exception as e:
            # any refusal at the parse stage is a refusal (ScriptError, or BKeyError for a key-typed item that is
            # not a point on the curve)
            ctx.count('parse-refusal:' + type(e).__name__)
            return hexp(b) + ' none'
        c2 = _cmds_str(s2.commands)
        try:
            b2 = hexp(s2.serialize())
        except Exception as e:
            b2 = 'raise:' + type(e).__name__
        # the other entry points read the same script: Script.parse on bytes and on hexadecimal text, parse_hex
        for name_, fn_ in (('parse(bytes)', lambda: Script.parse(b, strict=strict)), ('parse(hex)', lambda: Script.parse(b.hex(), strict=strict)),
                           ('parse_hex', lambda: Script.parse_hex(b.hex(), strict=strict))):
            try:
                cx = _cmds_str(fn_().commands)
            except Exception as e:
                cx = 'raise:' + type(e).__name__
            ctx.evals += 1
            if cx != c2:
                b2 += ' %s-reads-%s' % (name_, cx[:80])
        return '%s %s %s' % (hexp(b), c2, b2)

    def trig(extra, op, py, spec):
        # regions where the library's parse heuristics are listed findings (by call site + predicate)
        if 'blob=true' in extra:
            # listed finding F04b, pinned down exactly: the whole input becomes ONE data item (or the library refuses a malformed
            # signature / key); anything else in this region is a new disagreement
            if op.startswith('tok '):
                bh = op.split(' ')[1]
                if py == 'd' + bh or (py == 'none' and 'sigkey=true' in extra) or (py == 'none' and len(bh) != 128):
                    return 'F04b'
                return None
            if op.startswith('script_rt '):
                parts = py.split(' ')
                if len(parts) >= 2 and (parts[1] == 'd' + parts[0] or parts[1] in ('none',) or 'raise:' in py):
                    return 'F04b'
                return None
            return 'F04b'
        if 'nest=true' in extra:
            return 'F04a'
        if 'sigkey=true' in extra and (py == 'none' or py.endswith(' none') or 'raise:' in py):
            ctx.count('strict-refusal-of-malformed-sig-or-key-item')
            return 'OBS-strict'
        return None

    cases = []
    N = 20000 if T else 3000
    for i in range(N):
        wf = rng.random() < 0.85
        cmds = gen_cmds(rng, wf=wf, maxlen=40 if T else 12)
        strict = (not wf) or rng.random() < 0.5
        py = script_rt(cmds, strict)
        cases.append(('script_rt %s' % _cmds_str(cmds), py, wf and len(cmds) > 0))
    # two scripts added: the bytes of the sum are the bytes of the parts, whichever accessor is used and whether or not the parts were
    # serialised before
    for _ in range(200 if T else 40):
        ca, cb = gen_cmds(rng, wf=True, maxlen=5), gen_cmds(rng, wf=True, maxlen=5)
        try:
            sa, sb = Script(list(ca)), Script(list(cb))
            want = sa.serialize() + sb.serialize()
            xa, xb = Script(list(ca)), Script(list(cb))
            if rng.random() < 0.5:
                xa.as_bytes()
            ssum = xa + xb
            got = (ssum.as_bytes(), ssum.serialize(), bytes.fromhex(ssum.as_hex()))
        except Exception as e:
            ctx.count('script-add-refused:' + type(e).__name__)
            continue
        ctx.evals += 1
        ctx.count('script-add')
        if any(g != want for g in got):
            ctx.violation('the bytes of a sum of two scripts are not the bytes of the parts', {'op': 'script_add %s + %s' % (_cmds_str(ca), _cmds_str(cb)),
                          'as_bytes': got[0].hex(), 'serialize': got[1].hex(), 'expected': want.hex()})
    # a script that grows after it was serialised (items appended to .commands), and a script read from a stream that does not start at
    # the script: serialize() gives the bytes of the items the script has NOW
    for _ in range(200 if T else 40):
        ca, cb = gen_cmds(rng, wf=True, maxlen=5), gen_cmds(rng, wf=True, maxlen=4)
        try:
            want = Script(list(ca) + list(cb)).serialize()
            sx = Script(list(ca))
            first = sx.serialize()
            if rng.random() < 0.5:
                sx.as_bytes()
            sx.commands += list(cb)
            got = sx.serialize()
        except Exception as e:
            ctx.count('script-grow-refused:' + type(e).__name__)
            continue
        ctx.evals += 1
        ctx.count('script-grown-after-serialising')
        if got != want:
            ctx.violation('serialize() of a script whose items were extended after a first serialisation is not the bytes of its items',
                          {'op': 'script_grow %s + %s' % (_cmds_str(ca), _cmds_str(cb)), 'observed': got.hex(), 'expected': want.hex()})
            break
    for _ in range(120 if T else 30):
        cmds = gen_cmds(rng, wf=True, maxlen=6)
        try:
            b_ = Script(list(cmds)).serialize()
            if not b_:
                continue
            ref = Script.parse_bytes(b_, strict=False).serialize()
            pre_ = bytes(rng.randrange(256) for _ in range(rng.choice([1, 1, 9, 36])))
            st_ = BytesIO(pre_ + b_)
            st_.read(len(pre_))
            got = Script.parse_bytesio(st_, data_length=len(b_), strict=False).serialize()
        except Exception as e:
            ctx.count('script-stream-refused:' + type(e).__name__)
            continue
        ctx.evals += 1
        ctx.count('script-from-positioned-stream')
        if got != ref:
            ctx.violation('a script read from a stream positioned at its first byte serialises to other bytes than the same script read from bytes',
                          {'op': 'script_stream %s' % _cmds_str(cmds), 'prefix_bytes': len(pre_), 'observed': got.hex(), 'expected': ref.hex()})
            break
    # the witnesses of the listed findings are always replayed
    for f in ctx.known:
        w = f.get('witness', {}).get('op', '')
        if w.startswith('script_rt '):
            wc = []
            for tok in w.split(' ')[1].split(','):
                wc.append(int(tok[1:], 16) if tok[0] == 'o' else bytes.fromhex(tok[1:]))
            cases.append((w, script_rt(wc, True), True))
    # fixed corpus: standard shapes
    h20, h32 = bytes(range(20)), bytes(range(32))
    pk = bytes.fromhex('0279be667ef9dcbbac55a06295ce870b07029bfcdb2dce28d959f2815b16f81798')
    for cmds in ([0x76, 0xa9, h20, 0x88, 0xac], [0xa9, h20, 0x87], [0, h20], [0, h32], [0x51, h32],
                 [0x6a, b'hello world'], [0x51, pk, pk, 0x52, 0xae], [pk, 0xac], [b''], [0], []):
        cases.append(('script_rt %s' % _cmds_str(cmds), script_rt(cmds, True), True))
    ctx.compare(cases, 'random', trigger_findings=trig)

    # ---- arbitrary bytes through the parser (model of the code, strict) ----------------------------
    cases = []
    for i in range(10000 if T else 2000):
        ln = rng.choice([0, 1, 2, 3, 5, 8, 13, 21, 22, 23, 25, 34, 35, 40, 63, 66, 67, 80, 100])
        if rng.random() < 0.5:
            b = bytes(rng.choice([0, 1, 2, 3, 0x14, 0x20, 0x4b, 0x4c, 0x4d, 0x4e, 0x51, 0x6a, 0x76, 0xac, 0xff]) if rng.random() < 0.4
                      else rng.randrange(256) for _ in range(ln))
        else:
            try:
                b = Script(gen_cmds(rng, wf=True, maxlen=5)).serialize()
                if b and rng.random() < 0.5:
                    b = b[:rng.randrange(len(b))]          # truncation
            except OverflowError:
                continue
        try:
            s = Script.parse_bytes(b)
            py = _cmds_str(s.commands)
        except Exception as e:
            ctx.count('parse-refusal:' + type(e).__name__)
            py = 'none'
        cases.append(('tok %s' % hexp(b), py, True))
    ctx.compare(cases, 'malformed', trigger_findings=trig)
    ctx.exhaustive = False
    ctx.assumptions += ['script round trip: data items that the library hands to its nested-script / whole-blob '
                        'heuristics are outside the agreeing fragment (findings F04a/F04b, decidable predicates '
                        'nestTrigger/blobTrigger in BtcModel/Wire.lean)']


def replay(ctx, obj):
    from harness.core import run_driver
    op = obj['replay']['op']
    print('replay', op)
    print('model :', run_driver([op], ctx.flags)[0])
    print('recorded observed:', obj['replay'].get('observed'))
    # re-run the whole check restricted to nothing else would need generator state; the op line is
    # self-contained: recompute the implementation's answer through the same adapters
    ctx2 = type(ctx)(ctx.pid, ctx.tier, obj.get('seed', 0))
    run(ctx2)
    bad = [v for v in ctx2.violations if v['replay'].get('op') == op]
    print('still failing' if bad else 'no longer failing')
    return 1 if bad else 0
