"""C13 — ECDSA: signatures valid, canonical (strict DER, low S), deterministic; verifier exact."""
from harness.core import hexp, run_driver

N = 0xFFFFFFFFFFFFFFFFFFFFFFFFFFFFFFFEBAAEDCE6AF48A03BBFD25E8CD0364141
P = 0xFFFFFFFFFFFFFFFFFFFFFFFFFFFFFFFFFFFFFFFFFFFFFFFFFFFFFFFEFFFFFC2F


def run(ctx):
    from bitcoinlib.keys import Key, Signature, sign, verify, ec_point
    rng = ctx.rng
    T = ctx.thorough
    ctx.rule = ('private keys: 1,2,3, n-1, n-2, 2^255, sparse bit patterns, random; digests: zero-heavy, near n, >= n, random; explicit '
                'nonces; digests crafted so that the raw s hits floor(n/2), floor(n/2)+1, 2^255-1, 2^255, 2^255+1, n-1; verifier: r,s in '
                '{0,1,n-1,n,n+1,2^256-1}, high-S twins, wrong key, digest +-1, DER re-encodings. non-trivial = distinct op line')
    keys = [1, 2, 3, N - 1, N - 2, 2**255, 2**128, (1 << 255) | 1, 0x8000000000000000000000000000000000000000000000000000000000000001 % N]
    keys += [rng.randrange(1, N) for _ in range(60 if T else 12)]
    digs = [0, 1, 2**255, N - 1, N, N + 1, 2**256 - 1, 1 << 8, 1 << 248]
    digs += [rng.getrandbits(256) for _ in range(60 if T else 12)]

    def zh(z):
        return '%064x' % z

    # ---- signing: the library's (r, s, DER, k) must be exactly the model's ---------------------------
    cases = []
    produced = []
    derived = []     # signatures whose nonce the library derived itself
    for d in keys:
        k_obj = Key(d)
        for z in rng.sample(digs, 6) + [digs[0], digs[4]]:
            for kk in (0, rng.choice([1, 2, N - 1, rng.randrange(1, N)])) if rng.random() < 0.3 else (0,):
                try:
                    s = sign(zh(z), k_obj, k=(kk or None))
                    py = '%d %d %s %d' % (s.r, s.s, s.as_der_encoded(include_hash_type=False).hex(), s.k)
                    produced.append((k_obj, z, s))
                    if not kk:
                        derived.append((k_obj, z, s))
                    s2 = sign(zh(z), k_obj, k=(kk or None))
                    if (s2.r, s2.s) != (s.r, s.s):
                        py += ' NOT-DETERMINISTIC'
                except Exception as e:
                    py = 'none'
                cases.append(('ecdsa_sign %d %s %d' % (d, zh(z), kk), py, True))
    # crafted s values around the low-S threshold
    for d in keys[:6] + keys[-4:]:
        k_obj = Key(d)
        for target in (N // 2, N // 2 + 1, N // 2 + 2, 2**255 - 1, 2**255, 2**255 + 1, N - 1, 1):
            kk = rng.randrange(1, N)
            pt = ec_point(kk)
            r = int(pt.x) % N
            z = (target * kk - r * d) % N
            try:
                s = sign(zh(z), k_obj, k=kk)
                py = '%d %d %s %d' % (s.r, s.s, s.as_der_encoded(include_hash_type=False).hex(), s.k)
                produced.append((k_obj, z, s))
            except Exception:
                py = 'none'
            cases.append(('ecdsa_sign %d %s %d' % (d, zh(z), kk), py, True))
    # hash-type byte is appended verbatim
    for ht in (1, 2, 3, 0x81, 0x82, 0x83, 0, 0xff):
        s = sign(zh(12345), Key(7), hash_type=ht)
        if s.as_der_encoded()[-1] != ht or s.as_der_encoded()[:-1] != s.as_der_encoded(include_hash_type=False):
            ctx.violation('hash type byte not appended verbatim', {'op': 'hash_type %d' % ht, 'observed': s.as_der_encoded().hex()})
    ctx.compare(cases, 'sign')

    # ---- nonce never shared between different (key, message) pairs ----------------------------------
    seen = {}
    for k_obj, z, s in derived:
        if s.k in seen and seen[s.k] != (k_obj.secret, z):
            ctx.violation('nonce shared between different (key, message) pairs', {'op': 'nonce', 'k': s.k, 'a': seen[s.k], 'b': (k_obj.secret, z)})
        seen[s.k] = (k_obj.secret, z)
    ctx.count('distinct-nonces', len(seen))

    # ---- independent verification + canonical form of everything the library produced -----------------
    cases = []
    for k_obj, z, s in produced:
        py = 'true' if s.s <= N // 2 else 'true-but-high-s'
        cases.append(('ecdsa_verify_rs %s %s %d %d' % (k_obj.public_byte.hex(), zh(z), s.r, s.s), py, True))
        cases.append(('der_dec %s' % s.as_der_encoded(include_hash_type=False).hex(), '%d %d' % (s.r, s.s), True))
    # the DER encoder / decoder of the encoding module on structured (r, s): short values, top bit set (a 00 byte must be added),
    # leading zero bytes (must be dropped), both 33-byte forms
    from bitcoinlib.encoding import der_encode_sig, convert_der_sig
    vals = [1, 0x7f, 0x80, 0xff, 0x100, 2**127, 2**128 - 1, 2**247 + 5, 2**248 - 1, 2**248, 2**255 - 1, 2**255, 2**255 + 12345, N - 1, N // 2, N // 2 + 1]
    vals += [rng.randrange(1, N) for _ in range(8)] + [rng.randrange(1, 2**(8 * rng.randint(1, 31))) for _ in range(8)]
    for _ in range(200 if T else 60):
        r_, s_ = rng.choice(vals), rng.choice(vals)
        try:
            der = bytes(der_encode_sig(r_, s_))
            py = der.hex()
        except Exception as e:
            der, py = None, 'none'
        cases.append(('der_enc %d %d' % (r_, s_), py, True))
        if der is not None:
            ctx.evals += 1
            try:
                back = convert_der_sig(der)
            except Exception as e:
                back = 'raise:' + type(e).__name__
            if back != '%064x%064x' % (r_, s_):
                ctx.violation('convert_der_sig(der_encode_sig(r, s)) is not (r, s)', {'op': 'der_enc %d %d' % (r_, s_), 'observed': back})
    ctx.compare(cases, 'produced')

    # ---- the verifier is exact ----------------------------------------------------------------------------
    def lib_verify(pub_bytes, z, r, s):
        try:
            sig = Signature(r, s)
            return 'true' if sig.verify(zh(z), Key(pub_bytes)) else 'false'
        except Exception:
            return 'false'

    cases = []
    sample = produced if T else rng.sample(produced, min(len(produced), 40))
    for k_obj, z, s in sample:
        pub = k_obj.public_byte
        other = Key(rng.randrange(1, N)).public_byte
        variants = [(pub, z, s.r, s.s), (pub, z, s.r, N - s.s), (other, z, s.r, s.s), (pub, (z + 1) % 2**256, s.r, s.s),
                    (pub, (z - 1) % 2**256, s.r, s.s), (pub, z, s.s, s.r), (pub, z, (s.r + 1) % N, s.s),
                    (k_obj.public_uncompressed_byte, z, s.r, s.s), (pub, z + N if z + N < 2**256 else z, s.r, s.s)]
        for bad in (0, 1, N - 1, N, N + 1, 2**256 - 1):
            variants.append((pub, z, bad, s.s))
            variants.append((pub, z, s.r, bad))
        variants.append((pub, z, s.r + N, s.s))
        variants.append((pub, z, s.r, s.s + N))
        for pb, zz, r, ss in variants:
            cases.append(('ecdsa_verify_rs %s %s %d %d' % (pb.hex(), zh(zz), r, ss), lib_verify(pb, zz, r, ss), True))
    ctx.compare(cases, 'verify')

    # ---- one signature, every accepted input form: compact r||s (bytes / hex), DER, DER + hash type, object -----------------
    from bitcoinlib.keys import verify as lib_verify_any
    kk = Key(rng.randrange(1, N))
    picked = []
    want_tops = [0x30, 0x30, 0x02, 0x00, 0x80]
    tries = 0
    while want_tops and tries < 6000:
        tries += 1
        zz = rng.getrandbits(256)
        sg = sign(zh(zz), kk)
        top = sg.r >> 248
        if top in want_tops:
            want_tops.remove(top)
            picked.append((zz, sg))
    picked += [(z, s) for k_obj, z, s in rng.sample(produced, min(len(produced), 6)) if False]
    for zz, sg in picked:
        compact = sg.r.to_bytes(32, 'big') + sg.s.to_bytes(32, 'big')
        der = sg.as_der_encoded(include_hash_type=False)
        # (DER is only an input form together with its hash-type byte, as it appears in scripts)
        forms = {'object': sg, 'compact-bytes': compact, 'compact-hex': compact.hex(), 'der+hashtype': sg.as_der_encoded(),
                 'der+hashtype-hex': sg.as_der_encoded().hex()}
        model = run_driver(['ecdsa_verify_rs %s %s %d %d' % (kk.public_byte.hex(), zh(zz), sg.r, sg.s)])[0].split(' | ')[0]
        for name, form in forms.items():
            ctx.evals += 1
            ctx.count('input-form:' + name)
            try:
                got = 'true' if lib_verify_any(zh(zz), form, kk.public_byte) else 'false'
            except Exception as e:
                got = 'raise:' + type(e).__name__
            if got != model.split('-')[0]:
                ctx.violation('a valid signature is not accepted in one of its input forms',
                              {'op': 'verify-form ' + name, 'r_top_byte': '%02x' % (sg.r >> 248), 'observed': got, 'independent_verifier': model,
                               'signature': compact.hex(), 'digest': zh(zz), 'public_key': kk.public_byte.hex()})
            # a tampered copy in the same form must be refused
            if name.startswith('compact'):
                bad = bytearray(compact)
                bad[40] ^= 1
                bad = bytes(bad) if name == 'compact-bytes' else bytes(bad).hex()
                try:
                    gb = bool(lib_verify_any(zh(zz), bad, kk.public_byte))
                except Exception:
                    gb = False
                if gb:
                    ctx.violation('a tampered compact signature verifies', {'op': 'verify-form tampered ' + name})

    # ---- signature OBJECTS with a history: they may already carry a public key (from sign(), from an earlier verify) -----------
    ka, kb = Key(rng.randrange(1, N)), Key(rng.randrange(1, N))
    for trial in range(6 if not T else 30):
        zz = rng.getrandbits(256)
        sg = sign(zh(zz), ka)                      # carries ka
        seq = [rng.choice([ka, kb]) for _ in range(4)]
        got, want = [], []
        for kx in seq:
            try:
                got.append(bool(sg.verify(zh(zz), kx)))
            except Exception as e:
                got.append('raise:' + type(e).__name__)
            want.append(run_driver(['ecdsa_verify_rs %s %s %d %d' % (kx.public_byte.hex(), zh(zz), sg.r, sg.s)])[0].split(' | ')[0].startswith('true'))
        ctx.evals += 1
        ctx.count('signature-object-history')
        if got != want:
            ctx.violation('a signature object verified against a sequence of keys does not answer like the standard verifier',
                          {'op': 'object-history', 'signed_by': 'A', 'keys_tried': ['A' if k is ka else 'B' for k in seq], 'observed': got, 'expected': want})
        # the module-level verify() with the same object
        from bitcoinlib.keys import verify as mod_verify
        try:
            g2 = bool(mod_verify(zh(zz), sg, kb.public_byte))
        except Exception:
            g2 = False
        if g2:
            ctx.violation('verify(digest, signature object, other key) accepts a signature made by another key', {'op': 'object-history verify()'})
        # calls WITHOUT a key in between: the object answers for the key it belongs to (ka), whatever other keys were tried on it before
        sg2 = sign(zh(zz), ka)
        hist, got2 = [], []
        for step in range(5):
            kind = rng.choice(['other-key', 'own-key', 'no-key', 'no-key', 'no-args'])
            hist.append(kind)
            try:
                if kind == 'other-key':
                    r_ = bool(sg2.verify(zh(zz), kb)); w_ = False
                elif kind == 'own-key':
                    r_ = bool(sg2.verify(zh(zz), ka)); w_ = True
                elif kind == 'no-key':
                    r_ = bool(sg2.verify(zh(zz))); w_ = True
                else:
                    r_ = bool(sg2.verify()); w_ = True
            except Exception as e:
                r_, w_ = 'raise:' + type(e).__name__, True
            got2.append((r_, w_))
        ctx.evals += 1
        ctx.count('signature-object-history:keyless-calls')
        if any(r_ != w_ for r_, w_ in got2):
            ctx.violation('a signature object that was checked against another key answers differently for its own key afterwards',
                          {'op': 'object-history keyless', 'calls': hist, 'observed': [r_ for r_, _ in got2], 'expected': [w_ for _, w_ in got2]})
        # ... and an object that carries key A but holds a signature made by B stays invalid for A after B was tried with another digest
        sgb = sign(zh(zz), kb)
        try:
            obj = Signature(sgb.r, sgb.s, public_key=ka.public())
            first = bool(obj.verify(zh((zz + 1) % 2 ** 256), kb))
            then = bool(obj.verify(zh(zz)))
        except Exception as e:
            first, then = None, False
        if first is not None and (first or then):
            ctx.violation('a signature object carrying key A accepts a signature made by B after B was tried on it',
                          {'op': 'object-history foreign', 'observed': [first, then], 'expected': [False, False]})

    # ---- ... and a history of DIGESTS: an object that remembers a digest (from sign(), from an earlier verify call) is checked against the
    # digest that is PASSED, each time - right digest, a neighbour, the right one again; objects made by sign() and fresh objects made from (r, s)
    for trial in range(6 if not T else 30):
        zz = rng.getrandbits(256)
        made = sign(zh(zz), ka)
        for src, obj in (('sign()', made), ('parsed', Signature(made.r, made.s))):
            zs = [rng.choice([zz, (zz + 1) % 2 ** 256, zz ^ (1 << 255), zz]) for _ in range(4)] + [zz]
            if src == 'parsed':
                zs = [(zz + 1) % 2 ** 256] + zs            # (the first digest such an object sees is a wrong one)
            got, want = [], []
            for zx in zs:
                try:
                    got.append(bool(obj.verify(zh(zx), ka)))
                except Exception as e:
                    got.append('raise:' + type(e).__name__)
                want.append(run_driver(['ecdsa_verify_rs %s %s %d %d' % (ka.public_byte.hex(), zh(zx), made.r, made.s)])[0].split(' | ')[0].startswith('true'))
            ctx.evals += 1
            ctx.count('signature-object-history:digests:' + src)
            if got != want:
                ctx.violation('a signature object verified against a sequence of digests does not answer like the standard verifier for the digest passed',
                              {'op': 'object-history digests', 'object_from': src, 'digests': ['signed' if zx == zz else 'other' for zx in zs], 'observed': got, 'expected': want})

    # ---- one message, one signature: the digest written as bytes, as lower-case or as upper-case hexadecimal text is the same message;
    # the public key given as object, bytes or hexadecimal text is the same key
    for _ in range(40 if T else 12):
        zz = rng.getrandbits(256) | (0xab << 240)        # (has hexadecimal letters)
        kd = Key(rng.randrange(1, N))
        spell = {'lower': zh(zz), 'upper': zh(zz).upper(), 'bytes': bytes.fromhex(zh(zz))}
        sigs = {}
        for nm, zform in spell.items():
            try:
                sg_ = sign(zform, kd)
                sigs[nm] = (sg_.r, sg_.s)
            except Exception as e:
                sigs[nm] = 'raise:' + type(e).__name__
        ctx.evals += 1
        ctx.count('digest-spellings')
        if len(set(sigs.values())) != 1:
            ctx.violation('the signature depends on how the digest is written (not a function of key and message)', {'op': 'sign spellings', 'digest': zh(zz), 'observed': {k_: str(v_)[:40] for k_, v_ in sigs.items()}})
            continue
        sg_ = sign(zh(zz), kd)
        pubs = {'object': kd.public(), 'bytes': kd.public_byte, 'hex': kd.public_hex}
        for nm, pf in pubs.items():
            for znm, zform in spell.items():
                try:
                    ok_ = verify(zform, sg_.as_der_encoded(), pf)
                except Exception as e:
                    ok_ = 'raise:' + type(e).__name__
                ctx.evals += 1
                if ok_ is not True:
                    ctx.violation('a valid (digest, signature, public key) triple is not accepted in every documented form of its parts',
                                  {'op': 'verify forms', 'public_key_as': nm, 'digest_as': znm, 'observed': str(ok_)})
    # ---- short signatures: the nonce (n+1)/2 gives an r of 21 bytes, so DER + hash type is shorter than the 64-byte raw form;
    # every documented form of such a signature is accepted like any other
    for _ in range(6 if T else 3):
        kd = Key(rng.randrange(1, N))
        zz = rng.getrandbits(256)
        try:
            sg_ = sign(zh(zz), kd, k=(N + 1) // 2)
        except Exception as e:
            ctx.count('short-r-signature-not-created')
            continue
        der_ = sg_.as_der_encoded()
        ctx.count('short-signature:%d-bytes' % len(der_))
        for nm, form in (('der+hashtype', der_), ('der+hashtype-hex', der_.hex()), ('raw64', sg_.bytes()), ('object', sg_)):
            try:
                ok_ = verify(zh(zz), form, kd.public())
            except Exception as e:
                ok_ = 'raise:' + type(e).__name__
            ctx.evals += 1
            if ok_ is not True:
                ctx.violation('a valid signature with a short r is not accepted in one of its documented forms', {'op': 'verify short-r', 'form': nm, 'length': len(der_), 'observed': str(ok_)})
        cases.append(('ecdsa_verify_rs %s %s %d %d' % (kd.public_byte.hex(), zh(zz), sg_.r, sg_.s), 'true' if sg_.s <= N // 2 else 'true-but-high-s', True)) if False else None
    # ---- raw 64-byte signatures whose first bytes read like the head of a DER sequence (r = 30 3d ...: nonces found by search): the raw
    # form r || s of a valid signature is accepted like any other
    for knonce in (15838, 67255, 68436):
        kd = Key(rng.randrange(1, N))
        zz = rng.getrandbits(256)
        try:
            sg_ = sign(zh(zz), kd, k=knonce)
        except Exception as e:
            ctx.count('der-looking-r-signature-not-created')
            continue
        ctx.count('raw-signature-beginning-%s' % sg_.bytes()[:2].hex())
        for nm, form in (('raw64', sg_.bytes()), ('raw64-hex', sg_.bytes().hex()), ('der+hashtype', sg_.as_der_encoded()), ('object', sg_)):
            try:
                ok_ = verify(zh(zz), form, kd.public())
            except Exception as e:
                ok_ = 'raise:' + type(e).__name__
            ctx.evals += 1
            if ok_ is not True:
                ctx.violation('a valid signature whose r begins like a DER sequence is not accepted in one of its documented forms', {'op': 'verify der-looking-r', 'form': nm, 'nonce': knonce, 'observed': str(ok_)})
    # ---- a "public key" that is not a point of the curve verifies nothing, also when it comes as a Key object made with strict=False
    # (the kind non-strict transaction parsing creates)
    P_ = 2 ** 256 - 2 ** 32 - 977
    for _ in range(12 if T else 5):
        x_ = rng.randrange(1, 2 ** 255)
        y_ = rng.randrange(1, 2 ** 255)
        if (y_ * y_ - x_ * x_ * x_ - 7) % P_ == 0:
            continue
        bad_ = attempt_key = None
        try:
            bad_ = Key('04' + '%064x' % x_ + '%064x' % y_, strict=False)
        except Exception:
            ctx.count('off-curve-key-refused-at-construction')
            continue
        kd = Key(rng.randrange(1, N))
        zz = rng.getrandbits(256)
        sg_ = sign(zh(zz), kd)
        # a triple that "verifies" under the textbook equations for an off-curve point can be made without any private key; here: any
        # signature at all must be refused or answered False
        # with digest 0 the textbook equations only use u2 * Q: (r, s) = (x(u2 * Q) mod n, r / u2) "verifies" under Q on whatever curve Q
        # lies on - a forgery that needs no private key
        def add_(p1, p2):
            if p1 is None:
                return p2
            if p2 is None:
                return p1
            (x1, y1), (x2, y2) = p1, p2
            if x1 == x2 and (y1 + y2) % P_ == 0:
                return None
            lam = (3 * x1 * x1 * pow(2 * y1, -1, P_)) % P_ if p1 == p2 else ((y2 - y1) * pow(x2 - x1, -1, P_)) % P_
            x3 = (lam * lam - x1 - x2) % P_
            return x3, (lam * (x1 - x3) - y1) % P_
        u2 = rng.randrange(2, 2 ** 64)
        acc, base, kk_ = None, (x_, y_), u2
        try:
            while kk_:
                if kk_ & 1:
                    acc = add_(acc, base)
                base = add_(base, base)
                kk_ >>= 1
        except (ValueError, TypeError):
            acc = None
        forged = []
        if acc is not None and acc[0] % N:
            rf = acc[0] % N
            forged = [(rf, rf * pow(u2, -1, N) % N, 0)]
        # ... and with a digest: R = u1 * G + u2 * Q by the plain affine formulas (separate ladders, and one shared ladder)
        GX, GY = 0x79BE667EF9DCBBAC55A06295CE870B07029BFCDB2DCE28D959F2815B16F81798, 0x483ADA7726A3C4655DA4FBFC0E1108A8FD17B448A68554199C47D08FFB10D4B8

        def mul_(k_, pt):
            r0 = None
            while k_:
                if k_ & 1:
                    r0 = add_(r0, pt)
                pt = add_(pt, pt)
                k_ >>= 1
            return r0
        u1 = rng.randrange(2, N)
        u2b = rng.randrange(2, N)
        try:
            cands = [add_(mul_(u1, (GX, GY)), mul_(u2b, (x_, y_)))]
            ssum, racc = add_((GX, GY), (x_, y_)), None
            for i_ in range(max(u1.bit_length(), u2b.bit_length()) - 1, -1, -1):
                racc = add_(racc, racc)
                b1_, b2_ = (u1 >> i_) & 1, (u2b >> i_) & 1
                racc = add_(racc, ssum if (b1_ and b2_) else (GX, GY) if b1_ else (x_, y_) if b2_ else None)
            cands.append(racc)
        except (ValueError, TypeError):
            cands = []
        for rp in cands:
            if rp is not None and rp[0] % N:
                rf = rp[0] % N
                sf = rf * pow(u2b, -1, N) % N
                if sf:
                    forged.append((rf, sf, u1 * sf % N))
        ctx.count('off-curve-forgeries-built', len(forged))
        for r_, s_, zf in [(sg_.r, sg_.s, zz), (1, 1, zz)] + forged:
            ctx.evals += 1
            ctx.count('off-curve-public-key')
            try:
                ok_ = Signature(r_, s_).verify(zh(zf), bad_)
            except Exception:
                ok_ = False
            if ok_ is True:
                ctx.violation('a signature verifies under a public key that is not a point of the curve', {'op': 'verify off-curve', 'x': '%064x' % x_, 'y': '%064x' % y_, 'r': r_, 's': s_})
    # ---- DER parsing ----------------------------------------------------------------------------------------
    def lib_der(der):
        try:
            sg = Signature.parse_bytes(der + b'\x01')
            return '%d %d' % (sg.r, sg.s)
        except Exception:
            return 'none'

    def der_int(n, pad=0):
        b = n.to_bytes((n.bit_length() + 7) // 8 or 1, 'big')
        if b[0] & 0x80:
            b = b'\0' + b
        return b'\0' * pad + b

    cases = []
    for k_obj, z, s in rng.sample(produced, min(len(produced), 60 if T else 20)):
        rb, sb = der_int(s.r), der_int(s.s)
        good = b'\x30' + bytes([len(rb) + len(sb) + 4]) + b'\x02' + bytes([len(rb)]) + rb + b'\x02' + bytes([len(sb)]) + sb
        forms = [('strict', good)]
        rb2 = der_int(s.r, 1)
        forms.append(('padded-r', b'\x30' + bytes([len(rb2) + len(sb) + 4]) + b'\x02' + bytes([len(rb2)]) + rb2 + b'\x02' + bytes([len(sb)]) + sb))
        forms.append(('long-len', b'\x30\x81' + bytes([len(rb) + len(sb) + 4]) + good[2:]))
        forms.append(('trailing', good + b'\x00'))
        forms.append(('truncated', good[:-1]))
        forms.append(('wrong-total', b'\x30' + bytes([len(rb) + len(sb) + 5]) + good[2:]))
        forms.append(('neg-r', b'\x30' + bytes([len(rb) + len(sb) + 4]) + b'\x02' + bytes([len(rb)]) + bytes([rb[0] | 0x80]) + rb[1:] + b'\x02' + bytes([len(sb)]) + sb))
        for name, der in forms:
            if len(der) <= 64:
                continue
            py = lib_der(der)
            ctx.count('der-form:' + name + (':accepted' if py != 'none' else ':rejected'))
            if name == 'strict':
                cases.append(('der_dec %s' % der.hex(), py, True))
            elif py != 'none':
                # a non-strict encoding that the library reads: it must at least read the same numbers (no other signature)
                if name in ('padded-r', 'long-len') and py == '%d %d' % (s.r, s.s):
                    ctx.count('lenient-der-read-as-same-signature')
                else:
                    ctx.violation('malformed DER accepted as a different signature', {'op': 'der_dec ' + der.hex(), 'form': name, 'observed': py})
    ctx.compare(cases, 'der')
    ctx.exhaustive = False
    ctx.assumptions += ['secp256k1 group facts (p, n prime; points form a cyclic group of order n) are hypotheses of the algebraic theorem, '
                        'named there; HMAC/SHA-256 collision resistance is what "nonce never shared" rests on beyond the injective DRBG input',
                        'DER decoding is delegated to fastecdsa; non-strict encodings it accepts are counted when they read back as the same (r, s)']


def replay(ctx, obj):
    op = obj['replay']['op']
    print('model:', run_driver([op])[0])
    run(ctx)
    bad = [v for v in ctx.violations if v['replay'].get('op') == op]
    print('still failing' if bad else 'no longer failing')
    return 1 if bad else 0
