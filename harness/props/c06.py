"""C06 — transaction and block serialisation round trip, ids."""
import json, os, re, pickle, signal, threading
from io import BytesIO
from harness.core import Infra, hexp, REPO, run_driver
from harness import txgen


def norm_wit(s):
    """the library holds an empty witness item as b'\\0' (finding F02): map both spellings to one token"""
    m = re.search(r'wit=\[([^\]]*)\]', s)
    if not m or m.group(1) == 'none':
        return s
    stacks = []
    for st in m.group(1).split(';'):
        stacks.append(','.join('00' if it in ('-', '00') else it for it in st.split(',')))
    return s[:m.start(1)] + ';'.join(stacks) + s[m.end(1):]


def dump_py(t, raw):
    ins = ';'.join('%s:%d:%s:%d' % (i.prev_txid[::-1].hex(), int.from_bytes(i.output_n, 'big'), hexp(i.unlocking_script), i.sequence)
                   for i in t.inputs)
    outs = ';'.join('%d:%s' % (o.value, hexp(o.lock_script)) for o in t.outputs)
    try:
        rr = t.raw()
        reser = 'same' if rr == raw else rr.hex()
    except Exception as e:
        rr = None
        reser = 'raise:' + type(e).__name__
    # (a transaction object of the segwit kind whose inputs are all legacy serialises in the old format: no witness section then)
    if t.witness_type == 'segwit' and not (rr is not None and rr[4:6] != b'\x00\x01'):
        wit = ';'.join((','.join(hexp(w) for w in i.witnesses)
                        if (i.witnesses and (i.witness_type != 'legacy' or i.script_type == 'coinbase')) else '_') for i in t.inputs)
    else:
        wit = 'none'
    return 'v=%d lt=%d in=[%s] out=[%s] wit=[%s] txid=%s rest=0 reser=%s' % (
        int.from_bytes(t.version, 'big'), t.locktime, ins, outs, wit, t.txid, reser)


def strip_wtxid(s):
    return re.sub(r' wtxid=[0-9a-f]+', '', s)


def without(s, *keys):
    for k in keys:
        s = re.sub(r' ?%s=(\[[^\]]*\]|\S*)' % k, '', s)
    return s


class TxChecker:
    def __init__(self, ctx):
        self.ctx = ctx
        self.known = {f['id'] for f in ctx.known}
        self.pending = []

    def add(self, raw, py, strict, kind):
        self.pending.append((raw, py, strict, kind))

    def flush(self):
        ctx = self.ctx
        lines = ['tx_parse ' + raw.hex() for raw, _, _, _ in self.pending]
        res = run_driver(lines, ctx.flags)
        for (raw, py, strict, kind), op, r in zip(self.pending, lines, res):
            parts = [x.strip() for x in r.split(' | ')]
            spec, extra = strip_wtxid(parts[0]), parts[2]
            ctx.evals += 1; ctx.traces += 1
            ctx.count(kind + (':strict' if strict else ':nonstrict'))
            if spec != 'none':
                ctx.nontrivial.add(hash(raw))
            # verdict of the strict reader (theorems T7-T9: what it accepts re-serialises byte-identically; it refines the reader compared here)
            sv = re.search(r'strictrd=(\S+)', extra)
            sv = sv.group(1) if sv else 'missing'
            ctx.count('strict-reader:' + ('n/a' if spec == 'none' else sv))
            if sv == 'acc-differs' or (sv == 'acc' and 'reser=same' not in spec):
                raise Infra('the model contradicts its theorems T7/T8 on ' + op[:200])
            a, b = norm_wit(py), norm_wit(spec)
            if a == b:
                if ctx.evals % 211 == 0:
                    ctx.sample({'op': op[:200] + '...', 'impl': py[:300], 'agrees': True})
                continue
            if 'f02=true' in extra and 'F02' in self.known and a.split(' txid=')[0] == b.split(' txid=')[0]:
                # the re-serialisation and the id computed from it differ by the 0100 -> 00 collapse
                ctx.known_hit('F02', {'op': op[:120], 'impl': py[-80:], 'spec': spec[-40:]})
                continue
            if ('witness_nonstd=true' in extra or 'nested_mismatch=true' in extra) and 'F30' in self.known \
                    and without(a, 'wit', 'reser') == without(b, 'wit', 'reser'):
                # only the witness stack (and hence the re-serialisation) may differ; txid and all other fields agree
                ctx.known_hit('F30', {'op': op[:120], 'impl_wit': re.findall(r'wit=\[[^\]]*\]', a)[0][:200],
                                      'spec_wit': re.findall(r'wit=\[[^\]]*\]', b)[0][:200]})
                continue
            ctx.violation('parsed fields / id / re-serialisation differ from the independent parser',
                          {'op': op, 'strict': strict, 'kind': kind, 'observed': py, 'spec': spec, 'extra': extra})
        self.pending = []


def rbytes_(rng, n):
    return bytes(rng.randrange(256) for _ in range(n))


def run(ctx):
    from bitcoinlib.transactions import Transaction, TransactionError
    from bitcoinlib.scripts import ScriptError
    rng = ctx.rng
    T = ctx.thorough
    ctx.rule = ('synthetic well-formed transactions from an independent serialiser (all script kinds incl. empty / one-byte / '
                'non-standard, coinbase, counts across 252/253, witness stacks with empty and one-byte items), the repository\'s '
                'raw test vectors and real mainnet blocks, parsed by the library (strict and non-strict, both block readers) and by '
                'the Lean parser; fields, txid, block hash/target and re-serialisation compared. non-trivial = distinct raw '
                'transaction / block that parses')
    raws = []
    try:
        d = json.load(open(os.path.join(REPO, 'tests', 'transactions_raw.json')))
        for name, rawhex in [(x[0], x[1]) for x in d['transactions']]:
            raws.append(('corpus', bytes.fromhex(rawhex), True))
    except Exception as e:
        ctx.notes.append('corpus not loaded: %r' % e)
    import glob
    for fn in sorted(glob.glob(os.path.join(os.path.dirname(os.path.dirname(os.path.abspath(__file__))), 'corpus', 'C06', '*.hex'))):
        raws.append(('corpus', bytes.fromhex(open(fn).read().strip()), False))
    n = 3000 if T else 600
    for i in range(n):
        std = rng.random() < 0.4
        tx = txgen.rand_tx(rng, standard_only=std, big=(rng.random() < (0.02 if T else 0.005)))
        raws.append(('synthetic-std' if std else 'synthetic', txgen.ser_tx(tx), std))
    for b in range(256):     # boundary: every one-byte script / witness item value
        tx = {'version': 2, 'ins': [(b'\x11' * 32, 0, b'', 0xffffffff)], 'outs': [(1000, bytes([b]))],
              'wit': [[bytes([b]), bytes([b])]], 'locktime': 0}
        raws.append(('boundary', txgen.ser_tx(tx), False))

    # segwit-serialised coinbase transactions: the witness reserved value is arbitrary 32 bytes (and may look like a script)
    for rv in (b'\0' * 32, b'\x51' * 32, b'\xff' * 32, bytes(range(32)), b'witness reserved value, 32 bytes', bytes(rng.randrange(256) for _ in range(32)),
               b'\x20' + bytes(31), b'\x00\x14' + bytes(30)):
        cbtx = {'version': 2, 'ins': [(b'\0' * 32, 0xffffffff, b'\x03\x01\x02\x03' + bytes(rng.randrange(256) for _ in range(rng.randrange(0, 20))), 0xffffffff)],
                'outs': [(625000000, b'\x00\x14' + b'\x77' * 20), (0, b'\x6a\x24\xaa\x21\xa9\xed' + bytes(32))], 'wit': [[rv]], 'locktime': 0}
        raws.append(('coinbase-segwit', txgen.ser_tx(cbtx), False))
    # boundary: CompactSize thresholds of every length prefix (script, scriptSig, witness item; thorough: counts)
    for ln in (252, 253, 254, 65534, 65535, 65536):
        nop = b'\x61' * ln
        raws.append(('boundary-len', txgen.ser_tx({'version': 1, 'ins': [(b'\x22' * 32, 1, b'', 0xfffffffe)], 'outs': [(5000, nop)], 'wit': None, 'locktime': 7}), False))
        raws.append(('boundary-len', txgen.ser_tx({'version': 1, 'ins': [(b'\x22' * 32, 1, nop, 0xfffffffe)], 'outs': [(5000, b'\x51')], 'wit': None, 'locktime': 7}), False))
        raws.append(('boundary-len', txgen.ser_tx({'version': 2, 'ins': [(b'\x22' * 32, 1, b'', 0xfffffffe)], 'outs': [(5000, b'\x00\x14' + b'\x33' * 20)],
                                                   'wit': [[nop, b'\x02' + b'\x44' * 32]], 'locktime': 7}), False))
    if T:
        for cnt in (65534, 65535, 65536):
            raws.append(('boundary-count', txgen.ser_tx({'version': 1, 'ins': [(b'\x22' * 32, 1, b'', 0xfffffffe)], 'outs': [(1, b'\x51')] * cnt, 'wit': None, 'locktime': 0}), False))

    chk = TxChecker(ctx)
    refused = 0
    # transactions built through the API (relative lock times and replace-by-fee sequences included): what the object reports -
    # version in both of its forms, lock time, inputs, outputs, id after sign_and_update() - is what an independent parser reads
    # from its bytes
    for trial in range(80 if T else 24):
        # (the first one has legacy inputs only, in a transaction object of the default segwit kind)
        t, d = txgen.build_api_tx(rng, nin=rng.randint(1, 3), max_n=3, public_only=False, kinds=['p2pkh', 'p2pkh_unc', 'p2sh_ms'] if trial == 0 else None)
        try:
            v_bytes, v_int, v_dict = int.from_bytes(t.version, 'big'), t.version_int, t.as_dict()['version']
            raw0 = t.raw()
            t.sign()
            t.sign_and_update()
            raw1 = t.raw()
        except Exception as e:
            ctx.violation('building, signing and serialising a standard transaction through the API raised', {'op': 'api-built', 'error': repr(e)[:150]})
            continue
        ctx.evals += 1
        ctx.count('api-built')
        if not (v_bytes == v_int == v_dict == int.from_bytes(raw0[:4], 'little')):
            ctx.violation('the version an API-built transaction reports differs from the version it serialises', {'op': 'api-built version', 'version_bytes': v_bytes, 'version_int': v_int,
                          'as_dict': v_dict, 'serialised': int.from_bytes(raw0[:4], 'little'), 'sequences': [i_.sequence for i_ in t.inputs]})
            continue
        if raw1[:4] != raw0[:4]:
            ctx.violation('sign_and_update() changed the serialised version of the transaction', {'op': 'api-built version', 'before': raw0[:4].hex(), 'after': raw1[:4].hex(),
                          'sequences': [i_.sequence for i_ in t.inputs]})
            continue
        if raw1[4:6] == b'\x00\x01' and all(m_['wt'] == 'legacy' for m_ in d['meta']):
            # BIP144: a transaction without witness data has the old serialisation; nodes reject bytes that carry the witness flag and
            # only empty witness stacks ("superfluous witness record") - the Lean parser is lenient here, so this is checked directly
            rep_ = {'op': 'api-built superfluous-witness', 'kinds': [m_['kind'] for m_ in d['meta']], 'raw_prefix': raw1[:12].hex()}
            if any(f['id'] == 'F111' for f in ctx.known):
                ctx.known_hit('F111', rep_)          # listed finding (the repair is pinned out by a baseline test)
            else:
                ctx.violation('a signed transaction whose inputs are all legacy serialises with the segwit marker and empty witness stacks (not readable by a consensus parser)', rep_)
                continue
        ctx.count('api-built:all-legacy-inputs' if all(m_['wt'] == 'legacy' for m_ in d['meta']) else 'api-built:with-segwit-input')
        chk.add(raw1, dump_py(t, raw1), False, 'api-built')
    # a witness stack handed over as ONE byte string (as in a raw transaction; the form in which stored transactions come back from the
    # wallet database): the input holds exactly the items, whatever their sizes, and serialises them again
    from bitcoinlib.transactions import Input
    for trial in range(300 if T else 60):
        nit = rng.choice([1, 3, 3, 4, 5])           # (two items are read as signature + key)
        items = [rbytes_(rng, rng.choice([1, 2, 20, 32, 33, 71, 72, 75, 76, 77, 252, 253, 254, 255, 256, 275, 520, 1000, 65535, 65536] if trial % 3 == 0 else [1, 33, 72, 76, 252, 253, 254, 300]))
                 for _ in range(nit)]
        blob = txgen.cs(len(items)) + b''.join(txgen.vs(i_) for i_ in items)
        ctx.evals += 1
        ctx.count('witness-as-bytes')
        try:
            inp = Input(b'\x11' * 32, 0, witnesses=blob, witness_type='segwit', strict=False)
            got = [bytes(w) for w in inp.witnesses]
            t_ = Transaction(witness_type='segwit')
            t_.add_input(b'\x11' * 32, 0, witnesses=blob, witness_type='segwit', strict=False)
            got2 = [bytes(w) for w in t_.inputs[0].witnesses]
        except Exception as e:
            got, got2 = 'raise:' + type(e).__name__, None
        if got != items or got2 != items:
            ctx.violation('a witness stack given as one byte string is not held item for item', {'op': 'witness-as-bytes', 'item_sizes': [len(i_) for i_ in items],
                          'observed_sizes': got if isinstance(got, str) else [len(w) for w in got], 'blob_prefix': blob[:40].hex()})
            break
    for kind, raw, std in raws:
        for strict in ((True, False) if std else (False,)):
            try:
                py = dump_py(Transaction.parse_bytes(raw, strict=strict), raw)
            except (TransactionError, ScriptError):
                if strict:
                    ctx.count('strict-refusal')
                    refused += 1
                    continue
                py = 'none'
            except Exception as e:
                py = 'raise:' + type(e).__name__ + ':' + str(e)[:60]
            chk.add(raw, py, strict, kind)
    chk.flush()
    ctx.extra['strict_refusals_not_counted_as_violation'] = refused
    run_blocks(ctx, chk)
    ctx.exhaustive = False
    ctx.assumptions += ['strict=True refusals of non-standard content are counted, not treated as violations (documented mode for '
                        'arbitrary chain data is strict=False, which Block uses)']


def run_blocks(ctx, chk):
    from bitcoinlib.blocks import Block
    rng = ctx.rng
    T = ctx.thorough
    blocks = []
    names = ['block250000', 'block330000'] + (['block625007', 'block629999', 'block722010'] if T else [])
    for n in names:
        try:
            blocks.append((n, pickle.load(open(os.path.join(REPO, 'tests', n + '.pickle'), 'rb'))))
        except Exception as e:
            ctx.notes.append('block corpus %s not loaded: %r' % (n, e))
    for k in range(40 if T else 12):
        ntx = rng.choice([1, 2, 3, 10, 252, 253]) if k % 6 == 0 else rng.randint(1, 8)
        cb = txgen.rand_tx_clean(rng, standard_only=False)
        cb['ins'] = [(b'\0' * 32, 0xffffffff, b'\x03' + txgen.rbytes(rng, 3) + txgen.rbytes(rng, rng.randint(0, 20)), 0xffffffff)]
        if cb['wit'] is not None:
            cb['wit'] = [[rng.choice([b'\0' * 32, b'\x51' * 32, bytes(rng.randrange(256) for _ in range(32)), b'witness reserved value, 32 bytes'])]]
        txs = [cb] + [txgen.rand_tx_clean(rng, standard_only=rng.random() < 0.5) for _ in range(ntx - 1)]
        exp = rng.choice([0x1d, 0x1c, 0x17, 0x20, 0x04, 0x03])
        bits = (exp << 24) | rng.randrange(1, 2**23)
        hdr = rng.choice([1, 2, 0x20000000, rng.getrandbits(32)]).to_bytes(4, 'little') + txgen.rbytes(rng, 32) + \
            txgen.rbytes(rng, 32) + rng.getrandbits(32).to_bytes(4, 'little') + bits.to_bytes(4, 'little') + \
            rng.getrandbits(32).to_bytes(4, 'little')
        blocks.append(('synthetic%d' % k, hdr + txgen.cs(len(txs)) + b''.join(txgen.ser_tx(t) for t in txs)))

    # the dictionary reader copies the script bytes: it must give the consensus ids also for transactions in the region of the listed
    # finding F02 (a script that is the single byte 00), which the object reader re-serialises differently
    for k in range(6 if T else 3):
        txs = []
        for j in range(rng.randrange(2, 6)):
            tx = txgen.rand_tx_clean(rng, standard_only=False)
            if rng.random() < 0.6:
                which = rng.choice(['in', 'out', 'both'])
                if which in ('in', 'both') and tx['wit'] is None:
                    tx['ins'][0] = (tx['ins'][0][0], tx['ins'][0][1], b'\x00', tx['ins'][0][3])
                if which in ('out', 'both'):
                    tx['outs'][0] = (tx['outs'][0][0], b'\x00')
            txs.append(tx)
        hdr = (1).to_bytes(4, 'little') + txgen.rbytes(rng, 64) + rng.getrandbits(32).to_bytes(4, 'little') + (0x1d00ffff).to_bytes(4, 'little') + rng.getrandbits(32).to_bytes(4, 'little')
        raw = hdr + txgen.cs(len(txs)) + b''.join(txgen.ser_tx(t) for t in txs)
        want = [txgen.sha256d(txgen.ser_tx(t, with_witness=False))[::-1].hex() for t in txs]
        try:
            b2 = Block.parse_bytes(raw)
            got = [(d['txid'].hex() if isinstance(d['txid'], bytes) else d['txid']) for d in b2.parse_transactions_dict()]
        except Exception as e:
            got = 'raise:%s' % type(e).__name__
        spec_ids = run_driver(['block_parse ' + raw.hex()])[0].split(' | ')[0].split(' txids=')[1].split(' ')[0].split(',')
        ctx.evals += 1
        ctx.count('block:dict-reader-with-00-scripts')
        if got != want or spec_ids != want:
            ctx.violation('the dictionary block reader reports transaction ids that are not the double-SHA256 of the stripped bytes',
                          {'op': 'block_parse <dict reader, %d bytes>' % len(raw), 'rawhex_prefix': raw[:300].hex(), 'observed': got, 'expected': want,
                           'lean_parser': spec_ids})

    for name, raw in blocks:
        txs_py = []
        try:
            b1 = Block.parse_bytes(raw, parse_transactions=True)
            txids1 = [t.txid for t in b1.transactions]
            try:
                reser = 'same' if b1.serialize() == raw else 'differs'
            except Exception as e:
                reser = 'raise:' + type(e).__name__
            b2 = Block.parse_bytes(raw)
            txids2 = [(d['txid'].hex() if isinstance(d['txid'], bytes) else d['txid']) for d in b2.parse_transactions_dict()]
            py = 'ver=%d prev=%s merkle=%s time=%d bits=%d nonce=%d hash=%s target=%d n=%d txids=%s rest=0' % (
                b1.version_int, b1.prev_block.hex(), b1.merkle_root.hex(), b1.time, b1.bits_int, b1.nonce_int,
                b1.block_hash.hex(), b1.target, b1.tx_count, ','.join(txids1))
            second = 'same-ids' if txids1 == txids2 else 'second-reader-differs:' + ','.join(txids2)[:2000]
            # the incremental readers and the other entry points: one transaction at a time; a limited first pass completed later
            if second == 'same-ids' and len(raw) < 400000:
                b3 = Block.parse_bytes(raw)
                txids3 = []
                while True:
                    t3 = b3.parse_transaction()
                    if not t3:
                        break
                    txids3.append(t3.txid)
                lim = rng.randrange(1, max(2, len(txids1)))
                b4 = Block.parse(raw, parse_transactions=True, limit=lim)
                n4 = len(b4.transactions)
                b4.parse_transactions()
                txids4 = [t.txid for t in b4.transactions]
                # (a block that does not start at the beginning of its stream, as in a file of several blocks)
                pre_ = bytes(rng.randrange(256) for _ in range(rng.choice([0, 8, 8, 293])))
                post_ = rng.choice([b'', b'', raw[:80] + b'\x00', raw if len(raw) < 100000 else raw[:81]])       # ... and another block may follow
                ctx.count('block:stream-with-%s' % ('following-bytes' if post_ else 'nothing-after'))
                st5 = BytesIO(pre_ + raw + post_)
                st5.read(len(pre_))
                # (a reader that starts at the wrong offset can loop over a garbage count for hours: a wall-clock limit far
                #  above what a block of this size takes turns that into a reported disagreement instead of a hang)
                def _late(signum, frame):
                    raise RuntimeError('Block.parse_bytesio on a pre-positioned stream did not return within 300 s')
                old_ = signal.signal(signal.SIGALRM, _late) if threading.current_thread() is threading.main_thread() else None
                if old_ is not None:
                    signal.alarm(300)
                try:
                    b5 = Block.parse_bytesio(st5, parse_transactions=True)
                finally:
                    if old_ is not None:
                        signal.alarm(0)
                        signal.signal(signal.SIGALRM, old_)
                txids5 = [t.txid for t in b5.transactions]
                ctx.count('block:incremental-readers')
                if txids3 != txids1:
                    second = 'parse_transaction-reader-differs:' + ','.join(txids3)[:2000]
                elif txids4 != txids1 or n4 != min(lim, len(txids1)):
                    second = 'limited-then-completed-reader-differs(limit=%d,first=%d):' % (lim, n4) + ','.join(txids4)[:2000]
                elif txids5 != txids1 or b5.block_hash != b1.block_hash:
                    second = 'parse_bytesio-reader-differs:' + ','.join(txids5)[:2000]
                elif b4.serialize() != raw:
                    second = 'limited-then-completed-block-reserialises-differently'
            txs_py = b1.transactions
        except Exception as e:
            py, second, reser = 'raise:%s:%s' % (type(e).__name__, str(e)[:80]), '', ''
        spec_full = run_driver(['block_parse ' + raw.hex()], ctx.flags)[0].split(' | ')[0].strip()
        spec = spec_full.rsplit(' reser=', 1)[0]
        ctx.evals += 1; ctx.traces += 1
        ctx.count('block:' + ('corpus' if name.startswith('block') else 'synthetic'))
        ctx.nontrivial.add(hash(raw))
        if py != spec or second != 'same-ids':
            i = 0
            while i < min(len(py), len(spec)) and py[i] == spec[i]:
                i += 1
            ctx.violation('block header / hash / target / transaction ids differ (or the two block readers disagree)',
                          {'op': 'block_parse <%s, %d bytes>' % (name, len(raw)), 'rawhex_prefix': raw[:200].hex(),
                           'observed': py[max(0, i - 100):i + 300], 'spec': spec[max(0, i - 100):i + 300],
                           'second_reader': second[:300]})
            continue
        # every contained transaction goes through the single-transaction comparison (fields, id, raw())
        for t in txs_py:
            chk.add(t.rawtx, dump_py(t, t.rawtx), False, 'blocktx:' + ('corpus' if name.startswith('block') else 'synthetic'))
        before = (len(ctx.violations), dict(ctx.known_hits))
        chk.flush()
        tx_explained = len(ctx.violations) == before[0] and ctx.known_hits != before[1]
        if reser != 'same':
            if tx_explained and reser == 'differs':
                ctx.count('block-reserialisation-differs-only-by-listed-finding-transactions')
            else:
                ctx.violation('block re-serialisation is not byte-identical',
                              {'op': 'block_parse <%s, %d bytes>' % (name, len(raw)), 'rawhex_prefix': raw[:200].hex(), 'reser': reser})
        ctx.sample({'block': name, 'n_tx': len(txs_py), 'hash': spec.split(' hash=')[1][:64], 'agrees': True})


def replay(ctx, obj):
    from bitcoinlib.transactions import Transaction
    op = obj['replay']['op']
    if not op.startswith('tx_parse '):
        print('block replays: re-run the check')
        run(ctx)
        return 1 if ctx.violations else 0
    raw = bytes.fromhex(op.split(' ')[1])
    try:
        py = dump_py(Transaction.parse_bytes(raw, strict=obj['replay'].get('strict', False)), raw)
    except Exception as e:
        py = 'none'
    spec = strip_wtxid(run_driver([op], ctx.flags)[0].split(' | ')[0])
    print('impl:', py[:500]); print('spec:', spec[:500])
    bad = norm_wit(py) != norm_wit(spec)
    print('still failing' if bad else 'no longer failing')
    return 1 if bad else 0
