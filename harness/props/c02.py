"""C02 — transaction verification sound and complete for standard inputs."""
import copy
from harness.core import hexp, run_driver
from harness import txgen


def run(ctx):
    from bitcoinlib.transactions import Transaction
    from bitcoinlib.keys import Key, sign
    rng = ctx.rng
    T = ctx.thorough
    ctx.rule = ('API-built transactions over 8 spend kinds with 1..3 inputs, m-of-n up to 3 (thorough 5, sampled 15); for every input a '
                'random subset and order of signers, spread over 1..3 sign() calls incl. repeated keys; then every single-field tampering of '
                'the signed object and of its serialise/parse round trip (output value/script, outpoint, sequence, locktime, version, segwit '
                'input amount, corrupted / foreign / missing signature). The library verdict is compared with an independent Lean verifier '
                '(parse, template extraction, consensus digest, secp256k1 ECDSA, m-of-n matching, script-hash commitment to the previous output). '
                'non-trivial = distinct (transaction, schedule, tampering)')
    n_tx = 300 if T else 60

    def prevouts(d):
        return ';'.join('%s:%d' % (m['spk'].hex(), m['val']) for m in d['meta'])

    def lean_verdict(items):
        res = run_driver(['verify_tx %s %s' % (raw.hex(), po) for raw, po in items])
        return [r.split(' | ')[0].strip() for r in res]

    checks = []      # (label, lib_verdict, expectation, raw, prevouts, info)

    agg = []         # (library verdict, per-input facts) for the aggregation model `txVerify`

    def lib_verify(t):
        try:
            r = bool(t.verify())
        except Exception as e:
            return 'raise:' + type(e).__name__
        try:
            # what Transaction.verify makes of its inputs: every input passed its own check, and an input typed coinbase only counts as
            # the single null-outpoint input (the per-input verdicts are read back from the objects)
            facts = ','.join('%d:%d:%d' % (1 if i.script_type == 'coinbase' else 0, i.output_n_int,
                                           1 if (i.script_type == 'coinbase' or bool(i.verify(t.signature_hash(i.index_n, i.hash_type, i.witness_type)))) else 0)
                             for i in t.inputs)
            agg.append((r, facts))
        except Exception:
            pass
        return r

    def raw_of(t):
        try:
            return t.raw()
        except Exception:
            return None

    for trial in range(n_tx):
        big = T and trial % 20 == 0
        t, d = txgen.build_api_tx(rng, nin=rng.randint(1, 3), max_n=(15 if big else 5 if T else 3), public_only=True)
        po = prevouts(d)
        # --- signing schedule -------------------------------------------------------------------------------
        complete = True
        plan = []
        for i, m in enumerate(d['meta']):
            n = len(m['keys'])
            k = rng.choice([m['m'], m['m'], n, max(m['m'] - 1, 0), rng.randint(0, n)])
            signers = rng.sample(m['keys'], k)
            if k < m['m']:
                complete = False
            plan.append(signers)
        calls = []
        for i, signers in enumerate(plan):
            if not signers:
                continue
            pieces = rng.randint(1, min(3, len(signers)))
            cut = sorted(rng.sample(range(1, len(signers)), pieces - 1)) if pieces > 1 else []
            parts = [signers[a:b] for a, b in zip([0] + cut, cut + [len(signers)])]
            for p in parts:
                calls.append((i, p))
            if rng.random() < 0.3:
                calls.append((i, [rng.choice(signers)] + (rng.sample(signers, 1) if rng.random() < 0.5 else [])))    # re-signing
        rng.shuffle(calls)
        whole = rng.random() < 0.35          # sign the whole transaction at once: keys of several inputs per call, no index
        if whole and calls:
            merged = []
            ngrp = rng.randint(1, 3)
            for grp in range(ngrp):
                ks = [k for (i, keys) in calls[grp::ngrp] for k in keys]
                if ks:
                    merged.append((None, ks))
            calls = merged
        err = None
        for i, keys in calls:
            try:
                if i is None:
                    t.sign(list(keys), fail_on_unknown_key=False)
                else:
                    t.sign(list(keys), index_n=i)
            except Exception as e:
                err = repr(e)[:100]
                break
        if err:
            ctx.violation('sign() raised for keys that belong to the input', {'op': 'sign-schedule', 'error': err,
                          'schedule': [(i, [k.public_hex for k in ks]) for i, ks in calls], 'kinds': [m['kind'] for m in d['meta']]})
            continue
        lv = lib_verify(t)
        raw = raw_of(t)
        info = {'kinds': [m['kind'] for m in d['meta']], 'm_of_n': [(m['m'], len(m['keys'])) for m in d['meta']],
                'schedule': [(i, [k.public_hex[:10] for k in ks]) for i, ks in calls]}
        checks.append(('signed', lv, 'valid' if complete else 'invalid', raw, po, info))
        if not complete or lv is not True or raw is None:
            continue
        # --- tampering of the signed object and of its round trip -------------------------------------------------
        variants = [('object', t)]
        try:
            t2 = Transaction.parse_bytes(raw, strict=True)
            for i, m in enumerate(d['meta']):
                t2.inputs[i].value = m['val']
                if m['kind'] == 'p2pk':
                    t2.inputs[i].keys = list(m['keys'])          # the key is in the previous output, not in the transaction
                    t2.inputs[i].script_type = 'signature'
                    t2.inputs[i].update_scripts()
            lv2 = lib_verify(t2)
            checks.append(('roundtrip', lv2, 'valid', raw_of(t2), po, info))
            if lv2 is True:
                variants.append(('roundtrip', t2))
        except Exception as e:
            ctx.violation('a fully signed standard transaction does not parse back', {'op': 'roundtrip', 'error': repr(e)[:120], 'raw': raw.hex(), **info})
        for vname, base in variants:
            tampers = ['out_value', 'out_script', 'prev_txid', 'output_n', 'sequence', 'locktime', 'version', 'version_bytes', 'in_value', 'sig_corrupt',
                       'sig_foreign', 'sig_drop', 'sig_hashtype', 'prev_txid_zero', 'sig_hashtype_other', 'version_raw', 'locktime_raw']
            for tm in (tampers if T else rng.sample(tampers[:13], 5) + tampers[13:]):
                tt = copy.deepcopy(base)
                i = rng.randrange(len(tt.inputs))
                m = d['meta'][i]
                expect = 'invalid'
                po2 = po
                try:
                    if tm == 'out_value':
                        tt.outputs[rng.randrange(len(tt.outputs))].value += 1
                    elif tm == 'out_script':
                        o = tt.outputs[rng.randrange(len(tt.outputs))]
                        o.lock_script = o.lock_script[:-1] + bytes([o.lock_script[-1] ^ 1])
                    elif tm == 'prev_txid':
                        tt.inputs[i].prev_txid = tt.inputs[i].prev_txid[:-1] + bytes([tt.inputs[i].prev_txid[-1] ^ 1])
                    elif tm == 'output_n':
                        tt.inputs[i].output_n = (int.from_bytes(tt.inputs[i].output_n, 'big') ^ 1).to_bytes(4, 'big')
                    elif tm == 'sequence':
                        tt.inputs[i].sequence ^= 1
                    elif tm == 'locktime':
                        tt.locktime ^= 1
                    elif tm == 'version':
                        tt.version_int ^= 2
                        tt.version = tt.version_int.to_bytes(4, 'big')
                    elif tm == 'version_bytes':
                        # only the serialised field changes (what raw() writes); the integer copy is left alone
                        tt.version = (int.from_bytes(tt.version, 'big') ^ 2).to_bytes(4, 'big')
                    elif tm == 'in_value':
                        tt.inputs[i].value += 1
                        if m['wt'] != 'segwit':
                            expect = 'valid'          # a legacy digest does not commit to the amount
                        # the network uses the real amount: the serialisation is unchanged and stays valid there
                        po2 = None
                    elif tm in ('version_raw', 'locktime_raw'):
                        # the field is changed in the bytes a receiver gets - to the values a reader may be tempted to "normalise" (0, 1, 2)
                        braw = raw_of(base)
                        cur_ = braw[:4] if tm == 'version_raw' else braw[-4:]
                        new_ = rng.choice([v_ for v_ in (b'\x00\x00\x00\x00', b'\x01\x00\x00\x00', b'\x02\x00\x00\x00', b'\xff\xff\xff\xff') if v_ != cur_][:3])
                        braw2 = (new_ + braw[4:]) if tm == 'version_raw' else (braw[:-4] + new_)
                        tt = Transaction.parse_bytes(braw2, strict=False)
                        for j, mm in enumerate(d['meta']):
                            tt.inputs[j].value = mm['val']
                            if mm['kind'] == 'p2pk':
                                tt.inputs[j].keys = list(mm['keys'])
                                tt.inputs[j].script_type = 'signature'
                                tt.inputs[j].update_scripts()
                    elif tm == 'prev_txid_zero':
                        # the outpoint's transaction id replaced by zeros in the bytes a receiver gets (the output number stays, so this is
                        # not the null outpoint of a coinbase transaction)
                        braw = raw_of(base)
                        pos = braw.find(base.inputs[i].prev_txid[::-1] + base.inputs[i].output_n[::-1])
                        if pos < 0 or base.inputs[i].output_n == b'\xff\xff\xff\xff':
                            continue
                        tt = Transaction.parse_bytes(braw[:pos] + b'\0' * 32 + braw[pos + 32:], strict=False)
                        for j, mm in enumerate(d['meta']):
                            tt.inputs[j].value = mm['val']
                    elif tm == 'sig_hashtype_other':
                        # the hash type byte of a LATER signature of a multisig input (every signature names its own digest)
                        if m['m'] < 2 or m['kind'] not in ('p2sh_ms', 'p2wsh_ms', 'p2sh_p2wsh_ms') or len(base.inputs[i].signatures) < 2:
                            continue
                        braw = raw_of(base)
                        sigb = base.inputs[i].signatures[rng.randrange(1, len(base.inputs[i].signatures))].as_der_encoded()
                        pos = braw.find(sigb)
                        if pos < 0:
                            continue
                        braw2 = braw[:pos] + sigb[:-1] + bytes([rng.choice([0x02, 0x03, 0x81, 0x82, 0x83, 0x00, 0x41])]) + braw[pos + len(sigb):]
                        tt = Transaction.parse_bytes(braw2, strict=False)
                        for j, mm in enumerate(d['meta']):
                            tt.inputs[j].value = mm['val']
                    elif tm in ('sig_corrupt', 'sig_foreign', 'sig_drop', 'sig_hashtype'):
                        # tamper with the *serialisation*, then parse: this is what a receiver of the bytes sees
                        braw = raw_of(base)
                        sigb = base.inputs[i].signatures[0].as_der_encoded()
                        pos = braw.find(sigb)
                        if pos < 0:
                            continue
                        if tm == 'sig_corrupt':
                            newsig = sigb[:-2] + bytes([sigb[-2] ^ 1]) + sigb[-1:]            # flip the last bit of s
                        elif tm == 'sig_hashtype':
                            # the hash type byte of the signature says which digest it signs: another byte, another digest
                            newsig = sigb[:-1] + bytes([rng.choice([0x02, 0x03, 0x81, 0x82, 0x00])])
                        elif tm == 'sig_foreign':
                            digest = base.signature_hash(i, 1, base.inputs[i].witness_type)
                            newsig = sign(digest, Key(rng.randrange(1, 2**200))).as_der_encoded()
                            if len(newsig) != len(sigb):
                                continue
                        else:
                            if m['m'] < 2 or m['kind'] not in ('p2sh_ms', 'p2wsh_ms', 'p2sh_p2wsh_ms'):
                                continue
                            # replace the first signature by a copy of the second: m-1 distinct signers remain
                            other = base.inputs[i].signatures[1].as_der_encoded()
                            if len(other) != len(sigb):
                                continue
                            newsig = other
                        braw2 = braw[:pos] + newsig + braw[pos + len(sigb):]
                        tt = Transaction.parse_bytes(braw2, strict=False)
                        for j, mm in enumerate(d['meta']):
                            tt.inputs[j].value = mm['val']
                            if mm['kind'] == 'p2pk':
                                tt.inputs[j].keys = list(mm['keys'])
                                tt.inputs[j].script_type = 'signature'
                                tt.inputs[j].update_scripts()
                except Exception as e:
                    ctx.count('tamper-not-applicable:' + tm)
                    continue
                checks.append(('%s:%s' % (vname, tm), lib_verify(tt), expect, raw_of(tt) if po2 else None, po2, dict(info, tampered_input=i)))

    # --- keys attached to the inputs: sign() without arguments, a change to the signed transaction, then sign_and_update() -----------
    import hashlib
    for trial in range(30 if T else 8):
        t, d = txgen.build_api_tx(rng, nin=rng.randint(1, 3), max_n=3, public_only=False)
        po = prevouts(d)
        info = {'kinds': [m['kind'] for m in d['meta']], 'm_of_n': [(m['m'], len(m['keys'])) for m in d['meta']], 'schedule': 'attached keys'}
        try:
            t.sign()
        except Exception as e:
            ctx.violation('sign() with the keys attached to the inputs raised', {'op': 'sign-attached', 'error': repr(e)[:120], **info})
            continue
        checks.append(('signed', lib_verify(t), 'valid', raw_of(t), po, info))
        what = rng.choice(['out_value', 'locktime', 'sequence', 'version'])
        try:
            if what == 'out_value':
                t.outputs[rng.randrange(len(t.outputs))].value += 1
            elif what == 'locktime':
                t.locktime ^= 1
            elif what == 'sequence':
                t.inputs[rng.randrange(len(t.inputs))].sequence ^= 1
            else:
                t.version_int ^= 3
                t.version = t.version_int.to_bytes(4, 'big')
            checks.append(('changed-after-signing:' + what, lib_verify(t), 'invalid', raw_of(t), po, dict(info, tampered_input=None)))
            t.sign_and_update()
        except Exception as e:
            ctx.violation('sign_and_update() after a change raised', {'op': 'resign', 'error': repr(e)[:120], 'changed': what, **info})
            continue
        raw = raw_of(t)
        checks.append(('signed', lib_verify(t), 'valid', raw, po, dict(info, resigned_after=what)))
        if raw is not None:
            stripped = txgen.strip_witness(raw) if hasattr(txgen, 'strip_witness') else None
            t3 = Transaction.parse_bytes(raw, strict=False)
            ctx.evals += 1
            if t.txid != t3.txid or (stripped is not None and t.txid != hashlib.sha256(hashlib.sha256(stripped).digest()).digest()[::-1].hex()):
                ctx.violation('after sign_and_update() the reported id is not the id of the serialised transaction',
                              {'op': 'resign-txid', 'reported': t.txid, 'parsed_back': t3.txid, 'raw': raw.hex(), **info})

    # --- a multisig input signed by exactly m of its cosigners, changed, and signed again by the same cosigners (replace_signatures):
    # valid again, with exactly m signatures; Input.valid follows every verdict
    for trial in range(24 if T else 8):
        t, d = txgen.build_api_tx(rng, nin=1, max_n=4, public_only=True, kinds=['p2sh_ms', 'p2wsh_ms', 'p2sh_p2wsh_ms'])
        m0 = d['meta'][0]
        if len(m0['keys']) < 2:
            continue
        po = prevouts(d)
        signers = rng.sample(m0['keys'], m0['m'])
        info = {'kinds': [m0['kind']], 'm_of_n': [(m0['m'], len(m0['keys']))], 'schedule': 're-sign by positions %s' % sorted(m0['keys'].index(k_) for k_ in signers)}
        try:
            t.sign(list(signers), index_n=0)
            v1 = lib_verify(t)
            flag1 = t.inputs[0].valid
            t.outputs[0].value += 1
            v2 = lib_verify(t)
            flag2 = t.inputs[0].valid
            t.sign(list(signers), index_n=0, replace_signatures=True)
        except Exception as e:
            ctx.violation('signing a multisig input again after a change raised', {'op': 'resign-subset', 'error': repr(e)[:120], **info})
            continue
        ctx.count('resign-subset')
        if v1 is True and (flag1 is not True or (v2 is False and flag2 is True)):
            ctx.violation('Input.valid does not follow the verdict of verify()', {'op': 'input-valid-flag', 'after_signing': [v1, flag1], 'after_change': [v2, flag2], **info})
        checks.append(('signed', lib_verify(t), 'valid', raw_of(t), po, dict(info, resigned=True, signatures=len(t.inputs[0].signatures))))
        if len(t.inputs[0].signatures) != m0['m']:
            ctx.violation('after signing again the input carries another number of signatures than signers', {'op': 'resign-subset', 'signatures': len(t.inputs[0].signatures), **info})

    # --- inputs created from an ADDRESS only (no keys): the key is supplied when signing.  The right key gives a transaction the
    # independent verifier accepts for the output being spent; a wrong key must not give a transaction that the library calls valid
    from bitcoinlib.keys import Key as _Key
    for trial in range(30 if T else 10):
        nin_ = rng.randint(1, 3)
        ks_ = [_Key(rng.randrange(2 ** 200, 2 ** 250)) for _ in range(nin_)]
        kinds_ = [rng.choice(['p2pkh', 'p2wpkh', 'p2sh_p2wpkh']) for _ in range(nin_)]
        t = Transaction(network='bitcoin', witness_type='segwit')
        meta_ = []
        for k_, kind_ in zip(ks_, kinds_):
            wt_ = {'p2pkh': 'legacy', 'p2wpkh': 'segwit', 'p2sh_p2wpkh': 'p2sh-segwit'}[kind_]
            addr_ = k_.address(encoding='bech32' if kind_ == 'p2wpkh' else 'base58', script_type=kind_)
            txid_ = txgen.rbytes(rng, 32)
            n_ = rng.randrange(4)
            val_ = rng.choice([5000, 123456, 10 ** 8])
            h_ = txgen._h160(k_.public_byte)
            spk_ = {'p2pkh': b'\x76\xa9\x14' + h_ + b'\x88\xac', 'p2wpkh': b'\x00\x14' + h_,
                    'p2sh_p2wpkh': b'\xa9\x14' + txgen._h160(b'\x00\x14' + h_) + b'\x87'}[kind_]
            # the output being spent is named by its address or - equally key-less - by its scriptPubKey
            # (a P2SH scriptPubKey alone does not say what is nested in it: a nested input is named by its address form)
            form_ = rng.choice(['address', 'address', 'locking_script']) if kind_ != 'p2sh_p2wpkh' else 'address'
            ctx.count('key-less-input:' + form_)
            if form_ == 'address':
                t.add_input(txid_, n_, address=addr_, value=val_, witness_type=wt_)
            else:
                t.add_input(txid_, n_, locking_script=spk_, value=val_, witness_type=wt_)
            meta_.append({'spk': spk_, 'val': val_})
        t.add_output(1000, lock_script=b'\x00\x14' + txgen.rbytes(rng, 20))
        po = ';'.join('%s:%d' % (m_['spk'].hex(), m_['val']) for m_ in meta_)
        mode = rng.choice(['right', 'right-list', 'wrong', 'swapped'])
        info = {'kinds': kinds_, 'm_of_n': [(1, 1)] * nin_, 'schedule': 'address-only inputs, keys: ' + mode}
        ctx.count('address-only-inputs:' + mode)
        try:
            if mode == 'right':
                for i_, k_ in enumerate(ks_):
                    t.sign([k_], index_n=i_)
            elif mode == 'right-list':
                # all keys in one call, in any order, possibly with a key that belongs to no input
                kl_ = list(ks_) + ([_Key(rng.randrange(2 ** 200, 2 ** 250))] if rng.random() < 0.4 else [])
                rng.shuffle(kl_)
                t.sign(kl_, fail_on_unknown_key=False)
            elif mode == 'wrong':
                t.sign([_Key(rng.randrange(2 ** 200, 2 ** 250))], index_n=0, fail_on_unknown_key=False)
            else:
                if nin_ < 2:
                    continue
                t.sign([ks_[1]], index_n=0, fail_on_unknown_key=False)
                t.sign([ks_[0]], index_n=1, fail_on_unknown_key=False)
        except Exception as e:
            if mode.startswith('right'):
                ctx.violation('signing an address-only input with its own key raised', {'op': 'sign-address-only', 'error': repr(e)[:120], **info})
            continue
        checks.append(('signed-address-only:' + mode, lib_verify(t), 'valid' if mode.startswith('right') else 'invalid', raw_of(t), po, info))

    # --- a multisig input created from its ADDRESS only (script hash; the keys are not known to the transaction): whatever keys are handed
    # to sign(), a transaction the library calls valid must be valid for the output that address stands for
    import hashlib as _hl
    from bitcoinlib.keys import Address as _Address
    for trial in range(12 if T else 4):
        n_ = rng.choice([2, 3]); m_n = rng.randint(1, n_)
        ks_ = [_Key(rng.randrange(2 ** 200, 2 ** 250)) for _ in range(n_)]
        rs_ = txgen.ms_script(m_n, [k_.public_byte for k_ in ks_])
        kind_ = rng.choice(['p2sh_ms', 'p2wsh_ms'])
        if kind_ == 'p2sh_ms':
            addr_, spk_, wt_ = _Address(hashed_data=txgen._h160(rs_), script_type='p2sh', encoding='base58').address, b'\xa9\x14' + txgen._h160(rs_) + b'\x87', 'legacy'
        else:
            addr_, spk_, wt_ = _Address(hashed_data=_hl.sha256(rs_).digest(), script_type='p2wsh', encoding='bech32').address, b'\x00\x20' + _hl.sha256(rs_).digest(), 'segwit'
        val_ = rng.choice([5000, 123456])
        t = Transaction(network='bitcoin', witness_type='segwit')
        t.add_input(txgen.rbytes(rng, 32), rng.randrange(3), address=addr_, script_type='p2sh_multisig', value=val_, witness_type=wt_)
        t.add_output(1000, lock_script=b'\x00\x14' + txgen.rbytes(rng, 20))
        mode = rng.choice(['foreign', 'foreign', 'one-own', 'all-own'])
        signers = {'foreign': [_Key(rng.randrange(2 ** 200, 2 ** 250))], 'one-own': [ks_[0]], 'all-own': list(ks_)}[mode]
        ctx.count('address-only-multisig:' + mode)
        info = {'kinds': [kind_], 'm_of_n': [(m_n, n_)], 'schedule': 'address-only multisig input, keys handed to sign(): ' + mode}
        try:
            t.sign(signers, fail_on_unknown_key=False)
        except Exception:
            ctx.count('address-only-multisig:refused')
            continue
        # (no completeness demand: the script cannot be rebuilt from an address and some keys; but nothing invalid may be called valid)
        checks.append(('signed-address-only-multisig:' + mode, lib_verify(t), 'any', raw_of(t), '%s:%d' % (spk_.hex(), val_), info))

    # --- the aggregation over the inputs is the model's (`txVerify`) ---------------------------------------------------------------
    if agg:
        res = run_driver(['tx_verify ' + (f or '-') for _, f in agg])
        for (r, f), line in zip(agg, res):
            ctx.evals += 1
            ctx.count('aggregation:' + ('coinbase-typed-input' if any(x.startswith('1:') for x in f.split(',')) else 'plain'))
            if line.split(' | ')[0].strip() != ('true' if r else 'false'):
                ctx.violation('Transaction.verify() does not combine the verdicts of its inputs as the model does', {'op': 'tx_verify ' + f, 'library': r, 'model': line.split(' | ')[0]})
                break
    # --- independent verdicts ------------------------------------------------------------------------------------
    idx = [k for k, c in enumerate(checks) if c[3] is not None and c[4] is not None]
    verdicts = lean_verdict([(checks[k][3], checks[k][4]) for k in idx])
    lean = dict(zip(idx, verdicts))
    for k, (label, lv, expect, raw, po, info) in enumerate(checks):
        ctx.evals += 1; ctx.traces += 1
        ctx.count(label.split(':')[-1] if ':' in label else label)
        ctx.nontrivial.add(hash((label, raw, str(info))))
        lean_v = lean.get(k, '').split(' ')[0]
        problems = []
        if lv not in (True, False):
            problems.append('verify() raised: %s' % lv)
        if expect == 'valid' and lv is not True:
            problems.append('completeness: expected a valid transaction, library says %s' % lv)
        if expect == 'invalid' and lv is True:
            problems.append('soundness: library accepts what must not verify')
        if lean_v:
            if lv is True and lean_v != 'valid':
                problems.append('soundness: library accepts, independent verifier says %s' % lean.get(k))
            if expect == 'valid' and lean_v != 'valid' and label in ('signed', 'roundtrip'):
                problems.append('the signed transaction is not valid for the independent verifier: %s' % lean.get(k))
            if expect == 'invalid' and lean_v == 'valid' and not label.endswith('in_value'):
                problems.append('independent verifier accepts a transaction expected to be invalid (harness expectation wrong?)')
        if problems:
            ctx.violation('; '.join(problems), {'op': 'verify ' + label, 'library': lv, 'independent': lean.get(k), 'expected': expect,
                                                'raw': raw.hex() if raw else None, 'prevouts': po, **info})
        elif ctx.evals % 53 == 0:
            ctx.sample({'case': label, 'library': lv, 'independent': lean.get(k), 'expected': expect, **info})
    ctx.exhaustive = False
    ctx.assumptions += ['"tampering makes verification fail" rests on ECDSA / SHA-256 (a changed digest is not signed by the old signature) - named '
                        'cryptographic residue; the deterministic part (the digest is recomputed from the current fields) is C01',
                        'a re-parsed P2PK input gets its key from the previous output (supplied by the harness, as a node would)']


def replay(ctx, obj):
    r = obj['replay']
    if r.get('raw') and r.get('prevouts'):
        print('independent verifier:', run_driver(['verify_tx %s %s' % (r['raw'], r['prevouts'])])[0])
    run(ctx)
    print('%d violations in a fresh run' % len(ctx.violations))
    return 1 if ctx.violations else 0
