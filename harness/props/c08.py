"""C08 - wallet ledger consistency over histories: real Wallet objects on sqlite vs the Lean ledger machine."""
import os

from harness.core import run_driver, Infra

EXT = {'segwit': 'bc1qw508d6qejxtdg4y5r3zarvary0c5xw7kv8f3t4', 'legacy': '1BvBMSEYstWetqTFn5Au4m4GFg7xJaNVN2',
       'p2sh-segwit': '3J98t1WpEZ73CNmQviecrnyiWrnqRhWNLy'}
PUSH = {'mode': 'ok', 'accepted': []}


def install_fake_service():
    import bitcoinlib.wallets as W
    from bitcoinlib.transactions import Transaction

    class FakeService:
        def __init__(self, *a, **k):
            self.results = {'fake': 1}
            self.errors = {}
            self.complete = True

        def estimatefee(self, blocks=3, priority=''):
            return 20000

        def blockcount(self):
            return 800000

        def sendrawtransaction(self, raw):
            if PUSH['mode'] == 'fail':
                self.errors = {'fake': 'rejected'}
                return False
            PUSH['accepted'].append(raw)
            return {'txid': Transaction.parse_hex(raw).txid, 'response_dict': {}}

    W.Service = FakeService


class History:
    """one wallet, one database, one random history; the observations after every step"""

    def __init__(self, ctx, kind, hseed, nops):
        import random
        self.ctx, self.kind, self.hseed, self.nops = ctx, kind, hseed, nops
        self.rng = random.Random('%s/%s/%s' % (ctx.seed, kind, hseed))
        self.txids = {}        # hex -> int
        self.known_keys = set()
        self.ops = []          # model ops
        self.obs = []          # real observations, same format as the model
        self.descr = []        # human-readable real operations
        self.sent = []         # (txid hex, raw hex, ins, outs)
        self.stubs = []
        self.reload_problems = []
        self.broadcast_problems = []
        self.held_problems = []
        self.final = False

    def tid(self, h):
        if h not in self.txids:
            self.txids[h] = len(self.txids) + 1
        return self.txids[h]

    # -- wallet construction ------------------------------------------------------------------
    def create(self):
        from bitcoinlib.wallets import Wallet
        from bitcoinlib.keys import HDKey, Key
        rng = self.rng
        self.db = 'sqlite:///' + os.path.join(os.environ['BCL_DATA_DIR'], 'c08_%s_%s_%s.sqlite' % (self.kind.replace('-', '_'), self.ctx.seed, self.hseed))
        seed = bytes(rng.randrange(256) for _ in range(32))
        kind = self.kind
        self.name = 'w'
        if kind.startswith('hd-'):
            self.wt = kind[3:]
            # every second HD history runs on a wallet whose default account is not 0
            acckw = {'account_id': rng.choice([1, 5])} if self.hseed % 2 == 1 else {}
            self.w = Wallet.create(self.name, keys=HDKey.from_seed(seed, witness_type=self.wt), witness_type=self.wt, network='bitcoin', db_uri=self.db, **acckw)
            if acckw:
                self.ctx.count('wallet-with-default-account:%d' % acckw['account_id'])
        elif kind == 'single':
            self.wt = 'segwit'
            self.w = Wallet.create(self.name, keys=Key(int.from_bytes(seed, 'big') % (2 ** 255) + 1), scheme='single', witness_type='segwit', network='bitcoin', db_uri=self.db)
        elif kind.startswith('ms-'):
            self.wt = kind[3:]
            k1 = HDKey.from_seed(seed, witness_type=self.wt, multisig=True)
            k2 = HDKey.from_seed(seed[::-1], witness_type=self.wt, multisig=True).public_master_multisig(witness_type=self.wt)
            self.w = Wallet.create(self.name, keys=[k1, k2], sigs_required=1, witness_type=self.wt, network='bitcoin', db_uri=self.db)
        self.w.get_key()
        self.sync_keys()

    def open(self):
        from bitcoinlib.wallets import Wallet
        return Wallet(self.name, db_uri=self.db)

    def all_keys(self, w):
        return w.keys(is_active=None) if False else w.keys()

    def sync_keys(self):
        """every key row the wallet has created becomes a `key` op of the model"""
        for k in self.all_keys(self.w):
            if k.id not in self.known_keys:
                self.known_keys.add(k.id)
                self.ops.append('key.%d' % k.id)
                self.obs.append(None)          # not compared: bookkeeping op
                self.descr.append('(key row %d)' % k.id)

    def addr_keyid(self):
        return {k.address: k.id for k in self.all_keys(self.w) if k.address}

    def spendable_addresses(self):
        if self.kind == 'single':
            return [k for k in self.all_keys(self.w)]
        depth = self.w.key_depth
        return [k for k in self.all_keys(self.w) if k.depth == depth]

    # -- observation --------------------------------------------------------------------------
    def observe(self, status):
        rng = self.rng
        w = self.w
        parts = {}
        order = ['utxos', 'balance', 'keys', 'fresh']
        rng.shuffle(order)
        fresh = None
        for what in order:
            if what == 'utxos':
                parts['utxos'] = sorted((self.tid(u['txid']), u['output_n'], u['value']) for u in w.utxos())
            elif what == 'balance':
                parts['balance'] = w.balance()
                # the same question with the account and / or network named (single-account histories: the same answer)
                how = rng.choice(['network', 'account', 'both', None])
                if how:
                    kw = {}
                    if how in ('network', 'both'):
                        kw['network'] = w.network.name
                    if how in ('account', 'both'):
                        kw['account_id'] = w.default_account_id
                    other = w.balance(**kw)
                    self.ctx.count('balance-with:' + how)
                    if other != parts['balance']:
                        parts['balance'] = other          # the model comparison below reports it
                        self.named_balance_problem = {'kwargs': kw, 'answer': int(other)}
            elif what == 'keys':
                parts['keys'] = sorted((k.id, int(k.balance)) for k in self.all_keys(w) if k.balance)
            else:
                fresh = self.open()
                parts['fresh_keys'] = sorted((k.id, int(k.balance)) for k in self.all_keys(fresh) if k.balance)
                parts['fresh_utxos'] = sorted((self.tid(u['txid']), u['output_n'], u['value']) for u in fresh.utxos())
                parts['fresh_balance'] = fresh.balance(network=fresh.network.name) if rng.random() < 0.5 else fresh.balance()
        rows = {k.id: int(k.balance) for k in self.all_keys(w)}
        for w_, k_ in getattr(self, 'held', []):
            if w_ is w:
                self.ctx.evals += 1
                ob = int(k_.balance())
                if ob != rows.get(k_.key_id, 0):
                    self.held_problems.append({'key_id': k_.key_id, 'path': k_.path, 'object_balance': ob, 'ledger_balance': rows.get(k_.key_id, 0)})
        u = ','.join('%d-%d-%d' % x for x in parts['utxos'])
        fmt = lambda bal, ut, kb: '%s/%d/%s/%s' % (status, int(bal), ','.join('%d-%d-%d' % x for x in ut), ','.join('%d-%d' % x for x in kb))
        main = fmt(parts['balance'], parts['utxos'], parts['keys'])
        fr = fmt(parts['fresh_balance'], parts['fresh_utxos'], parts['fresh_keys'])
        if float(parts['balance']) != int(parts['balance']):
            main += '/non-integer-balance'
        return main, fr, order

    def record(self, op, status, descr):
        self.ops.append(op)
        self.descr.append(descr)
        self.obs.append(self.observe(status))

    # -- operations ---------------------------------------------------------------------------
    def body_of(self, t):
        a2k = self.addr_keyid()
        ins = ['%d-%d-%d' % (self.tid(i.prev_txid.hex()), i.output_n_int, i.value) for i in t.inputs]
        outs = ['%d-%s' % (o.value, a2k.get(o.address, 'x')) for o in t.outputs]
        return ','.join(ins), ','.join(outs)

    def parse_inputs(self, raw_hex):
        from bitcoinlib.transactions import Transaction
        try:
            return Transaction.parse_hex(raw_hex, strict=False).inputs
        except Exception:
            return []

    def op_add(self):
        rng = self.rng
        k = rng.choice(self.spendable_addresses())
        spent_pts = [(i.prev_txid.hex(), i.output_n_int) for (_, raw_, _, _) in self.sent[-3:]
                     for i in self.parse_inputs(raw_)]
        respent = False
        if not hasattr(self, 'out_info'):
            self.out_info = {}
        spent_pts = [pt for pt in spent_pts if pt in self.out_info]
        if spent_pts and rng.random() < 0.25:
            txid, n = rng.choice(spent_pts)          # the provider still lists an outpoint this wallet has spent already
            respent = True
            self.ctx.count('add:already-spent-outpoint')
        elif self.stubs and rng.random() < 0.15:
            txid, n = rng.choice(self.stubs)         # the same outpoint again (confirmations update)
        else:
            txid = '%064x' % rng.getrandbits(200)
            if self.stubs and rng.random() < 0.2:
                txid = rng.choice(self.stubs)[0]     # another output of a known transaction
            n = rng.choice([0, 1, 2, 3, 5, 7])
        val = rng.choice([546, 600, 10000, 50000, 123456, 10 ** 6, 2 * 10 ** 8])
        conf = rng.choice([0, 1, 6, 100])
        if respent:
            # (... with the address and the value it always had)
            addr_, val = self.out_info[(txid, n)]
            k = next(kk for kk in self.all_keys(self.w) if kk.address == addr_)
        elif (txid, n) in self.out_info:
            addr_, val = self.out_info[(txid, n)]
            k = next(kk for kk in self.all_keys(self.w) if kk.address == addr_)
        self.out_info[(txid, n)] = (k.address, val)
        self.w.utxo_add(k.address, val, txid, n, confirmations=conf)
        if not respent:
            self.stubs.append((txid, n))         # (a provider never invents further outputs of the wallet's own transactions)
        self.record('add.%d.%d.%d.%d.%d' % (k.id, val, self.tid(txid), n, conf), 'ok', 'utxo_add(key %d, %d, %s.., %d, conf=%d)' % (k.id, val, txid[:8], n, conf))

    def finish_send(self, t, descr):
        """t: WalletTransaction after send(); model op when it was pushed, otherwise nothing may have changed"""
        accepted, PUSH['accepted'] = PUSH['accepted'], []
        if accepted and not (t is not None and t.pushed):
            # the network has the transaction, the wallet raised or reports failure: its inputs must not stay spendable
            from bitcoinlib.transactions import Transaction
            tt = Transaction.parse_hex(accepted[-1])
            still = [(u['txid'][:8], u['output_n']) for u in self.w.utxos()
                     if any(u['txid'] == i.prev_txid.hex() and u['output_n'] == i.output_n_int for i in tt.inputs)]
            self.broadcast_problems.append({'op': descr, 'txid': tt.txid, 'inputs_still_listed_unspent': still})
        if t is not None and t.pushed:
            self.sync_keys()
            ins, outs = self.body_of(t)
            self.sent.append((t.txid, t.raw_hex(), ins, outs))
            self.sent_objs = getattr(self, 'sent_objs', []) + [t]
            self.record('send.%d.%s.%s' % (self.tid(t.txid), ins, outs), 'ok', descr + ' -> pushed %s..' % t.txid[:8])
            self.check_reload(self.w, 'same object')
        else:
            self.sync_keys()
            self.record('reopen', 'ok', descr + ' -> not pushed (%s)' % (getattr(t, 'error', None) if t is not None else 'refused'))

    def op_send(self):
        from bitcoinlib.wallets import WalletError
        rng = self.rng
        avail = sum(u['value'] for u in self.w.utxos())
        amt = rng.choice([1000, 20000, max(600, avail // 10), max(600, avail // 3), max(600, avail // 2), 10 ** 7])
        fee = rng.choice([500, 2000, None])
        minc = rng.choice([0, 0, 1])
        how = rng.choice(['send_to', 'send_to', 'send', 'nobroadcast', 'pushfail', 'import_obj', 'import_raw', 'import_dict'])
        descr = '%s(%d, fee=%s, min_confirms=%d)' % (how, amt, fee, minc)
        PUSH['mode'] = 'fail' if how == 'pushfail' else 'ok'
        t = None
        try:
            if how in ('send_to', 'pushfail'):
                t = self.w.send_to(EXT[self.wt], amt, fee=fee, broadcast=True, min_confirms=minc)
            elif how == 'send':
                t = self.w.send([(EXT[self.wt], amt), (EXT['segwit'], 700)], fee=fee, broadcast=True, min_confirms=minc,
                                number_of_change_outputs=rng.choice([1, 2]))
            elif how == 'nobroadcast':
                t = self.w.send_to(EXT[self.wt], amt, fee=fee, broadcast=False, min_confirms=minc)
            else:
                # built by one wallet object, handed to a second object on the same database, sent there
                t0 = self.w.transaction_create([(EXT[self.wt], amt)], fee=fee, min_confirms=minc)
                if rng.random() < 0.4:
                    # relative lock times / final-by-zero: small sequence numbers, 0 included, must survive storing and reloading
                    for inp_ in t0.inputs:
                        inp_.sequence = rng.choice([0, 0, 5])
                    self.ctx.count('send:small-sequence')
                if rng.random() < 0.5:
                    # the creator decides on the lock time (none at all, or a block height of its own): the importing wallet keeps it
                    t0.locktime = rng.choice([0, 0, 799990])
                    self.ctx.count('import:locktime-set-by-creator')
                w2 = self.open()
                if how == 'import_obj':
                    t = w2.transaction_import(t0)
                elif how == 'import_raw':
                    t = w2.transaction_import_raw(t0.raw_hex())
                else:
                    t = w2.transaction_import(t0.as_dict())
                self.ctx.evals += 1
                if (t.locktime, t.version_int, [i_.sequence for i_ in t.inputs]) != (t0.locktime, t0.version_int, [i_.sequence for i_ in t0.inputs]):
                    self.reload_problems.append(('import', t0.txid, 'the imported transaction is not the exported one',
                                                 {'form': how, 'locktime': (t0.locktime, t.locktime), 'version': (t0.version_int, t.version_int),
                                                  'sequences': ([i_.sequence for i_ in t0.inputs], [i_.sequence for i_ in t.inputs])}))
                t.sign()
                t.send(broadcast=True)
                # the history continues on the object that did the work (two objects that are open at the same time
                # are two SQLAlchemy sessions; their mutual staleness is outside the property and the model)
                self.w = w2
        except WalletError as e:
            t = None
            descr += ' WalletError(%s)' % str(e)[:50]
        finally:
            PUSH['mode'] = 'ok'
        self.ctx.count('send:' + how + (':pushed' if t is not None and t.pushed else ':not-pushed'))
        if how == 'nobroadcast' and t is not None:
            # the caller keeps the unsent object: it may be sent later, after other transactions used the same outputs
            self.unsent = [(w_, t_) for (w_, t_) in getattr(self, 'unsent', []) if w_ is self.w][-3:] + [(self.w, t)]
        self.finish_send(t, descr)

    def op_send_held(self):
        # a transaction object built earlier (send(..., broadcast=False)) is sent now.  Meanwhile another transaction may have consumed the
        # same outputs (this one then replaces it on the network, or is replaced): both are stored, and deleting either later must not free
        # what the other still consumes
        cand = [(w_, t_) for (w_, t_) in getattr(self, 'unsent', []) if w_ is self.w and not any(t_.txid == x[0] for x in self.sent)]
        if not cand:
            return self.op_send()
        w_, t = cand[self.rng.randrange(len(cand))]
        self.unsent = [(a_, b_) for (a_, b_) in self.unsent if b_ is not t]
        descr = 'send() of the unsent object %s.. built earlier' % t.txid[:8]
        try:
            t.send(broadcast=True)
        except Exception as e:
            descr += ' %s(%s)' % (type(e).__name__, str(e)[:50])
        self.ctx.count('send-held' + (':pushed' if t.pushed else ':not-pushed'))
        self.finish_send(t if t.pushed else None, descr)

    def op_replacement(self):
        # two transactions built (unsent) from the same wallet state - they consume the same outputs - are both sent, as when the second
        # replaces the first on the network; then one of them is deleted ("remove old unconfirmed transactions")
        from bitcoinlib.wallets import WalletError
        rng = self.rng
        avail = sum(u['value'] for u in self.w.utxos())
        amt = rng.choice([1000, max(600, avail // 10), max(600, avail // 3)])
        try:
            ta = self.w.send_to(EXT[self.wt], amt, fee=1000, broadcast=False, min_confirms=0, replace_by_fee=True)
            tb = self.w.send_to(EXT[self.wt], amt, fee=3000, broadcast=False, min_confirms=0, replace_by_fee=True)
        except WalletError as e:
            self.ctx.count('replacement:not-possible')
            return self.op_add()
        shared = {(i.prev_txid.hex(), i.output_n_int) for i in ta.inputs} & {(i.prev_txid.hex(), i.output_n_int) for i in tb.inputs}
        self.ctx.count('replacement:shared-inputs' if shared else 'replacement:disjoint')
        for t, nm in ((ta, 'first'), (tb, 'replacement')):
            descr = 'send() of the %s of two transactions built on the same outputs' % nm
            try:
                t.send(broadcast=True)
            except Exception as e:
                descr += ' %s(%s)' % (type(e).__name__, str(e)[:50])
            self.finish_send(t if t.pushed else None, descr)
        victim = rng.choice([ta, tb])
        if any(victim.txid == x[0] for x in self.sent):
            self.sent = [x for x in self.sent if x[0] != victim.txid]
            try:
                self.w.transaction_delete(victim.txid)
                st = 'ok'
            except WalletError:
                st = 'refused'
            self.record('del.%d' % self.tid(victim.txid), st, 'transaction_delete(%s..) - one of the two' % victim.txid[:8])

    def op_parent_child(self):
        # a transaction is sent, its change is spent by a second one, the first is deleted from the wallet and then sent again from the
        # object the caller still holds: its change output is consumed by the stored second transaction and must not come back as unspent
        from bitcoinlib.wallets import WalletError
        rng = self.rng
        avail = sum(u['value'] for u in self.w.utxos())
        try:
            t1 = self.w.send_to(EXT[self.wt], max(600, avail // 5), fee=1000, broadcast=True, min_confirms=0)
        except WalletError:
            t1 = None
        PUSH['accepted'] = []
        self.finish_send(t1, 'send_to (parent)')
        if t1 is None or not t1.pushed:
            return
        a2k = self.addr_keyid()
        ch = [o for o in t1.outputs if o.address in a2k and o.value > 3000]
        if not ch:
            self.ctx.count('parent-child:no-change')
            return
        try:
            t2 = self.w.send_to(EXT[self.wt], ch[0].value // 2, fee=500, broadcast=True, min_confirms=0, input_key_id=a2k[ch[0].address])
        except WalletError:
            t2 = None
        PUSH['accepted'] = []
        self.finish_send(t2, 'send_to (child: spends the change of the parent)')
        if t2 is None or not t2.pushed or not any(i.prev_txid.hex() == t1.txid for i in t2.inputs):
            self.ctx.count('parent-child:child-not-built')
            return
        self.sent = [x for x in self.sent if x[0] != t1.txid]
        try:
            self.w.transaction_delete(t1.txid)
            st = 'ok'
        except WalletError:
            st = 'refused'
        self.record('del.%d' % self.tid(t1.txid), st, 'transaction_delete(%s..) - the parent' % t1.txid[:8])
        try:
            t1.send()
        except Exception as e:
            self.ctx.count('resend-refused:' + type(e).__name__)
        PUSH['accepted'] = []
        self.ctx.count('parent-child:parent-sent-again')
        self.sync_keys()
        ins, outs = self.body_of(t1)
        self.sent.append((t1.txid, t1.raw_hex(), ins, outs))
        self.record('send.%d.%s.%s' % (self.tid(t1.txid), ins, outs), 'ok', 'send() again on the object of the deleted parent %s..' % t1.txid[:8])

    def op_store_unsent(self):
        # a transaction that was created and stored but not sent (status 'new'): the wallet counts its outputs - balance, unspent list and
        # per-key balances must still tell the same story - and deleting it again leaves the ledger as it was
        from bitcoinlib.wallets import WalletError
        rng = self.rng
        avail = sum(u['value'] for u in self.w.utxos())
        try:
            t = self.w.send_to(EXT[self.wt], max(600, avail // 4), fee=1000, broadcast=False, min_confirms=0)
            t.store()
        except WalletError:
            self.ctx.count('store-unsent:not-possible')
            return self.op_balance()
        self.ctx.count('store-unsent')
        self.ctx.evals += 1
        bal = int(self.w.balance())
        ut = sum(u['value'] for u in self.w.utxos())
        kb = sum(int(k.balance) for k in self.all_keys(self.w))
        fresh = self.open()
        fbal, fut = int(fresh.balance()), sum(u['value'] for u in fresh.utxos())
        if not (bal == ut == kb == fbal == fut):
            self.reload_problems.append(('store-unsent', t.txid, 'with a stored, unsent transaction the wallet tells different stories',
                                         {'balance': bal, 'sum_of_utxos': ut, 'sum_of_key_balances': kb, 'fresh_object_balance': fbal, 'fresh_object_utxos': fut}))
        try:
            self.w.transaction_delete(t.txid)
        except WalletError:
            pass
        self.sync_keys()
        self.record('bal', 'ok', 'send_to(broadcast=False) + store(), looked at, then transaction_delete')

    def op_neighbour(self):
        # a second wallet in the SAME database receives a payment from this one and records the output; this wallet then deletes its
        # transaction: that concerns its own rows only (the neighbour keeps what it has, and the call does not trip over the second row)
        from bitcoinlib.wallets import Wallet, WalletError
        from bitcoinlib.keys import HDKey
        if not hasattr(self, 'nb'):
            self.nb = Wallet.create('neighbour', keys=HDKey.from_seed(bytes(self.rng.randrange(256) for _ in range(32)), witness_type='segwit'),
                                    witness_type='segwit', network='bitcoin', db_uri=self.db)
            self.nb_key = self.nb.get_key()
        avail = sum(u['value'] for u in self.w.utxos())
        try:
            t = self.w.send_to(self.nb_key.address, max(600, avail // 6), fee=1000, broadcast=True, min_confirms=0)
        except WalletError:
            t = None
        PUSH['accepted'] = []
        self.finish_send(t, 'send_to(a key of a second wallet in the same database)')
        if t is None or not t.pushed:
            return
        o_ = [o for o in t.outputs if o.address == self.nb_key.address][0]
        self.nb.utxo_add(self.nb_key.address, o_.value, t.txid, o_.output_n, confirmations=0)
        before = (int(self.nb.balance()), sorted((u['txid'], u['output_n'], u['value']) for u in self.nb.utxos()))
        self.ctx.count('neighbour-wallet')
        self.sent = [x for x in self.sent if x[0] != t.txid]
        try:
            self.w.transaction_delete(t.txid)
            st = 'ok'
        except WalletError:
            st = 'refused'
        except Exception as e:
            self.reload_problems.append(('neighbour', t.txid, 'transaction_delete raised %s with a second wallet holding the same transaction id' % type(e).__name__, {}))
            self.w.session.rollback()
            return
        self.record('del.%d' % self.tid(t.txid), st, 'transaction_delete(%s..) - the payment to the neighbour wallet' % t.txid[:8])
        nbf = Wallet('neighbour', db_uri=self.db)
        after = (int(nbf.balance()), sorted((u['txid'], u['output_n'], u['value']) for u in nbf.utxos()))
        self.ctx.evals += 1
        if after != before:
            self.reload_problems.append(('neighbour', t.txid, 'deleting a transaction in one wallet changed the ledger of another wallet in the same database',
                                         {'before': before, 'after': after}))

    def op_sweep(self):
        from bitcoinlib.wallets import WalletError
        rng = self.rng
        fee = rng.choice([1000, 3000])
        minc = rng.choice([0, 0, 1])
        t = None
        descr = 'sweep(fee=%d, min_confirms=%d)' % (fee, minc)
        try:
            t = self.w.sweep(EXT[self.wt], broadcast=True, min_confirms=minc, fee=fee)
        except WalletError as e:
            descr += ' WalletError(%s)' % str(e)[:50]
        self.ctx.count('sweep' + (':pushed' if t is not None and t.pushed else ':not-pushed'))
        self.finish_send(t, descr)
        if self.final is False:
            for _ in range(2):
                self.op_add()

    def op_delete(self):
        rng = self.rng
        if self.sent and rng.random() < 0.8:
            txid = self.sent.pop(rng.randrange(len(self.sent)))[0]
        elif self.stubs:
            txid = rng.choice(self.stubs)[0]
        else:
            return self.op_add()
        from bitcoinlib.wallets import WalletError
        try:
            self.w.transaction_delete(txid)
            st = 'ok'
        except WalletError:
            st = 'refused'
        self.stubs = [s for s in self.stubs if s[0] != txid] if st == 'ok' else self.stubs
        self.record('del.%d' % self.tid(txid), st, 'transaction_delete(%s..)' % txid[:8])

    def op_reopen(self):
        self.w = self.open()
        self.record('reopen', 'ok', 'close + reopen')
        self.check_reload(self.w, 'after reopen')

    def op_newkey(self):
        if self.kind == 'single':
            return self.op_add()
        r = self.rng.random()
        if not hasattr(self, 'held'):
            self.held = []          # (wallet object, key objects it handed out): their own balance() must follow the ledger
        if r < 0.3:
            got = [self.w.new_key()]
        elif r < 0.5:
            got = [self.w.new_key_change()]
        elif r < 0.7:
            got = [self.w.get_key()]
        elif r < 0.85:
            got = list(self.w.new_keys(number_of_keys=self.rng.choice([2, 3])))
        else:
            got = list(self.w.get_keys(number_of_keys=2))
        self.held = [(w_, k_) for (w_, k_) in self.held if w_ is self.w] + [(self.w, k_) for k_ in got]
        self.sync_keys()
        self.record('bal', 'ok', 'new key(s)')

    def op_resend(self):
        # the caller still holds the object of a transaction that was sent earlier and sends it again (the network knows it already):
        # nothing changes - in particular nothing that was spent since comes back
        objs = [o for o in getattr(self, 'sent_objs', []) if o.hdwallet is self.w or any(o.txid == x[0] for x in self.sent)]
        if not objs:
            return self.op_balance()
        # preferably one whose output a later stored transaction has consumed since (the object does not know)
        def consumed(o):
            pre = '%d-' % self.tid(o.txid)
            return any(i_.startswith(pre) for (_, _, ins_, _) in self.sent for i_ in ins_.split(',') if ins_)
        pref = [o for o in objs if consumed(o)]
        if pref:
            self.ctx.count('resend-of-consumed-parent-possible')
        t = self.rng.choice(pref if pref and self.rng.random() < 0.75 else objs)
        stored = any(t.txid == x[0] for x in self.sent)
        try:
            t.send()
        except Exception as e:
            self.ctx.count('resend-refused:' + type(e).__name__)
        PUSH['accepted'] = []
        if stored:
            self.ctx.count('resend')
            self.record('reopen', 'ok', 'send() again on the object of %s..' % t.txid[:8])
        else:
            # the transaction had been deleted from the wallet in the meantime: it is stored again - and an output of it that a later
            # transaction consumes is spent from the start
            self.ctx.count('resend-after-delete')
            self.sync_keys()
            ins, outs = self.body_of(t)
            self.sent.append((t.txid, t.raw_hex(), ins, outs))
            self.record('send.%d.%s.%s' % (self.tid(t.txid), ins, outs), 'ok', 'send() again on the object of %s.., which was deleted' % t.txid[:8])

    def op_balance(self):
        self.w.balance()
        self.record('bal', 'ok', 'balance()')

    def check_reload(self, w, tag):
        """stored transactions reload with the same id, inputs, outputs, amounts and serialization"""
        for txid, raw, ins, outs in self.sent:
            t = w.transaction(txid)
            self.ctx.evals += 1
            if t is None:
                self.reload_problems.append((tag, txid, 'not found'))
                continue
            got_ins, got_outs = self.body_of(t)
            if t.txid != txid or got_ins != ins or got_outs != outs or t.raw_hex() != raw:
                r2 = t.raw_hex()
                pos = next((i_ for i_ in range(min(len(r2), len(raw))) if r2[i_] != raw[i_]), min(len(r2), len(raw)))
                self.reload_problems.append((tag, txid, 'differs', {'ins': (got_ins, ins), 'outs': (got_outs, outs),
                                                                    'raw_equal': r2 == raw, 'txid': t.txid, 'first_difference_at_hex_char': pos,
                                                                    'stored': raw[max(0, pos - 16):pos + 24], 'reloaded': r2[max(0, pos - 16):pos + 24],
                                                                    'sequences': [i_.sequence for i_ in t.inputs], 'version': t.version_int, 'locktime': t.locktime}))

    def run(self):
        # the library draws from the global generators (change amounts, output order): seeded per history, so that a history replays
        import random as _random
        _random.seed('lib/%s/%s/%s' % (self.ctx.seed, self.kind, self.hseed))
        try:
            import numpy as _np
            _np.random.seed(_random.getrandbits(32))
        except ImportError:
            pass
        self.create()
        rng = self.rng
        for _ in range(3):
            self.op_add()
        table = [(self.op_add, 3), (self.op_send, 5), (self.op_sweep, 1), (self.op_delete, 2), (self.op_reopen, 2), (self.op_newkey, 1), (self.op_balance, 1), (self.op_resend, 2), (self.op_send_held, 2), (self.op_store_unsent, 1)]
        pool = [f for f, wgt in table for _ in range(wgt)]
        for step_ in range(self.nops):
            if step_ == self.nops // 2 and self.hseed % 2 == 0:
                self.op_replacement()          # (in every second history, once)
            if step_ == self.nops // 3 and self.hseed % 2 == 1:
                self.op_parent_child()         # (in the other histories, once)
            if step_ == 2:
                self.op_store_unsent()         # (in every history, once)
            if step_ == 4 and self.hseed % 2 == 0 and self.kind.startswith('hd-'):
                self.op_neighbour()            # (HD histories with an even number, once)
            if step_ == self.nops - 3:
                self.op_send()                 # (in every history: a late spend, mostly of change, and then the object of an
            if step_ == self.nops - 2:
                self.op_resend()               #  earlier transaction sent again)
            rng.choice(pool)()
        # a final drain: sweep, then look again
        self.final = True
        self.op_sweep()
        self.op_reopen()


def compare_history(ctx, h):
    line = 'ledger ' + ';'.join(h.ops)
    res = run_driver([line])[0]
    if res == 'bad-op':
        raise Infra('driver rejected: ' + line[:200])
    model = res.split(' | ')[0].split(';')
    for idx, (op, ob, m) in enumerate(zip(h.ops, h.obs, model)):
        if ob is None:
            continue
        main, fresh, order = ob
        ctx.evals += 1
        ctx.count('op:' + op.split('.')[0])
        if main == m and fresh == m:
            continue
        which = 'the open wallet object' if main != m else 'a second Wallet object on the same database'
        # listed findings explain specific disagreements
        return {'step': idx, 'op': op, 'real_op': h.descr[idx], 'model': m, 'observed': main, 'observed_fresh_object': fresh,
                'observation_order': order, 'where': which, 'kind': h.kind, 'hseed': h.hseed, 'nops': h.nops,
                'history': [d for d in h.descr[:idx + 1]], 'format': 'status/balance/utxos(txid#-n-value)/per-key balances(key id-value)'}
    return None


def run(ctx):
    install_fake_service()
    kinds = ['hd-segwit', 'hd-legacy', 'hd-p2sh-segwit', 'single', 'ms-segwit']
    per_kind = 2 if not ctx.thorough else 8
    nops = 12 if not ctx.thorough else 40
    if ctx.thorough:
        kinds += ['ms-legacy', 'ms-p2sh-segwit']
    todo = [(k, s) for k in kinds for s in range(per_kind)]
    if getattr(ctx, 'replay_obj', None):
        r = ctx.replay_obj['replay']
        if r.get('op') == 'accounts':
            return run_accounts(ctx, only=r['hseed'])
        todo = [(r['kind'], r['hseed'])]
        nops = r.get('nops', nops)
    else:
        run_accounts(ctx)
    for kind, hseed in todo:
        h = History(ctx, kind, hseed, nops)
        h.run()
        ctx.traces += 1
        ctx.nontrivial.add(hash((kind, hseed, len(h.sent))))
        bad = compare_history(ctx, h)
        if bad:
            ctx.violation('wallet ledger disagrees with the ledger machine (balance = sum of unspent = sum of per-key balances, spent outputs stay spent)', bad)
        for p in h.broadcast_problems:
            ctx.violation('a transaction was broadcast but the wallet did not record it (its inputs remain selectable)',
                          {'kind': kind, 'hseed': hseed, 'nops': nops, **p})
        for p in h.held_problems[:3]:
            ctx.violation('a key object the wallet handed out reports another balance than the ledger has for that key', {'kind': kind, 'hseed': hseed, 'nops': nops, 'op': 'held-key', **p})
        for p in h.reload_problems:
            ctx.violation('a stored transaction does not reload as it was stored', {'kind': kind, 'hseed': hseed, 'nops': nops, 'op': 'reload', 'problem': repr(p)[:600]})
        # stored bodies as the model reloads them
        for txid, raw, ins, outs in h.sent:
            m = run_driver(['ledger_tx %s %d' % (';'.join(h.ops), h.tid(txid))])[0].split(' | ')[0]
            ctx.evals += 1
            if m != ins + '/' + outs:
                ctx.violation('model and wallet disagree about a stored transaction', {'kind': kind, 'hseed': hseed, 'nops': nops, 'op': 'ledger_tx', 'model': m, 'observed': ins + '/' + outs})
    ctx.assumptions += ['the service layer is an in-process fake (push succeeds or fails as scripted); one network per wallet; wallets with two accounts: one ledger machine per account, a payment from one account to a key of the other is an arriving output for the other',
                        'transaction ids and key ids are renamed to small integers before the comparison']


def run_accounts(ctx, only=None):
    """wallets with two accounts, either of them the default one: as long as payments go to outside addresses every account is a ledger
    of its own - the ledger machine is run once per account, and an operation on one account is a plain balance() for the other"""
    import random
    from bitcoinlib.wallets import Wallet, WalletError
    from bitcoinlib.keys import HDKey
    for hseed in ([only] if only is not None else range(2 if not ctx.thorough else 8)):
        rng = random.Random('%s/accounts/%s' % (ctx.seed, hseed))
        wt = rng.choice(['segwit', 'legacy', 'p2sh-segwit'])
        accts = [0, 1] if hseed % 2 == 0 else [1, 0]            # the first one is the wallet's default account
        db = 'sqlite:///' + os.path.join(os.environ['BCL_DATA_DIR'], 'c08_accounts_%s_%s.sqlite' % (ctx.seed, hseed))
        box = {'w': Wallet.create('w', keys=HDKey.from_seed(bytes(rng.randrange(256) for _ in range(32)), witness_type=wt), witness_type=wt,
                                  network='bitcoin', db_uri=db, account_id=accts[0])}
        box['w'].new_account(account_id=accts[1])
        ops, obs, descr, known, txids = {a: [] for a in accts}, {a: [] for a in accts}, [], {a: set() for a in accts}, {}

        def tid(h):
            txids.setdefault(h, len(txids) + 1)
            return txids[h]

        def leaf_keys(a):
            return [k for k in box['w'].keys(account_id=a) if k.depth == box['w'].key_depth]

        def sync():
            for a in accts:
                for k in box['w'].keys(account_id=a):
                    if k.id not in known[a]:
                        known[a].add(k.id)
                        ops[a].append('key.%d' % k.id)
                        obs[a].append(None)

        def observe(a):
            w = box['w']
            ut = sorted((tid(u['txid']), u['output_n'], u['value']) for u in w.utxos(account_id=a))
            bal = w.balance(account_id=a)
            kb = sorted((k.id, int(k.balance)) for k in w.keys(account_id=a) if k.balance)
            return 'ok/%d/%s/%s' % (int(bal), ','.join('%d-%d-%d' % x for x in ut), ','.join('%d-%d' % x for x in kb))

        def record(a, op, text, other=None):
            sync()
            descr.append('account %d: %s' % (a, text))
            for b_ in accts:
                mine = [op] if b_ == a else ((other or {}).get(b_) or ['bal'])
                for o_ in mine[:-1]:
                    ops[b_].append(o_)
                    obs[b_].append(None)
                ops[b_].append(mine[-1])
                obs[b_].append((len(descr) - 1, observe(b_)))

        box['w'].get_key(account_id=accts[0]); box['w'].get_key(account_id=accts[1])
        sync()
        nops = 10 if not ctx.thorough else 30
        for step in range(nops):
            a = rng.choice(accts) if step >= 2 else accts[step]
            w = box['w']
            r = rng.random()
            have = bool(w.utxos(account_id=a))
            forced_sweep = step == nops - 3 and bool(w.utxos(account_id=accts[1]))
            if forced_sweep:
                a, r, have = accts[1], 0.7, True           # once per history: the account that is not the default one consolidates
            try:
                if r < 0.35 or not have:
                    if rng.random() >= 0.6:
                        w.new_key(account_id=a)
                        k = leaf_keys(a)[-1]
                    else:
                        k = rng.choice(leaf_keys(a))
                    txid, n, val, conf = '%064x' % rng.getrandbits(200), rng.choice([0, 1, 3]), rng.choice([10000, 123456, 10 ** 6, 2 * 10 ** 8]), rng.choice([0, 1, 6])
                    w.utxo_add(k.address, val, txid, n, confirmations=conf)
                    record(a, 'add.%d.%d.%d.%d.%d' % (k.id, val, tid(txid), n, conf), 'utxo_add(key %d, %d)' % (k.id, val))
                elif r < 0.8:
                    avail = sum(u['value'] for u in w.utxos(account_id=a))
                    if r < 0.65:
                        # (to an outside address, or to a key of the OTHER account of this wallet: for that account an output arrives)
                        other_acct = [b_ for b_ in accts if b_ != a][0]
                        cross = rng.random() < 0.4 or (step == nops - 5 and not forced_sweep)
                        dest = rng.choice(leaf_keys(other_acct)).address if cross else EXT[wt]
                        t = w.send_to(dest, max(600, avail // rng.choice([2, 3, 10])), account_id=a, fee=rng.choice([500, 2000]), broadcast=True, min_confirms=0)
                        what = 'send_to(%s, account_id=%d)' % ('a key of account %d' % other_acct if cross else 'outside', a)
                    else:
                        own = forced_sweep or rng.random() < 0.6          # consolidation: everything to one key of the same account
                        t = w.sweep(rng.choice(leaf_keys(a)).address if own else EXT[wt], account_id=a, fee=1000, broadcast=True, min_confirms=0)
                        what = 'sweep(%s, account_id=%d)' % ('own key' if own else 'outside', a)
                    PUSH['accepted'] = []
                    ctx.count('accounts:' + what.split('(')[0] + (':default-account' if a == accts[0] else ':other-account'))
                    if t.pushed:
                        sync()
                        a2k = {k.address: k.id for k in w.keys(account_id=a) if k.address}
                        ins = ','.join('%d-%d-%d' % (tid(i.prev_txid.hex()), i.output_n_int, i.value) for i in t.inputs)
                        outs = ','.join('%d-%s' % (o.value, a2k.get(o.address, 'x')) for o in t.outputs)
                        # what the other account sees: an unconfirmed output arrives at one of its keys
                        other = {}
                        for b_ in accts:
                            if b_ != a:
                                b2k = {k.address: k.id for k in w.keys(account_id=b_) if k.address}
                                other[b_] = ['add.%d.%d.%d.%d.0' % (b2k[o.address], o.value, tid(t.txid), o.output_n) for o in t.outputs if o.address in b2k]
                        record(a, 'send.%d.%s.%s' % (tid(t.txid), ins, outs), what + ' -> pushed', other)
                    else:
                        record(a, 'bal', what + ' -> not pushed')
                else:
                    box['w'] = Wallet('w', db_uri=db)
                    descr.append('close + reopen')
                    for b_ in accts:
                        ops[b_].append('reopen')
                        obs[b_].append((len(descr) - 1, observe(b_)))
            except WalletError as e_:
                refusal = str(e_)
            else:
                refusal = None
            if refusal is not None:
                # (outside the except block: the traceback of the refusal keeps rows of the unfinished transaction alive, and Wallet.utxos()
                #  strips the ORM state off the row objects it returns - a row that is still alive would be unusable for the session afterwards)
                e = refusal
                box['w'].session.rollback()
                listed = sum(u['value'] for u in box['w'].utxos(account_id=a))
                if 0.35 <= r < 0.8 and listed > 20000 and 'unspent' in str(e).lower():
                    # the account lists unspent outputs worth far more than the payment (at most half of them) and its fee, yet the wallet finds
                    # nothing to spend (a refusal for another reason - a fee below the minimum rate, say - is a refusal)
                    ctx.violation('an account that lists enough unspent outputs cannot spend them',
                                  {'op': 'accounts', 'hseed': hseed, 'account': a, 'default_account': accts[0], 'witness_type': wt, 'model_op': 'send', 'error': str(e)[:100],
                                   'listed_unspent': listed, 'history': descr[-6:]})
                    break
                record(a, 'bal', 'refused: ' + str(e)[:60])
        ctx.traces += 1
        ctx.nontrivial.add(hash(('accounts', hseed, len(txids))))
        for a in accts:
            res = run_driver(['ledger ' + ';'.join(ops[a])])[0]
            if res == 'bad-op':
                raise Infra('driver rejected: ' + ';'.join(ops[a])[:200])
            model = res.split(' | ')[0].split(';')
            for op, ob, m in zip(ops[a], obs[a], model):
                if ob is None:
                    continue
                ctx.evals += 1
                ctx.count('accounts-op:' + op.split('.')[0])
                if ob[1] != m:
                    ctx.violation('the ledger of one account of a wallet with two accounts disagrees with the ledger machine (balance = sum of unspent = sum of per-key balances)',
                                  {'op': 'accounts', 'hseed': hseed, 'account': a, 'default_account': accts[0], 'witness_type': wt, 'model_op': op, 'model': m, 'observed': ob[1],
                                   'history': descr[:ob[0] + 1], 'format': 'status/balance/utxos(txid#-n-value)/per-key balances(key id-value)'})
                    break
            else:
                continue
            break


def replay(ctx, obj):
    ctx.replay_obj = obj
    ctx.seed = obj.get('seed', ctx.seed)
    run(ctx)
    print('still failing' if ctx.violations else 'no longer failing')
    return 1 if ctx.violations else 0
