"""Shared machinery of the /verif checks: environment, Lean build + audit, native model driver,
classification of (implementation, Spec, Impl(D)) triples, evidence and replay files."""
import os, sys, json, time, re, subprocess, tempfile, shutil, hashlib, random, atexit, fcntl

VERIF = os.path.dirname(os.path.dirname(os.path.abspath(__file__)))
LEAN = os.path.join(VERIF, 'lean')
REPO = os.environ.get('VERIF_REPO', '/repo')
DRIVER = os.path.join(LEAN, '.lake', 'build', 'bin', 'btcdriver')
ACCEPTED_AXIOMS = {'propext', 'Classical.choice', 'Quot.sound'}
FORBIDDEN = re.compile(r'\b(sorry|admit|native_decide|bv_decide|implemented_by)\b|^\s*axiom\s|\bunsafe\s|maxHeartbeats\s+0')


class Infra(Exception):
    """infrastructure problem: exit 2, never a VIOLATION"""


# ----------------------------------------------------------------------------------------------
# environment: the real library is imported in-process from /repo's working tree
# ----------------------------------------------------------------------------------------------
_tmpdirs = []


def fresh_datadir():
    d = tempfile.mkdtemp(prefix='bclverif_')
    _tmpdirs.append(d)
    return d


def _cleanup():
    for d in _tmpdirs:
        shutil.rmtree(d, ignore_errors=True)


atexit.register(_cleanup)


def setup_env():
    """must run before `import bitcoinlib`"""
    os.environ['BCL_DATA_DIR'] = fresh_datadir()
    os.environ.setdefault('BITCOINLIB_VERIF', '1')
    os.environ.pop('DB_FIELD_ENCRYPTION_KEY', None)
    if REPO not in sys.path:
        sys.path.insert(0, REPO)
    import logging
    logging.disable(logging.CRITICAL)


# ----------------------------------------------------------------------------------------------
# known findings
# ----------------------------------------------------------------------------------------------
def load_findings():
    with open(os.path.join(VERIF, 'known_findings.json')) as f:
        return json.load(f)['findings']


# ----------------------------------------------------------------------------------------------
# Lean: build, audit
# ----------------------------------------------------------------------------------------------
def _run(cmd, cwd=None, timeout=3600, inp=None):
    p = subprocess.run(cmd, cwd=cwd, input=inp, capture_output=True, text=True, timeout=timeout)
    return p.returncode, p.stdout, p.stderr


class LeanSide:
    def __init__(self, pid):
        self.pid = pid
        self.build_ok = True
        self.build_log = ''
        self.failed_modules = []
        self.theorems = []       # registered property theorems
        self.axioms = {}         # theorem -> set of axioms
        self.bad = []            # (theorem or file, reason)

    def build(self):
        """regenerate tables, build model + driver (must succeed), then proofs (may fail)"""
        lock = open(os.path.join(LEAN, '.build.lock'), 'w')
        fcntl.flock(lock, fcntl.LOCK_EX)
        try:
            from harness import gen_tables
            gen_tables.generate()
            rc, out, err = _run(['lake', 'build', 'btcdriver'], cwd=LEAN)
            if rc != 0:
                raise Infra('model/driver build failed:\n' + out[-3000:] + err[-2000:])
            rc, out, err = _run(['lake', 'build', 'BtcProofs.Properties.' + self.pid], cwd=LEAN)
            self.build_log = out + err
            if rc != 0:
                self.build_ok = False
                self.failed_modules = sorted(set(re.findall(r'✖ \[\d+/\d+\] Building (\S+)', out + err)))
                for m in re.finditer(r'error: (\S+\.lean):(\d+):(\d+): (.*)', out + err):
                    self.bad.append((m.group(1) + ':' + m.group(2), m.group(4)[:200]))
                if not self.bad:
                    self.bad.append(('lake build', 'failed'))
        finally:
            fcntl.flock(lock, fcntl.LOCK_UN)
            lock.close()

    def prop_file(self):
        return os.path.join(LEAN, 'BtcProofs', 'Properties', self.pid + '.lean')

    def audit(self):
        """grep for forbidden constructs, `#print axioms` for every theorem of the property file"""
        files = [self.prop_file()]
        src = open(self.prop_file()).read()
        for imp in re.findall(r'^import (Btc\S+)', src, re.M):
            files.append(os.path.join(LEAN, imp.replace('.', '/') + '.lean'))
        seen = set()
        while files:
            f = files.pop()
            if f in seen or not os.path.exists(f):
                continue
            seen.add(f)
            text = open(f).read()
            for imp in re.findall(r'^import (Btc\S+)', text, re.M):
                files.append(os.path.join(LEAN, imp.replace('.', '/') + '.lean'))
            if '/Prim/' in f or '/Driver/' in f:
                continue       # executable reference code, nothing is proved about it
            stripped = re.sub(r'/-.*?-/', '', text, flags=re.S)
            stripped = re.sub(r'--.*', '', stripped)
            for ln in stripped.splitlines():
                if FORBIDDEN.search(ln):
                    self.bad.append((os.path.relpath(f, LEAN), 'forbidden construct: ' + ln.strip()[:120]))
        ns = re.search(r'^namespace (\S+)', src, re.M)
        ns = ns.group(1) + '.' if ns else ''
        self.theorems = [ns + t for t in re.findall(r'^theorem (\S+)', src, re.M)]
        if not self.build_ok:
            return
        with tempfile.NamedTemporaryFile('w', suffix='.lean', delete=False) as tf:
            tf.write('import BtcProofs.Properties.%s\n' % self.pid)
            for t in self.theorems:
                tf.write('#print axioms %s\n' % t)
            name = tf.name
        try:
            rc, out, err = _run(['lake', 'env', 'lean', name], cwd=LEAN)
        finally:
            os.unlink(name)
        if rc != 0:
            self.bad.append(('audit', (out + err)[-500:]))
            return
        for m in re.finditer(r"'([^']+)' depends on axioms: \[([^\]]*)\]", out.replace('\n', ' ')):
            self.axioms[m.group(1)] = set(a.strip() for a in m.group(2).split(','))
        for m in re.finditer(r"'([^']+)' does not depend on any axioms", out):
            self.axioms[m.group(1)] = set()
        for t in self.theorems:
            if t not in self.axioms:
                self.bad.append((t, 'no #print axioms result'))
            elif not self.axioms[t] <= ACCEPTED_AXIOMS:
                self.bad.append((t, 'unaccepted axioms: %s' % sorted(self.axioms[t] - ACCEPTED_AXIOMS)))

    def leanchecker(self):
        mods = ['BtcProofs.Properties.' + self.pid]
        rc, out, err = _run(['lake', 'env', 'leanchecker'] + mods, cwd=LEAN, timeout=3000)
        if rc != 0:
            self.bad.append(('leanchecker', (out + err)[-500:]))
        return rc == 0

    @property
    def discharged(self):
        badnames = {b[0] for b in self.bad}
        if not self.build_ok:
            return 0
        return len([t for t in self.theorems if t not in badnames and t in self.axioms])


# ----------------------------------------------------------------------------------------------
# native model driver (line protocol)
# ----------------------------------------------------------------------------------------------
def run_driver(lines, flags=()):
    """returns list of result strings, one per op line"""
    if not lines:
        return []
    if not os.path.exists(DRIVER):
        raise Infra('driver binary missing: ' + DRIVER)
    p = subprocess.run([DRIVER] + list(flags), input='\n'.join(lines) + '\n', capture_output=True,
                       text=True, timeout=3000)
    if p.returncode != 0:
        raise Infra('driver crashed: rc=%s %s' % (p.returncode, p.stderr[-500:]))
    out = p.stdout.split('\n')
    if out and out[-1] == '':
        out.pop()
    if len(out) != len(lines):
        raise Infra('driver returned %d lines for %d ops' % (len(out), len(lines)))
    return out


def hexp(b):
    """bytes -> hex with '-' for empty (line protocol)"""
    return b.hex() if b else '-'


# ----------------------------------------------------------------------------------------------
# the check context
# ----------------------------------------------------------------------------------------------
class Ctx:
    def __init__(self, pid, tier, seed, replay=None):
        self.pid, self.tier, self.seed = pid, tier, seed
        self.thorough = tier == 'thorough'
        self.rng = random.Random('%s/%s' % (pid, seed))
        self.t0 = time.time()
        self.lean = LeanSide(pid)
        self.findings = [f for f in load_findings() if pid in f['properties']]
        self.known = [f for f in self.findings if f['state'] == 'known']
        self.flags = sorted({f['flag'] for f in self.known if f.get('flag')})
        self.evals = 0
        self.nontrivial = set()
        self.samples = []
        self.violations = []        # dicts
        self.known_hits = {}        # finding id -> count
        self.known_examples = {}    # finding id -> op
        self.hist = {}
        self.notes = []
        self.traces = 0
        self.exhaustive = None
        self.rule = ''
        self.assumptions = []
        self.extra = {}

    # -- bookkeeping ---------------------------------------------------------------------------
    def count(self, key, n=1):
        self.hist[key] = self.hist.get(key, 0) + n

    def sample(self, s):
        if len(self.samples) < 12:
            self.samples.append(s)

    def violation(self, what, replay_obj, no_input=False):
        self.violations.append({'what': what, 'replay': replay_obj, 'no_input': no_input})

    def known_hit(self, fid, example):
        self.known_hits[fid] = self.known_hits.get(fid, 0) + 1
        self.known_examples.setdefault(fid, example)

    # -- differential comparison ---------------------------------------------------------------
    def compare(self, cases, stream='random', trigger_findings=None, refusal_ok=False):
        """cases: list of (op_line, py_result, nontrivial: bool).  Driver lines are
        `spec | impl [| extra]`.  Classification:
            py == spec                         -> agree
            py == impl(D) (D = listed flags)   -> explained by a listed deviation
            extra names a trigger of a listed 'unspecified-region' finding -> that finding
            otherwise                          -> VIOLATION
        trigger_findings: callable(extra_str, op, py, spec) -> finding id or None"""
        lines = [c[0] for c in cases]
        res = run_driver(lines, self.flags)
        single = None
        for (op, py, nontriv), r in zip(cases, res):
            self.evals += 1
            self.traces += 1
            if r == 'bad-op':
                raise Infra('driver rejected op: ' + op)
            parts = [x.strip() for x in r.split(' | ')]
            spec, impl = parts[0], parts[1]
            extra = parts[2] if len(parts) > 2 else ''
            self.count(stream + ':' + op.split(' ')[0])
            if nontriv:
                self.nontrivial.add(hashlib.sha1(op.encode()).digest()[:8])
            if py == spec:
                if self.evals % 97 == 1:
                    self.sample({'op': op, 'impl': py, 'spec': spec})
                continue
            if refusal_ok and py == 'none':
                # a refusal where the Spec would accept: only allowed for properties that constrain acceptance
                self.count('refused-where-spec-accepts:' + op.split(' ')[0])
                continue
            fid = None
            if py == impl and self.flags:
                if single is None:
                    single = {}
                fid = self._attribute(op, py, single)
            if fid is None and trigger_findings is not None:
                fid = trigger_findings(extra + (' py_equals_impl' if py == impl else ''), op, py, spec)
            if fid is not None:
                self.known_hit(fid, {'op': op, 'impl': py, 'spec': spec})
            else:
                self.violation('implementation differs from Spec', {'op': op, 'observed': py, 'spec': spec,
                                                                    'impl_model': impl, 'extra': extra})
        return res

    def _attribute(self, op, py, cache):
        for f in self.known:
            if not f.get('flag'):
                continue
            r = run_driver([op], [f['flag']])[0].split(' | ')
            if r[1].strip() == py and r[0].strip() != py:
                return f['id']
        return None

    # -- finish --------------------------------------------------------------------------------
    def finish(self):
        wall = time.time() - self.t0
        lean = self.lean
        proof_broken = (not lean.build_ok) or bool(lean.bad)
        # a broken proof obligation with no concrete failing input is still a violation
        if proof_broken and not self.violations:
            self.violation('proof obligation no longer checks', {
                'theorem_or_file': [b[0] for b in lean.bad], 'reasons': [b[1] for b in lean.bad],
                'build_log_tail': lean.build_log[-2000:]}, no_input=True)
        os.makedirs(os.path.join(VERIF, 'evidence'), exist_ok=True)
        known_printed = []
        for f in self.known:
            if f['id'] in self.known_hits:
                known_printed.append(f['id'])
        ev = {
            'property_id': self.pid, 'tier': self.tier, 'seed': self.seed, 'level': 'proof',
            'coverage': {
                'obligations': len(lean.theorems), 'discharged': lean.discharged,
                'checker_cmd': 'cd lean && lake build BtcProofs.Properties.%s && lake env lean <#print axioms for each theorem>%s'
                               % (self.pid, ' && lake env leanchecker BtcProofs.Properties.%s' % self.pid if self.thorough else ''),
                'trusted_base': TRUSTED_BASE + self.assumptions,
                'theorems': lean.theorems,
                'axioms_used': sorted(set().union(*lean.axioms.values())) if lean.axioms else [],
                'evaluations': self.evals, 'distinct_nontrivial': len(self.nontrivial),
                'traces_validated_against_impl': self.traces,
                'rule': self.rule, 'samples': self.samples or [{'note': 'no sample recorded'}],
                'distribution': self.hist, 'known_findings_observed': self.known_hits,
                'known_finding_examples': self.known_examples, 'notes': self.notes,
            },
            'assumptions': TRUSTED_BASE + self.assumptions,
            'wall_s': round(wall, 2), 'violations': len(self.violations),
        }
        vs = {}
        for v in self.violations:
            k = str(v['replay'].get('op', v['what'])).split(' ')[0] + ':' + str(v['replay'].get('kind', ''))
            vs.setdefault(k, []).append(v['replay'])
        ev['coverage']['violation_summary'] = {k: {'count': len(x), 'first': x[:3]} for k, x in vs.items()}
        if self.exhaustive is not None:
            ev['coverage']['exhaustive'] = self.exhaustive
        ev['coverage'].update(self.extra)
        with open(os.path.join(VERIF, 'evidence', self.pid + '.json'), 'w') as f:
            json.dump(ev, f, indent=1, default=str)
        for f in self.known:
            if f['id'] in self.known_hits:
                print('KNOWN-FINDING: property=%s %s: %s' % (self.pid, f['id'], f['what']))
        rdir = os.path.join(VERIF, 'replays', self.pid)
        if os.path.isdir(rdir):
            for fn in os.listdir(rdir):          # replays of earlier runs are stale
                if fn.endswith('.json'):
                    os.unlink(os.path.join(rdir, fn))
        if self.violations:
            os.makedirs(os.path.join(VERIF, 'replays', self.pid), exist_ok=True)
            seen = set()
            for v in self.violations[:20]:
                body = json.dumps({'property': self.pid, 'seed': self.seed, 'tier': self.tier, **v},
                                  indent=1, default=str, sort_keys=True)
                h = hashlib.sha1(body.encode()).hexdigest()[:12]
                if h in seen:
                    continue
                seen.add(h)
                path = os.path.join(VERIF, 'replays', self.pid, h + '.json')
                with open(path, 'w') as f:
                    f.write(body)
                print('VIOLATION property=%s replay=%s%s' % (self.pid, os.path.relpath(path, VERIF),
                                                             ' no-failing-input-found' if v['no_input'] else ''))
            return 1
        print('OK property=%s tier=%s seed=%s theorems=%d/%d cases=%d nontrivial=%d known=%s wall=%.1fs' % (
            self.pid, self.tier, self.seed, lean.discharged, len(lean.theorems), self.evals,
            len(self.nontrivial), sorted(self.known_hits), wall))
        return 0


TRUSTED_BASE = [
    'Lean 4.33 kernel; axioms propext, Classical.choice, Quot.sound only (checked with #print axioms on every run)',
    'hand-written Spec transcriptions of the protocol documents (BIPs, Bitcoin Core serialize.h/script.h/interpreter.cpp)',
    'hand-written Impl model, tied to /repo only by this differential run (generators, adapters, canonicalisers in /verif/harness)',
    'CPython, hashlib, fastecdsa, pycryptodome, SQLAlchemy/SQLite as used by bitcoinlib: exercised, not verified',
]
