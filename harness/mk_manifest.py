"""Writes /verif/MANIFEST.json from the table below (kept in one place so that it stays valid)."""
import json, os
VERIF = os.path.dirname(os.path.dirname(os.path.abspath(__file__)))
BASELINE = "cd /repo && /venv/bin/python -m pytest -ra -q -p no:cacheprovider --timeout=900 --continue-on-collection-errors --junitxml=/tmp/bitcoinlib_baseline_off.junit.xml"

COMMON_NOTE = ("Trusted: Lean 4.33 kernel (+ leanchecker in the thorough tier), axioms propext/Classical.choice/Quot.sound only "
               "(audited by #print axioms on every run; no sorry, native_decide, bv_decide or own axioms); the hand-written Spec "
               "(transcription of the protocol documents) and Impl models; the Python differential harness that ties the models to "
               "/repo's working tree (generators, adapters, canonicalisers). ")

CHECKS = {
 'C18': dict(
   technique='Lean 4 theorems (round trip, canonicity, refinement Impl=Spec outside listed trigger sets) + differential correspondence model<->code',
   text=("Proved in Lean for all inputs: CompactSize decode(encode n ++ r) = (n, len) for every n < 2^64 and canonicity (a canonical prefix is the "
         "encoding of its value); script numbers decode(encode z) = z for every integer, minimality, encode(decode b) = b for minimal b, the 4-byte "
         "rule <-> |z| < 2^31; data_pack uses the shortest push form; for every list of non-push opcodes and data items of 1..65535 bytes the "
         "consensus tokeniser and the model of the library's command reader read serialize(cs) back to cs (induction, no length bound). The repaired "
         "CompactSize encoder equals the specification; the pre-fix one differs exactly at 0xffff and 0xffffffff (F01, found by this check, fixed). "
         "The executable model is compared with the real functions exhaustively on n <= 70000, all boundaries, all script numbers in +-2^16, all "
         "1/2-byte number strings, all push lengths <= 600 and on random command lists / byte strings. Script.parse's nested-script and whole-blob "
         "heuristics are outside the proved fragment and are listed findings (F04a/F04b) delimited by decidable predicates. Every script is also read through Script.parse (bytes and hexadecimal text) and parse_hex, numbers in script text and sums of scripts are included. Found and fixed: F01, F58 (Script.parse passed wrong length hints), F71 (numbers in script text were CompactSize integers), F72 (as_bytes of a sum of scripts)."),
   design_ref='DESIGN.md §5 C18',
   note=COMMON_NOTE + "Modelled rather than verified: Script.parse_bytesio's signature/key object construction and script-type detection."),
 'C11': dict(
   technique='Lean 4 theorems (Base58 round trip + canonicity, Base58Check accepted=>canonical, Bech32 single-substitution detection) + exhaustive single-edit mutation correspondence',
   text=("Proved in Lean for all inputs: Base58 decode(encode b) = b for every byte string and encode(decode s) = s for every accepted string "
         "(one theorem, convert_convert, on positional digit lists with the leading-zero rule: no second spelling of any payload); Base58Check "
         "decode(encode p) = p and accepted => the string is the canonical encoding with the correct checksum, for any checksum function; the "
         "repaired change_base(.,58,256) equals the strict decoder; the Bech32 polymod is XOR-linear with an injective zero-input step on 30-bit "
         "states, hence changing any single value of a checksummed sequence of any length changes the polymod (single-character substitutions are "
         "always rejected for the same constant). BIP173/350 vectors are evaluated in the kernel. The executable model (with the generated "
         "network table) is compared with addr_base58_to_pubkeyhash, deserialize_address, Address.parse, addr_bech32_to_pubkeyhash, Key(wif), "
         "HDKey(xkey), HDKey.from_wif on EVERY single substitution/insertion/deletion/transposition of sampled valid strings of every class and "
         "network, plus random damage, case changes, truncation and padding. Strings with a CORRECT checksum over a payload that is not one of the class (wrong length, wrong compression flag, key field contradicting the version, unknown version) are generated for addresses, WIFs and extended keys. Found and fixed through this check: F05, F06, F27, F28, F69 (WIF payload of any length accepted), F70 (xprv carrying a public key accepted), F107 (BIP38 flag bytes with reserved bits), F128 (Base58 address checksum behind an assert: a subprocess with python -O is part of the run), F129 (addr_to_pubkeyhash with a named encoding answered None). The four BIP38 vectors are opened with their passphrase as valid strings, as single-edit mutants and as re-checksummed payloads BIP38 does not define. Every (witness version, program length 1..41, 64, 65) with a valid checksum and the q-insertion strings are swept. Listed: F47 (encoder mistakes some unusual-length programs for scripts)."),
   design_ref='DESIGN.md §5 C11',
   note=COMMON_NOTE + "Cryptographic residue (not a theorem): a corrupted Base58Check string is rejected unless the 4-byte SHA-256d checksums collide (2^-32). "
        "convertbits round trip and HRP-character substitutions are covered by the correspondence run only. A refusal of a string the Spec would accept "
        "(upper-case Bech32 in Address.parse, ambiguous litecoin WIF without network) is counted, not treated as a violation: C11 constrains acceptance."),
 'C06': dict(
   technique='Lean 4 theorems (parse∘serialise = id for transactions and blocks, any counts/sizes; serialise∘parse = id on EVERY byte string the strict reader accepts, for transactions and headers; the strict reader refines the compared one) + independent Lean parser run against Transaction.parse / Block.parse on synthetic, corpus and real mainnet data',
   text=("Proved in Lean for all inputs: parseTx (serTx t ++ r) = (t, r) for every well-formed transaction (legacy or BIP144, any number of inputs, "
         "outputs and witness items, any script sizes below 2^64) by induction over the lists; in the direction the property is worded: for EVERY byte "
         "string, what the strict reader parseTxS (parseTx with shortest-form CompactSize counts only) accepts re-serialises to exactly the bytes read "
         "(serTx_parseTxS), it accepts every serialisation of a well-formed transaction (parseTxS_serTx) and wherever it accepts, the reader that is "
         "run against the library returns the same transaction (parseTxS_refines); the same for block headers on every byte string "
         "(serHeader_readHeader, accepted = at least 80 bytes); the txid serialisation ignores witness data; 80-byte "
         "header round trip; parseBlock (serBlock b ++ r) = (b, r); the library's target formula equals consensus SetCompact for exponent >= 3 and "
         "clear sign bit. The Lean parser, SHA-256d (native) and serialiser are an independent implementation: every synthetic transaction (independent "
         "harness serialiser; empty/one-byte/non-standard scripts, coinbase, counts across 252/253), the repository's raw vectors and every transaction "
         "of real mainnet blocks (250000, 330000; thorough: 625007, 629999, 722010 = 8469 transactions) is parsed by both; fields, txid, block hash, "
         "target, both block readers and byte-exact re-serialisation are compared. Found and fixed through this check: F31, F32, F30a, F49 (segwit coinbase with an arbitrary reserved value), F99 (Block.parse_bytesio on a stream that does not start at the block; the pre-positioned read runs under a 300 s wall-clock limit), F106 (a block followed by more bytes in its stream); witness stacks handed to Input as one byte string are checked item for item; listed: F02, F30, F111 (segwit-kind transaction with legacy inputs only serialises with marker and empty witnesses; repair pinned out by a baseline test; checked directly, the Lean parser reads such bytes)."),
   design_ref='DESIGN.md §5 C06',
   note=COMMON_NOTE + "SHA-256 is executable reference code validated by vectors and by agreement with hashlib on every case (nothing is proved about it). "
        "strict=True refusals of non-standard content are counted, not violations."),
 'C01': dict(
   technique='Lean 4 theorems (structure + injectivity of the legacy and BIP143 preimages) + consensus digests computed by the Lean model compared with signature_hash; every library signature verified by an independent Lean secp256k1 ECDSA',
   text=("Proved in Lean: the legacy SIGHASH_ALL preimage is the witness-stripped serialisation of the transaction with emptied scriptSigs and the "
         "script code at input i, followed by the hash type (any number of inputs/outputs); by the C06 round-trip theorem equal preimages imply equal "
         "version, outpoints, sequences, script code, outputs and locktime (injectivity of what is committed); the BIP143 SIGHASH_ALL preimage has the "
         "BIP143 layout and commits to the amount. The executable consensus digests (legacy incl. NONE/SINGLE/ANYONECANPAY, BIP143 all hash types) are "
         "computed from the harness's own serialisation, script code and amount - never from the library's bytes - and compared with "
         "Transaction.signature_hash for every input of API-built transactions over 8 spend kinds, all networks, counts across 252/253, m-of-n to 15; "
         "then the library signs and every signature is verified by the Lean ECDSA against the Lean digest (valid on the real network, not merely "
         "self-consistent). Found and fixed through this check: F33, F45 (P2SH-P2WPKH input with a caller-supplied locking script), F82 (the same with a caller-supplied redeem script), F124 (signature_hash(i) without a witness type took the kind of the transaction). Multisig inputs are also built from the script of the output plus keys with the threshold left to the script. Merged transactions (t1 + t2) and output scripts of 252 / 253 / 65535 / 65536 bytes are part of every run."),
   design_ref='DESIGN.md §5 C01',
   note=COMMON_NOTE + "secp256k1 arithmetic and SHA-256 in the driver are executable reference code (validated by vectors / agreement with the library), not verified. "
        "FindAndDelete/OP_CODESEPARATOR are not modelled; the library does not implement legacy non-ALL hash types (it refuses to sign them)."),
 'C13': dict(
   technique='Lean 4 theorems (ECDSA correctness over an abstract prime-order group with Mathlib; low-S rule and exact locus of F10) + model replica of the deterministic signer and an independent verifier run against the library',
   text=("Proved in Lean (Mathlib ZMod/Module, axioms propext/Classical.choice/Quot.sound): over any ZMod n-module with n prime, a signature made "
         "with a non-zero nonce verifies under d•G (verify_sign); the (r, -s) twin of a valid signature is valid when negation preserves the "
         "x-coordinate, so low-S normalisation preserves validity; lowS yields a value in (0, n/2] equal to s or n-s; the pre-fix float threshold gives "
         "a low S iff the raw s is not in (n/2, 2^255] (F10, found by this check and fixed); strict DER: derDecode(derEncode(r, s)) = (r, s) for all 1 <= r, s < 2^256 (minimal lengths, no negative or zero-padded integers). The Lean driver re-implements the signer exactly (RFC6979 "
         "nonce as fastecdsa derives it from sha256 of the ASCII-hex digest, low-S, strict DER): for every generated (key, digest[, nonce]) - incl. "
         "digests crafted so that s hits n/2, n/2+1, 2^255-1, 2^255, 2^255+1, n-1 - r, s, DER bytes and nonce must be identical; every signature is "
         "verified by the independent Lean secp256k1 verifier and re-decoded by a strict BIP66 decoder; library-derived nonces are pairwise distinct; "
         "the library verifier must answer exactly like the standard verifier on r,s in {0,1,n-1,n,n+1,2^256-1,+n}, high-S twins, wrong keys, digest +-1; the digest as bytes / lower-case / upper-case hexadecimal and the public key as object / bytes / hexadecimal text are one message and one key; der_encode_sig / convert_der_sig are compared with the model on structured (r, s). Found and fixed: F10, F63 (nonce depended on the case of the digest text), F64 (public key as text not accepted), F90 (DER signatures of 64 bytes or less refused), F108 (raw signatures whose r begins 30 3d refused). Public keys that are not on the curve (non-strict Key objects) are offered with forged signatures."),
   design_ref='DESIGN.md §5 C13',
   note=COMMON_NOTE + "Hypotheses, not theorems: secp256k1's points form a cyclic group of prime order n with x(-R) = x(R); HMAC-SHA256 collision resistance for "
        "'nonce never shared'. Curve arithmetic, SHA-256, HMAC in the driver are reference code validated by vectors and by agreement with fastecdsa. "
        "fastecdsa's DER decoder accepts long-form lengths; such encodings are counted when they read back as the same (r, s)."),
 'C03': dict(
   technique='Lean 4 theorems (CKDpriv/CKDpub commute at every split point, hardened never from public, over an abstract group) + independent executable BIP32 in Lean run against HDKey',
   text=("Proved in Lean over an abstract ZMod n-module with arbitrary HMAC / serialisation / fingerprint functions: N(CKDpriv(x,i)) = CKDpub(N(x),i) "
         "for every non-hardened i including chain code, depth, parent fingerprint and child number; CKDpub fails for every i >= 2^31 and a public "
         "derivation along any path containing a hardened element fails; for any p1 and any non-hardened p2 of any length, private derivation along "
         "p1++p2 then neutering equals private along p1, neutering, public along p2 (induction, unbounded depth); depth bookkeeping; the five spellings of the hardened marker after any digits denote the same child number, the number plus 2^31, and numbers from 2^31 on cannot be hardened (on the executable path-item parser). The driver contains "
         "an independent BIP32 (HMAC-SHA512, secp256k1, HASH160 reference code; BIP32 vector chains) compared with HDKey.from_seed/subkey_for_path/"
         "child_private/child_public on seeds of 16..64 bytes, depths to 8 (20), boundary indices, all five hardened spellings, m/ and M/ prefixes, every "
         "split point with the public part re-imported from its xpub string. The bare prefixes m and M are asked of master and derived keys. Found and fixed through this check: F08, F59 (the path M returned the private key), F83 (hardened marker on numbers from 2^31 on wrapped around), F84 (HD objects with compressed=False derived other children)."),
   design_ref='DESIGN.md §5 C03',
   note=COMMON_NOTE + "The error branches of BIP32 (I_L >= n, child key 0 / point at infinity) are in the executable model but outside the algebraic theorems; "
        "they have probability < 2^-127 and are not reachable by search."),
 'C04': dict(
   technique='Lean 4 theorems (public-key decoding sound for any sqrt routine; compressed/uncompressed describe one point under p prime; scalar range; network table) + reference secp256k1/hash160/address encoders run against Key and Address',
   text=("Proved in Lean: whatever decodePubWith accepts is on the curve with coordinates below p and the stated parity - unconditionally, for any "
         "square-root routine (the candidate is validated); the uncompressed encoding of an on-curve point decodes to it; under 'p prime' and a "
         "root-finding hypothesis the compressed encoding decodes to the same point (both square roots are y and p-y, of opposite parity), i.e. the "
         "two forms describe one point; a secret is accepted iff it is in [1, n-1]; table theorems pin the generated version bytes / HRPs of bitcoin, "
         "testnet, litecoin, dogecoin and P2PKH != P2SH versions in every network. The decoding logic that the theorems are about is the code the "
         "driver runs. Scalars (0, 1, n-1, n, n+1, 2^256-1, sparse, leading zeros, random; as int/bytes/hex/HDKey), public encodings (every small x on "
         "and off the curve, x >= p, wrong y, wrong prefix, wrong length) and addresses for every network x encoding x script type (Key.address in "
         "shuffled call orders on one object, Address(), HDKey per witness type) are compared with the model. Key objects go through histories that switch between the two forms and between address kinds under an explicit prefix. Found and fixed: F09, F81 (address(compressed=...) hashed the wrong form and changed the object); listed: F09b."),
   design_ref='DESIGN.md §5 C04',
   note=COMMON_NOTE + "Point multiplication, SHA-256, RIPEMD-160 are reference code (vectors + agreement with the library), not verified; 'p prime' is a hypothesis. "
        "p2tr: only the Bech32m encoding of a given 32-byte output key is claimed."),
 'C12': dict(
   technique='Lean 4 theorems (WIF and extended-key export/import round trips over Base58Check; prefix-table disjointness) + export/import correspondence over every network x witness type x multisig x private/public',
   text=("Proved in Lean: wifDec (wifEnc ver secret compressed) = (ver, secret, compressed) for every secret below 2^256 (leading zero bytes included) "
         "with compression decided by payload length; xkeyDec (xkeyEnc k) = k for all six fields; with the last-byte rule of the pinned tree an "
         "uncompressed WIF ending in 01 imports as a different key (F21 witness, for any checksum function); in the generated prefix table no version is "
         "both private and public (decide over all pairs), the mainnet versions are the published BIP32/SLIP-132 ones, and the only mainnet ambiguity "
         "is single/multisig under the legacy versions. The harness exports every key (forced first/last bytes, leading zeros) in every representation "
         "and imports it back, compares WIF / extended-key strings with the Lean encoders and imported fields + metadata with the Lean decoders and "
         "the candidate sets of the table. The import decision for extended keys (xkeyImport: 78 bytes, version of the table, key field of the kind the version announces) is proved sound and complete with respect to the encoder and is what C11's mutants with a right checksum are compared with. Decimal text, HD objects made from uncompressed keys, public keys whose text ends like a format marker, and exports before and after a network change of the object are included. Found and fixed: F21, F61 (78-digit decimal keys refused), F62 (xpub of an uncompressed HD object), F70 (under C11)."),
   design_ref='DESIGN.md §5 C12',
   note=COMMON_NOTE + "hex/bytes 'secret+01' forms that start with 02/03/04 are classified public by construction (not self-describing; counted, not claimed). BIP38 export/import is covered under C15."),
 'C05': dict(
   technique='Lean 4 theorems (lockScript/classifyScript mutually inverse for all destinations, witness version committed) + address->script and script->address correspondence on every network incl. cross-network offers',
   text=("Proved in Lean: classifyScript (lockScript d) = d for every well-formed destination (P2PKH, P2SH, witness versions 0..16 with programs "
         "of 2..40 bytes, v0 only 20/32) and classifyScript s = d implies lockScript d = s (no second script reads as the same destination); the "
         "witness version is committed by the script; with the C11 codec theorems this makes address <-> script mutually inverse. The model (with "
         "the generated network table) is compared with Output(address=...), Address objects, Transaction.add_output, Output(lock_script=...).address "
         "on every network, both encodings, versions 0..16, program lengths 2..40, payloads that look like hex text or whitespace, and every address "
         "is also offered to other networks (must be refused unless the library's own table cannot distinguish them). The generic encoders and converters (pubkeyhash_to_addr, addr_convert in both directions and across witness versions) are compared with independent reference encoders. Found and fixed: F15, F31b, F31c, F60 (addr_convert dropped the witness version), F77 (nested segwit Address objects paid an unspendable script), F78 (strict=False emptied the script), F79 / F80 (objects and Bech32 strings of another network accepted). Address objects made from public keys, objects of other networks and Address.parse with a wrong network are part of every run."),
   design_ref='DESIGN.md §5 C05',
   note=COMMON_NOTE + "For outputs built from a bare public key or hash the script type is the library's default; the check demands only that the script commits to that key's hash. "
        "Witness programs without a standard type name (v>=2, v1 with non-32-byte program) are compared by address only."),
 'C19': dict(
   technique='Lean 4 theorems (per-opcode agreement of the library model with consensus on every stack; equality of evaluation for all straight-line programs over the agreeing set; witnesses for each listed deviation) + exhaustive/random correspondence of both models with Script.evaluate',
   text=("Two Lean interpreters: Spec = transcription of consensus EvalScript for the implemented opcodes (exec stack, CastToBool, 4/5-byte "
         "operands, CHECKMULTISIG matching, BIP65/66/112) and Impl = transcription of Script.evaluate / Stack.op_* as they are (Python list "
         "index semantics, op_if's splice scanner, exception paths). Proved: for each of 63 opcodes of the agreeing set the library method equals "
         "consensus on EVERY stack and never lets an exception escape; hence for every straight-line program over that set, of any length, evaluation "
         "gives the same verdict and the same remaining stack, and what consensus rejects is rejected; witness theorems show each listed deviation "
         "(SUB, TUCK, 2SWAP, PICK, WITHIN, LESSTHAN family, second ELSE); the opcode numbers equal the library's generated table. Correspondence: "
         "every opcode number 0..255 on every stack of <= 2 (thorough <= 3) items over a 12-value edge alphabet, random programs with nested "
         "conditionals (20% ill nested), straight-line programs over the agreeing set, standard spends with real signatures: the library must equal "
         "Spec, or equal Impl exactly AND involve a listed F13.* opcode. Found and fixed through this check: consensus truthiness, CLTV threshold, CSV "
         "always passing (three fix: commits); 13 F13.* deviations are listed (most pinned by the repository's own unit tests)."),
   design_ref='DESIGN.md §5 C19',
   note=COMMON_NOTE + "Consensus = my transcription of Bitcoin Core's interpreter (no reference node offline); script size / opcode count / stack size limits are not modelled. "
        "Conditionals, CHECKSIG/CHECKMULTISIG, CLTV/CSV are covered by the correspondence with the Impl model only (no Impl=Spec theorem; listed deviations exist there)."),
 'C02': dict(
   technique='Lean 4 theorems (soundness and completeness of the Input.verify counting loop, unbounded keys/signatures) + independent Lean consensus-style verifier compared with Transaction.verify over signing schedules and tamperings',
   text=("Proved in Lean for the transcription of Input.verify's loop (with its try-previous-signature branch), any numbers of keys and signatures: "
         "acceptance implies at least m strictly increasing (distinct) listed key positions each with a signature that verifies under it; no "
         "signatures, no valid (signature, key) pair, or fewer than m keys with a valid signature imply rejection; if the S >= max(m,1) signatures are "
         "by distinct keys stored in key order (the invariant Transaction.sign maintains) the input verifies. The Lean driver is an independent "
         "verifier (own parser, template extraction, consensus digests of C01, strict DER, secp256k1 ECDSA, consensus m-of-n matching, hash "
         "commitment of redeem/witness script and key to the previous output). For API-built transactions over 8 spend kinds, random signer subsets "
         "and orders, signing spread over per-input and whole-transaction calls with repeats, then 11 kinds of single-field tampering of the object "
         "and of the parsed serialisation (incl. corrupted / foreign / duplicated signatures at byte level): library verdict must match the "
         "expectation, and library-accepts implies the independent verifier accepts. Keys attached to the inputs, a change after signing and sign_and_update() are part of every run. Found and fixed: F35 (sign() early exits), F33, F53 (re-signed pay-to-public-key input kept the old signature in its script), F73 (hash type byte of witness signatures ignored), F74 / F76 (signing a multisig input again), F75 (Input.valid stale), F101 (hash type byte of a later multisig signature), F102 (outpoint zeroed in the serialisation becomes a coinbase input), F116 (address-only multisig input adopts any key). Version and lock time are also overwritten in the serialisation (0, 1, 2, ffffffff) before parsing. The hash type byte of a signature is one of the tamperings; a multisig input is signed by exactly m cosigners, changed and signed again."),
   design_ref='DESIGN.md §5 C02',
   note=COMMON_NOTE + "Cryptographic residue: that a changed digest is not matched by the old signature rests on ECDSA/SHA-256. verify() trusts the input's own redeem script "
        "(the previous output is not part of a transaction); the independent verifier is given the previous output script and amount, as a node would have them (see F25 under C10)."),
 'C14': dict(
   technique='Lean 4 theorems (entropy <-> word-index round trip on bit lists in both directions, unknown word / wrong length / wrong checksum rejected, checksum-only substitutions rejected) + reference PBKDF2/SHA-256 and exhaustive word-list comparison against the code',
   text=("Proved in Lean for any checksum hash: for every entropy of 16/20/24/28/32 bytes (leading zeros, all ones included) the word indices "
         "convert back to that entropy (bit-regrouping lemmas: values -> bits -> 11-bit groups -> bits -> bytes); an index >= 2048 (unknown word) or a "
         "wrong number of words is rejected; whatever is accepted carries the checksum bits of the entropy it yields and IS the sentence of that entropy "
         "(accepted sentences and entropies correspond one to one: two accepted sentences with one entropy are equal; a substitution that leaves the "
         "entropy bits alone is always rejected). The same lemmas give the "
         "Bech32 8->5->8 round trip used under C11. Word lists enter as hypotheses and are compared entry by entry (9 x 2048) with a frozen "
         "reference copy on every run. The model (SHA-256, PBKDF2-HMAC-SHA512 reference code) is compared with Mnemonic.to_mnemonic / to_entropy / "
         "to_seed in all nine languages on structured entropies, ASCII and NFKD-sensitive unicode passphrases and single-word substitutions "
         "(accepted iff the checksum still matches, with exactly the model's entropy). Language detection and sanitising are checked on every generated sentence. Found and fixed: F18."),
   design_ref='DESIGN.md §5 C14',
   note=COMMON_NOTE + "Unicode NFKD is Python's unicodedata on both sides. The default check_on_curve=True guard (entropy must be in (0, n)) is a documented parameter: verified to be exactly that guard and counted."),
 'C20': dict(
   technique='Lean 4 theorems about the provider loop (returned value is a provider answer; no answer => no value; failover past failing providers) and about the cache in front of it (never-fabricated over whole query histories), any number of providers + exhaustive outcome-assignment correspondence with real Service objects and fake providers',
   text=("Proved in Lean for the transcription of Service._provider_execute, for ANY number of providers, outcome assignment, max_providers and "
         "max_errors: a returned value is exactly the answer of one of the providers (never fabricated); if no provider answers no value is returned; "
         "with max_providers = 1, skipped / empty / raising providers are passed over and the first answering provider's answer is returned as long as "
         "fewer than max_errors errors were recorded before it. The model is compared EXHAUSTIVELY with real Service objects (generated "
         "providers.json, fake provider classes injected into bitcoinlib.services): every assignment of 7 outcome kinds to k <= 3 (thorough 4) "
         "providers, priority orders, max_providers in {1,2}, max_errors in {1,2,4}: returned value, results and errors bookkeeping must match. Every "
         "query method (sendrawtransaction, getrawtransaction, getbalance, getutxos, gettransaction, mempool, isspent, estimatefee) is run on all "
         "{ok, False, exception}^2 patterns cold and warm: the answer must be the first responding provider's, a failure, or - warm - exactly what "
         "was stored. Additionally proved: a cache read returns what was stored for that key, and along ANY history of cached queries (cold / warm / partially filled cache, any failures) every value returned for a key was answered by some provider for that key in this or an earlier query; random histories of Service.gettransaction over several txids are compared with this cache + provider machine. Blocks read page by page (cold and from the cache), getrawblock, getinfo, getinputvalues, transactions with outputs of value 0 and a cached transaction read after the cached block count expired are included. Found and fixed: F95 (negative confirmations from the cache), F109 (a provider answering None ended the query). getutxos on a cache that was partially filled by gettransaction(s) from providers that do not know the spent status is compared with the provider's answer. Listed finding: F36 (getbalance reports 0 when no provider answered; the repair breaks an unedited offline test)."),
   design_ref='DESIGN.md §5 C20',
   note=COMMON_NOTE + "Providers are in-process fakes (timeouts and partial HTTP answers are represented by the outcome classes); the SQL cache is exercised, not modelled; estimatefee's clamping/default is a documented normalisation; blockcount's provider-consensus vote is outside the model."),
 'C17': dict(
   technique='Lean 4 theorems (Mathlib: integer->Value->integer and decimal text->integer are exact for every n <= 21e14, for any rounding obeying the standard model of floating point / the half-ulp bound) + exact rational model of binary64 run against Value/value_to_satoshi',
   text=("Proved in Lean (Mathlib, rationals): for ANY rounding function obeying the standard model of floating point (|error| <= 2^-53 per "
         "operation) and ANY non-zero denominator constant d, fl(fl(n*d)/d) lies strictly within 1/2 of n for every n <= 21*10^14, hence rounding "
         "to the nearest integer returns exactly n: Value.from_satoshi(n).value_sat = n on the whole supply range; the bound is shown non-vacuous "
         "and near-tight (fails above 2.26e15). Text -> integer: for every n <= 21*10^14, round(float(n/10^8)*1/1e-08) = n for every rounding obeying the standard model, the half-ulp bound below 2^25 and idempotence, with the literal 1e-08 written out and proved within 2^-55 of 10^-8 (three error terms; the top 5% of the range needs the half-ulp bound). An exact model of binary64 on rationals (round-to-nearest-even, correctly rounded float(str), "
         "round(), %.Nf) reproduces the library's pipelines digit for digit and is itself validated against CPython on every run. Compared: integer "
         "-> Value -> integer on 0..20000, 10^k+-1, 2^k+-1, the top of the range and random amounts (50k / thorough 300k), 8-decimal strings -> "
         "satoshi, library formatting parsed back, and formatting in every denominator symbol on every network against the exact decimal "
         "specification; amount strings with every denominator symbol of the table are read back. Found and fixed: F46 (the da symbol), F51 (from_satoshi with a denominator) and F52 (strings with a denominator symbol) - both off by one satoshi for large amounts; F91 (unknown currency codes read as the default currency), F92 (add_output(Value) made an output of whole coins as satoshi); after the repairs both pipelines are the ones of the two theorems, and they are run over the whole supply range in every unit. Listed: F14 (display in non-unit denominators is off for some large amounts; float design)."),
   design_ref='DESIGN.md §5 C17',
   note=COMMON_NOTE + "The standard model of floating-point arithmetic (and, for the text direction, the half-ulp bound and idempotence of rounding) are hypotheses of the theorems (not proved for the executable roundF64, which is validated against CPython instead). Strings with a denominator symbol other than the coin unit are, since the repair of F52, the same pipeline (exact decimal product, rounded once); that float(Decimal) is correctly rounded is CPython's documented behaviour, checked by the run over the whole supply range in every unit. "
        "Where more than 8 decimals would be needed (denominators above the coin unit) any correct rounding of the last shown digit is accepted. Non-negativity of output and fee amounts is checked under C07."),
 'C16': dict(
   technique='Lean 4 theorems (slot/taint invariant over all call histories: only slots cleared by public() can hold secret-derived data; decision logic of the encrypted database column types: switched on => every written value is the cipher output under the selected key, key wins over password, round trips, ciphertext without key refused) + per-attribute taint measurement, every-encoding scan of all public views of real objects, and a differential run of the column types in subprocesses under every kind of field-encryption configuration',
   text=("Proved in Lean on a slot/taint abstraction of Key/HDKey: for EVERY history of method calls (wif, address, hash160, as_dict with and "
         "without private data, info, public_point) only slots in the set that public() clears can hold secret-derived data, hence the public "
         "view is clean whatever was called before; with the clearing set of the pinned tree the history [wif] (or [info] on an HDKey) leaves the "
         "private WIF behind (F12 witness). The harness measures the same thing on real objects: after random histories it determines, per "
         "attribute, whether ANY encoding of the secret (raw, hex, HEX, decimal, WIF compressed/uncompressed for every network, extended private "
         "key for every private version) is reachable, compares the tainted sets of the private object and of its public() view with the model, "
         "and scans pickle, deepcopy + attribute walk, repr, str, as_dict, as_json, info() output, wif_public of the public view, the default "
         "exports of private objects, wallets (repr of keys, as_dict/as_json/info, public_master, watch-only wallets) and the sqlite file written "
         "with field encryption switched on by key, by password and by both. The field encryption itself (db.py: _get_encryption_key, EncryptedBinary, "
         "EncryptedString) is transcribed in DbCrypt.lean with the cipher and the password hash as parameters; proved for every configuration, "
         "value, cipher and hash: a key is selected exactly when a key or password is supplied, the key wins over the password, with encryption "
         "switched on every value written to a private/wif column is the cipher output under the selected key (never the value), write-then-read "
         "is the identity with and without encryption, a text column written under a key is refused (not returned) when read without key, and "
         "whatever the cipher refuses under another key is refused. The harness imports the library in a subprocess per configuration (config.ini "
         "switch x key unset/empty/set x password unset/empty/set, random keys and passwords), binds and reads back values through the real column "
         "types with real AES-SIV, classifies what was handed to the database by decrypting it with the candidate keys, and compares every "
         "decision with the model; it also checks that every column named private/wif in the schema has an encrypted type. Found and fixed: F12, F22."),
   design_ref='DESIGN.md §5 C16',
   note=COMMON_NOTE + "The object walk enumerates what Python exposes (__dict__ of bitcoinlib objects, containers, pickle bytes); it is not a proof about the interpreter. "
        "info(), wif(), as_dict(include_private=True) of a PRIVATE object are explicit private exports, not public views."),
 'C15': dict(
   technique='Lean 4 theorems (BIP38 payload layout round trip over any invertible block cipher; accepted keys hash to the committed address hash; generator calls consume distinct entropy draws) + reference AES-256 / scrypt correspondence with the code, BIP38 vectors, generation histories',
   text=("Proved in Lean for the non-EC-multiplied layout over an abstract cipher with dec(enc b) = b and an abstract scrypt: for every 32-byte "
         "secret, both compression flags, every passphrase (derive function) decrypt(encrypt(k)) = (k, flag); for ANY string and ANY passphrase whatever "
         "decrypt returns hashes to the 4-byte address hash committed in the string (so a wrong passphrase fails rather than returning an unrelated "
         "key, up to the 32-bit commitment BIP38 specifies); n generator calls that each consume a draw use n distinct draws, whereas the "
         "default-argument generator of the pinned tree repeats draw 0 (F11 witness). The model with a Lean AES-256 and hashlib.scrypt is compared "
         "with Key.encrypt / bip38_decrypt / Key(import) on structured keys (edge scalars, both flags, several networks, unicode NFC-sensitive "
         "passphrases), wrong passphrases, corrupted strings incl. the checksum tail, histories that change the key's address encoding before "
         "encrypting, the BIP38 vectors incl. EC-multiplied ones (decrypt side) and successive bip38_create_new_encrypted_wif calls (distinct "
         "keys). EC-multiplied keys are generated from seeds and salts with leading / inner / trailing zero bytes, on several networks, with lot / sequence incl. sequence 0, and opened with the passphrase in the other unicode normal form; HD key objects of every witness type must encrypt like plain keys. Found and fixed: F11, F20, F07, F37, F65 (HDKey.encrypt hashed the bech32 address), F66 (EC mode: passphrase not normalised on decryption), F67 (EC mode on other networks never decrypted), F68 (sequence 0 refused), F93 (HD key objects could not open BIP38 strings)."),
   design_ref='DESIGN.md §5 C15',
   note=COMMON_NOTE + "AES-256 and scrypt are reference code / hashlib, not proved; the EC-multiplied mode is covered by correspondence (vectors, generate-then-decrypt), not by theorems."),
 'C08': dict(
   technique='Lean 4 invariant proof by induction over all operation histories of a ledger machine transcribed from the wallet table updates + random-history correspondence with real Wallet objects on sqlite (fake service layer)',
   text=("Proved in Lean for the ledger machine (tables transactions / outputs / inputs / keys.balance as lists; operations new key, utxo_add incl. "
         "re-adding a known outpoint, send = store + mark spent + _balance_update, delete, reopen, balance) for EVERY list of operations: "
         "balance() = sum of unspent outputs; every key's stored balance = sum of that key's unspent outputs and the per-key balances add up to "
         "the total; an outpoint consumed by a stored transaction is never unspent, and stays so under any later operations until that "
         "transaction is deleted; reopening changes nothing reported; a stored transaction reloads as stored. The invariant has five clauses "
         "(spent flags cover stored inputs, outputs name wallet keys, keys and consumed outpoints are duplicate-free, balance column = per-key "
         "sums). The machine is compared after EVERY step of random histories (utxo_add, send_to/send/sweep broadcast, not broadcast and with a "
         "failing push, transactions built by one Wallet object and imported as object / raw hex / dict into a second one and sent there, "
         "transaction_delete of sent and stub transactions, close+reopen, new keys) with real wallets (HD legacy / segwit / p2sh-segwit, "
         "single-key, multisig): utxos(), balance(), per-key balances through the open object AND a second Wallet object on the same database, "
         "in random observation order; stored transactions are reloaded and compared (id, inputs, outputs, raw). Wallets with another default account, re-listed (also spent) outpoints, small sequence numbers, held key objects and held transaction objects sent again are part of the histories. Found and fixed: F17, F23, F24, F38, F85 (outputs filed under account 0), F86 (sequence 0 reloaded as 0xffffffff), F87 (bulk-created key objects not registered), F96 (a stale object sent again un-spent outputs), F103 (delete freed outputs a replacement still consumes), F104 / F105 (account 0 read as no account; sweep dropped the account), F110 (raw import replaced lock time 0), F117 (a deleted parent stored again listed its spent change), F125 (transaction_delete with a second wallet of the same database holding the transaction id), F119 / F120 (an unspent output counts for the account of its key: balance, unspent list, input selection, rescan). Stored transactions of status new (send_to(broadcast=False) + store()) are checked directly: balance = unspent list = per-key balances on two wallet objects. The ledger machine admits replacements, held unsent objects sent later and re-stored transactions (send guard without the unspent / fresh-input conditions, delete frees only what no other stored transaction consumes); wallets with two accounts run one machine per account."),
   design_ref='DESIGN.md §5 C08',
   note=COMMON_NOTE + "One network and one account per wallet; SQL semantics and two simultaneously open SQLAlchemy sessions are outside the model (a hand-off continues on the receiving object). Outputs on non-leaf keys of an HD wallet are not generated."),
 'C07': dict(
   technique='Lean 4 theorems about a transcription of transaction_create / select_inputs / estimate_size / sweep / bumpfee (conservation, fee >= 0, rate limits, selection soundness, insufficient funds fail) for all requests + call-by-call correspondence with the real methods (logged estimate_size and select_inputs calls, scripted randomness) and the statement checked on every created transaction incl. an independent parse of its raw bytes',
   text=("Proved in Lean for every request (any candidate rows, amounts, fee argument, service estimate, change count, random draws): a created "
         "transaction balances (inputs = requested outputs + change + reported fee), the fee is >= 0, the reported fee rate is inside the network "
         "limits; with automatic inputs every input is one of the candidate rows (unspent, required confirmations), none twice, and they cover "
         "amount + fee estimate; if the candidates cannot pay amount + fee estimate, or explicit inputs cannot pay the outputs (or outputs + "
         "explicit fee), the request fails; a single change output is positive; a sweep pays out exactly the swept inputs; a fee bump leaves "
         "recipient outputs untouched and takes at least the extra fee from change; when WalletTransaction.bumpfee has to add a wallet input it is one the transaction does not spend yet (inputs stay distinct) and the transaction still balances. The transcription uses the exact binary64 model for the "
         "float expressions. It is compared call by call with the real code on HD legacy/segwit/p2sh-segwit, single-key and 2-of-3 multisig "
         "wallets: every estimate_size call, every select_inputs call (candidate rows read with the same query), every transaction_create "
         "(fee, fee_per_kb, inputs, change amounts or the error kind; random.randint and numpy dirichlet draws recorded), sweep, "
         "Transaction.bumpfee and WalletTransaction.bumpfee (incl. the extra-input fallback). Every created transaction is additionally checked against the sentences of C07 on the objects and on the raw "
         "bytes parsed by the Lean parser (recipients once with exact script, other outputs to change keys, inputs distinct/unspent/confirmed, "
         "signs and verifies). Found and fixed: F39, F41, F42, F48 (duplicate explicit inputs), F88 (fee rate below the network minimum with many inputs; the theorem create_rate_limits is now about the rate of the final fee, and the signed bytes are checked to pay a rate within 10% of the limits), F89 (sweep with several rest targets; sweepPlan guard + sweep_one_rest), F98 (estimate_size of nested segwit inputs; nestedScriptSig in the model), F115 (fee bump over several change outputs took the whole extra fee again from the output that pays the rest; bumpLoop subtracts the remaining fee), F118 (output numbers after a fee bump), F121 (Output objects as recipients kept their own output numbers); explicit inputs also come with a claimed value that differs from the wallet's record; listed: F40 (invalid explicit input lists are accepted)."),
   design_ref='DESIGN.md §5 C07',
   note=COMMON_NOTE + "Rows with equal (confirmations, value) may come back from SQLite in either order; selections differing only in such ties count as equal. send()'s fee re-estimation is exercised through C08 histories, not modelled."),
 'C09': dict(
   technique='Lean 4: key-structure table (generated from config.py) pinned against BIP44/45/48/49/84 by decide, symbolic path theorems for every variable value, injectivity, and an invariant proof over all histories of a key-row machine (no repeated index; no gaps for new_key/get_key histories) + history correspondence with real wallets, every key re-derived with the Lean BIP32/address functions, wallets re-created from seed / mnemonic / xprv / account xpub',
   text=("Proved in Lean: the generated WALLET_KEY_STRUCTURES table has exactly one structure per (witness type, multisig) with purpose 44/49/84 "
         "(single) and 45/48 (multisig), the documented level order and hardened levels; for EVERY coin type, account, change, index the expanded "
         "path is m/purpose'/coin'/account'/change/index (BIP45/48 variants for multisig, script type 1'/2'); equal paths imply equal "
         "(witness type, coin, account, change, index); for EVERY history of new_keys / get_keys / key-used / key_for_path operations each key row "
         "lies at the path of its chain and index and no chain holds an index twice; for every history without explicit key_for_path the "
         "indices of each chain are exactly 0..k-1 in creation order and the next index is the number of keys. The machine is compared step by "
         "step with real HD wallets (legacy / p2sh-segwit / segwit; bitcoin, testnet, litecoin, dogecoin; created from HDKey, mnemonic with "
         "and without passphrase, xprv string; mixed witness types, several accounts, new_key, new_key_change, get_key(s), new_keys, "
         "key_for_path, keys becoming used, reopen); every key handed out and every leaf row is re-derived from the seed by the Lean BIP32 model "
         "and its address recomputed by the Lean address model; keys.path_expand is compared on partial paths with all hardened spellings; "
         "wallets are re-created from seed, mnemonic, xprv and (watch-only) account xpub and must reproduce the addresses. "
         "Histories now also ask for the account public key in the middle (public_master), add an account on a second network, give a watch-only wallet its private master key and reopen it, and run the index machine on cosigner wallets of multisigs. Found and fixed: F43, F44, F54, F55, F56, F97 (new_key with a cosigner ID on a single-signature wallet), F112 (multisig keys asked for by [change, index] stored under index 0), F114 (key_for_path with a cosigner ID on a single-signature wallet), F123 (bulk keys from an explicit path stored on the wrong chain). The change-chain wrappers get_key_change / get_keys_change are part of every history."),
   design_ref='DESIGN.md §5 C09',
   note=COMMON_NOTE + "Histories run on single-signature HD wallets; multisig key paths are covered by the table and path theorems and by the cosigner-wallet comparison of C10."),
 'C10': dict(
   technique='Lean 4 theorems (bytewise key sorting is permutation-invariant => one redeem script per key set; the stored signatures are the position-sorted duplicate-free signer set, independent of signing order; with the C02 verification loop an input verifies iff >= m distinct cosigners signed) + cosigner-wallet correspondence: every holder x key order x witness type against scripts/addresses computed from the seeds by the Lean BIP32/script/address functions, and signing ceremonies in every order through object / dict / raw hand-off',
   text=("Proved in Lean: the bytewise order on public keys is total, transitive and antisymmetric, so sorting any permutation of the n cosigner "
         "keys gives the same list and every cosigner wallet derives the same redeem script (hence script hash and address); the signatures an "
         "input holds after any sequence of cosigners has signed are exactly the distinct signers in key-position order (order-independent, "
         "idempotent), and with the transcription of Input.verify proved sound and complete in C02 the input verifies IFF at least m distinct "
         "cosigners have signed, for every m, n and signing sequence. Correspondence: for legacy P2SH (BIP45), P2SH-P2WSH and P2WSH (BIP48) wallets, "
         "m-of-n with n <= 3 quick (<= 5 thorough), every holder of the private key and supplied key orders: the address of every path equals "
         "the one computed from the seeds alone (Lean BIP32 derivation of each cosigner key, Lean sorting, script and address); signing "
         "ceremonies over all signer sequences (incl. a cosigner signing twice) with hand-off as object, dict and raw hex: after every step "
         "the number of signatures and verify() must equal the model, the redeem script of the spend must be the sorted-key script, and "
         "send(broadcast=True) must push iff at least m distinct cosigners signed. Found and fixed: F24 (dict hand-off), F25 (raw hand-off "
         "broadcast a 2-of-2 with one signature), F50 (dict hand-off dropped sequence numbers), F57 (multi-input dict hand-off signed in the wrong key order), F100 (ceremonies beyond the threshold through dict hand-offs duplicated and lost signatures; 2-of-5 in the quick tier), F113 (eleven and more cosigners: reopened wallet loaded the cosigner wallets by name), F122 (a stored unsigned multisig spend read back as 1-of-n), F126 (dict hand-off lost outputs without an address; some spends carry a data output), F127 (dict hand-off to a cosigner wallet that has not seen the spent outputs; in some ceremonies only the creator's wallet knows them); listed: F26 (raw hand-off loses partial signatures; never an under-signed broadcast)."),
   design_ref='DESIGN.md §5 C10',
   note=COMMON_NOTE + "ECDSA validity of the individual signatures is C02/C13; here the signer set, its order-independence and the threshold are decided. n up to 15 is covered by the theorems (any n), the run stops at n = 5."),
}

NOT_YET = {}


def main():
    props = [json.loads(l) for l in open(os.path.join(VERIF, 'properties.jsonl'))]
    checks, na = [], []
    for p in props:
        pid = p['id']
        if pid in CHECKS:
            c = CHECKS[pid]
            checks.append({
                'property_id': pid,
                'quick_cmd': './check %s --tier quick' % pid,
                'thorough_cmd': './check %s --tier thorough' % pid,
                'evidence_file': 'evidence/%s.json' % pid,
                'replay_cmd_template': './check %s --replay {path}' % pid,
                'engine': 'lean4-model+correspondence',
                'level_claimed': {'category': 'proof', 'text': c['text'], 'design_ref': c['design_ref']},
                'level_note': c['note'],
                'technique': c['technique'],
            })
        else:
            na.append({'property_id': pid, 'reason': NOT_YET.get(pid, 'check not built yet in this session (planned in DESIGN.md §5; an executable Lean model applies) - not claimed until its theorems and correspondence run exist')})
    m = {
        'version': 1,
        'setup_cmd': 'cd /verif && /venv/bin/python harness/gen_tables.py && cd lean && lake build',
        'hooks': {'guard': 'BITCOINLIB_VERIF', 'enable': 'no source hooks: the harness imports /repo in-process and injects fakes by monkey-patching (BITCOINLIB_VERIF=1 is exported by the checks for completeness)',
                  'baseline_off_cmd': BASELINE, 'source_commits': [], 'add_only': True},
        'engines': [{'name': 'lean4-model+correspondence', 'path': 'lean/ + harness/', 'serves_properties': sorted(CHECKS),
                     'kind_free_text': 'Lean 4 model (Spec + Impl with deviation flags) with kernel-checked theorems; native line-protocol driver built from the same definitions; Python differential harness against the real bitcoinlib'}],
        'checks': checks,
        'not_applicable': na,
        'notes': 'See DESIGN.md. known_findings.json lists genuine defects (known / fixed).',
    }
    json.dump(m, open(os.path.join(VERIF, 'MANIFEST.json'), 'w'), indent=1)
    print('claimed', sorted(CHECKS), 'not claimed', [x['property_id'] for x in na])


if __name__ == '__main__':
    main()
