"""Transaction generators shared by C01/C02/C06: an independent (harness-side) serialiser for
synthetic well-formed transactions, and builders that go through the library's API."""
import hashlib


def cs(n):
    if n < 0xfd:
        return bytes([n])
    if n <= 0xffff:
        return b'\xfd' + n.to_bytes(2, 'little')
    if n <= 0xffffffff:
        return b'\xfe' + n.to_bytes(4, 'little')
    return b'\xff' + n.to_bytes(8, 'little')


def vs(b):
    return cs(len(b)) + b


def ser_tx(tx, with_witness=True):
    """tx: dict(version, ins=[(txid32 wire order, vout, script, seq)], outs=[(value, script)], wit=None|[[items]], locktime)"""
    r = tx['version'].to_bytes(4, 'little')
    segwit = with_witness and tx.get('wit') is not None
    if segwit:
        r += b'\x00\x01'
    r += cs(len(tx['ins']))
    for txid, vout, script, seq in tx['ins']:
        r += txid + vout.to_bytes(4, 'little') + vs(script) + seq.to_bytes(4, 'little')
    r += cs(len(tx['outs']))
    for value, script in tx['outs']:
        r += value.to_bytes(8, 'little') + vs(script)
    if segwit:
        for st in tx['wit']:
            r += cs(len(st)) + b''.join(vs(it) for it in st)
    r += tx['locktime'].to_bytes(4, 'little')
    return r


def sha256d(b):
    return hashlib.sha256(hashlib.sha256(b).digest()).digest()


PK = bytes.fromhex('0279be667ef9dcbbac55a06295ce870b07029bfcdb2dce28d959f2815b16f81798')
PKU = bytes.fromhex('0479be667ef9dcbbac55a06295ce870b07029bfcdb2dce28d959f2815b16f81798'
                    '483ada7726a3c4655da4fbfc0e1108a8fd17b448a68554199c47d08ffb10d4b8')
SIG = bytes.fromhex('304402204e45e16932b8af514961a1d3a1a25fdf3f4f7732e9d624c6c61548ab5fb8cd410220181522ec8eca07de4860a4acdd12909d831cc56cbbac4622082221a8768d1d0901')


WS = b'\x51\x21' + PK + b'\x51\xae'
SHA_WS = hashlib.sha256(WS).digest()


def _h160(b):
    from Crypto.Hash import RIPEMD160
    return RIPEMD160.new(hashlib.sha256(b).digest()).digest()


H160_PK = _h160(PK)


def rbytes(rng, n):
    return bytes(rng.randrange(256) for _ in range(n))


def rand_lock_script(rng, standard_only=False):
    k = rng.random()
    if k < 0.2:
        return b'\x76\xa9\x14' + rbytes(rng, 20) + b'\x88\xac'
    if k < 0.35:
        return b'\xa9\x14' + rbytes(rng, 20) + b'\x87'
    if k < 0.5:
        return b'\x00\x14' + rbytes(rng, 20)
    if k < 0.6:
        return b'\x00\x20' + rbytes(rng, 32)
    if k < 0.7:
        return b'\x51\x20' + rbytes(rng, 32)
    if k < 0.75:
        return b'\x21' + PK + b'\xac'
    if k < 0.8:
        d = rbytes(rng, rng.randint(1, 40))
        return b'\x6a' + bytes([len(d)]) + d
    if standard_only:
        return b'\x76\xa9\x14' + rbytes(rng, 20) + b'\x88\xac'
    if k < 0.84:
        return b''
    if k < 0.9:
        return bytes([rng.randrange(256)])
    if k < 0.95:
        return rbytes(rng, rng.randint(2, 60))
    return b'\x51\x21' + PK + b'\x21' + PK + b'\x52\xae'


def rand_unlock_script(rng, standard_only=False):
    k = rng.random()
    if k < 0.3:
        return vs(SIG) + vs(PK)
    if k < 0.4:
        return vs(SIG) + vs(PKU)
    if k < 0.5:
        return vs(SIG)
    if k < 0.6:
        rs = b'\x51\x21' + PK + b'\x51\xae'
        return b'\x00' + vs(SIG) + vs(rs)
    if k < 0.7:
        return b'\x16\x00\x14' + rbytes(rng, 20)
    if k < 0.75:
        return b'\x22\x00\x20' + rbytes(rng, 32)
    if standard_only:
        return vs(SIG) + vs(PK)
    if k < 0.85:
        return b''
    if k < 0.9:
        return bytes([rng.randrange(256)])
    return rbytes(rng, rng.randint(2, 80))


def wsig(rng):
    """the signature item of a witness stack: the last byte (hash type) is one opaque byte of the item - every value is well-formed"""
    if rng.random() < 0.6:
        return SIG
    return SIG[:-1] + bytes([rng.choice([0x00, 0x00, 0x02, 0x03, 0x81, 0x82, 0x83, 0x80, 0xff, rng.randrange(256)])])


def rand_tx(rng, standard_only=False, big=False):
    nin = rng.choice([1, 1, 1, 2, 3]) if not big else rng.choice([252, 253, 254, 300])
    nout = rng.choice([1, 1, 2, 2, 3, 5]) if not big else rng.choice([1, 252, 253, 254, 300])
    segwit = rng.random() < 0.5
    coinbase = (not segwit) and rng.random() < 0.1 and not big
    ins = []
    for i in range(nin):
        if coinbase and i == 0:
            ins.append((b'\0' * 32, 0xffffffff, rbytes(rng, rng.randint(2, 40)), 0xffffffff))
            continue
        seq = rng.choice([0xffffffff, 0xfffffffe, 0xfffffffd, 0, 1, rng.getrandbits(32)])
        vout = rng.choice([0, 1, 2, rng.randrange(2**32)])
        if segwit and rng.random() < 0.7:
            k = rng.random()
            if k < 0.6:
                script = b''
            elif k < 0.8:
                script = b'\x16\x00\x14' + H160_PK              # consistent with the witness key below
            elif k < 0.95:
                script = b'\x22\x00\x20' + SHA_WS               # consistent with the witness script below
            else:
                script = b'\x16\x00\x14' + rbytes(rng, 20)       # inconsistent program (well-formed, invalid spend)
        else:
            script = rand_unlock_script(rng, standard_only)
        ins.append((rbytes(rng, 32), vout, script, seq))
    outs = []
    for _ in range(nout):
        value = rng.choice([0, 1, 546, 10**8, 2**32, 2**32 + 1, 21 * 10**14, rng.randrange(21 * 10**14)])
        outs.append((value, rand_lock_script(rng, standard_only)))
    wit = None
    if segwit:
        wit = []
        for (txid, vout, script, seq) in ins:
            if script[:3] == b'\x16\x00\x14' and len(script) == 23:
                wit.append([wsig(rng), PK])
            elif script[:3] == b'\x22\x00\x20' and len(script) == 35:
                wit.append([b'', wsig(rng), WS])
            elif script == b'':
                k = rng.random()
                if k < 0.5:
                    wit.append([wsig(rng), PK])
                elif k < 0.7:
                    wit.append([b'', wsig(rng), WS])
                elif standard_only:
                    wit.append([wsig(rng), PK])
                elif k < 0.8:
                    wit.append([rbytes(rng, 64)])
                elif k < 0.9:
                    n = rng.choice([1, 2, 3, 5]) if not big else 300
                    wit.append([rbytes(rng, rng.choice([0, 1, 1, 2, 20, 32, 33, 71, 80])) for _ in range(n)])
                else:
                    wit.append([bytes([rng.randrange(256)])])
            else:
                wit.append([])
    return {'version': rng.choice([1, 2, 2, 1, rng.getrandbits(32), rng.choice([0, 0, 3, 0x7fffffff, 0x80000000, 0xffffffff, 0x01000000])]), 'ins': ins, 'outs': outs, 'wit': wit,
            'locktime': rng.choice([0, 0, 1, 499999999, 500000000, 2**32 - 1, rng.getrandbits(32)])}


def in_listed_region(tx):
    """F02 (a script or witness item equal to 00) or F30 (inconsistent P2SH-nested program)"""
    z = b'\x00'
    if any(sc == z for _, _, sc, _ in tx['ins']) or any(sc == z for _, sc in tx['outs']):
        return True
    wit = tx['wit'] or [[] for _ in tx['ins']]
    for (txid, vout, sc, seq), st in zip(tx['ins'], wit):
        if any(it == z for it in st):
            return True
        if len(sc) == 23 and sc[:3] == b'\x16\x00\x14' and st and sc[3:] != _h160(st[-1]):
            return True
        if len(sc) == 35 and sc[:3] == b'\x22\x00\x20' and st and sc[3:] != hashlib.sha256(st[-1]).digest():
            return True
    return False


def rand_tx_clean(rng, **kw):
    while True:
        tx = rand_tx(rng, **kw)
        if not in_listed_region(tx):
            return tx


# ------------------------------------------------------------------------------------------------
# transactions built through the library's API (C01, C02, C06): returns the Transaction and the
# harness's own description (consensus script codes, amounts) used to ask the Lean model
# ------------------------------------------------------------------------------------------------
KINDS = ['p2pkh', 'p2pkh_unc', 'p2pk', 'p2sh_ms', 'p2wpkh', 'p2wsh_ms', 'p2sh_p2wpkh', 'p2sh_p2wsh_ms']


def ms_script(m, pubs):
    return bytes([80 + m]) + b''.join(vs(p) for p in pubs) + bytes([80 + len(pubs), 0xae])


def build_api_tx(rng, network='bitcoin', kinds=None, nin=None, nout=None, max_n=4, public_only=False, tx_witness_type='segwit'):
    from bitcoinlib.transactions import Transaction
    from bitcoinlib.keys import Key
    kinds = kinds or KINDS
    nin = nin or rng.randrange(1, 5)
    nout = nout or rng.randrange(1, 4)
    ver = rng.choice([1, 2])
    lt = rng.choice([0, 0, 500000, 1700000000])
    t = Transaction(version=ver, locktime=lt, network=network, witness_type=tx_witness_type)
    ins, meta = [], []

    def rk():
        return Key(rng.randrange(2**rng.choice([64, 200, 254]), 2**255), network=network)    # distinct with overwhelming probability

    def with_spk(spk):
        # the documented use of `locking_script`: the scriptPubKey of the output being spent (given for some inputs)
        if rng.random() < 0.35:
            return {'locking_script': spk}
        return {}

    def pub(k):
        # the input only knows the public key when public_only is set; private keys are supplied to sign()
        return Key(k.public_byte, network=network, compressed=k.compressed) if public_only else k

    for i in range(nin):
        kind = rng.choice(kinds)
        txid = rbytes(rng, 32)
        n = rng.choice([0, 1, 4, 2**31, 2**32 - 1]) if rng.random() < 0.3 else rng.randrange(0, 5)
        seq = rng.choice([0xffffffff, 0xfffffffe, 0xfffffffd, 5, 0])
        val = rng.choice([1000, 2**32 + 5, 21 * 10**14, 123456789, 1])
        keys = []
        if kind in ('p2pkh', 'p2pkh_unc'):
            k = rk()
            if kind == 'p2pkh_unc':
                k = Key(k.secret, compressed=False, network=network)
            sc = b'\x76\xa9\x14' + _h160(k.public_byte) + b'\x88\xac'
            t.add_input(txid, n, keys=[pub(k)], script_type='sig_pubkey', sequence=seq, value=val, witness_type='legacy',
                        compressed=k.compressed, **with_spk(sc))
            keys = [k]
            meta.append(dict(kind=kind, wt='legacy', sc=sc, val=val, keys=keys, m=1, spk=sc))
        elif kind == 'p2pk':
            k = rk()
            sc = vs(k.public_byte) + b'\xac'
            t.add_input(txid, n, keys=[pub(k)], script_type='signature', sequence=seq, value=val, witness_type='legacy', **with_spk(sc))
            meta.append(dict(kind=kind, wt='legacy', sc=sc, val=val, keys=[k], m=1, spk=sc))
        elif kind in ('p2sh_ms', 'p2wsh_ms', 'p2sh_p2wsh_ms'):
            nk = rng.randrange(1, max_n + 1)
            m = rng.randrange(1, nk + 1)
            ks = [rk() for _ in range(nk)]
            st, wt = {'p2sh_ms': ('p2sh_multisig', 'legacy'), 'p2wsh_ms': ('p2sh_multisig', 'segwit'),
                      'p2sh_p2wsh_ms': ('p2sh_p2wsh', 'p2sh-segwit')}[kind]
            t.add_input(txid, n, keys=[pub(x) for x in ks], script_type=st, sigs_required=m, sequence=seq, value=val, witness_type=wt)
            ks_sorted = ks       # Transaction.add_input keeps the given key order (sorting is a wallet-level option)
            rs = ms_script(m, [k.public_byte for k in ks_sorted])
            if rng.random() < 0.3:
                # the caller hands over the script of the output being spent together with the keys (and leaves the threshold to the script):
                # the input is the Input object built that way
                from bitcoinlib.transactions import Input
                t.inputs[-1] = Input(txid, n, keys=[pub(x) for x in ks], redeemscript=rs, script_type=st, sequence=seq, value=val, witness_type=wt,
                                     index_n=len(t.inputs) - 1, network=network, **({} if rng.random() < 0.6 else {'sigs_required': m}))
            if kind == 'p2sh_ms':
                spk = b'\xa9\x14' + _h160(rs) + b'\x87'
            elif kind == 'p2wsh_ms':
                spk = b'\x00\x20' + hashlib.sha256(rs).digest()
            else:
                spk = b'\xa9\x14' + _h160(b'\x00\x20' + hashlib.sha256(rs).digest()) + b'\x87'
            meta.append(dict(kind=kind, wt='legacy' if kind == 'p2sh_ms' else 'segwit', sc=rs, val=val, keys=ks_sorted, m=m, spk=spk))
        elif kind == 'p2wpkh':
            k = rk()
            form = rng.choice(['explicit', 'explicit', 'address-string', 'address-object'])
            if form == 'explicit':
                t.add_input(txid, n, keys=[pub(k)], script_type='sig_pubkey', sequence=seq, value=val, witness_type='segwit',
                            **with_spk(b'\x00\x14' + _h160(k.public_byte)))
            else:
                # the witness type is not given: it follows from the (bech32) address of the output being spent
                from bitcoinlib.keys import Address
                ao = Address(hashed_data=_h160(k.public_byte), script_type='p2wpkh', encoding='bech32', network=network)
                t.add_input(txid, n, keys=[pub(k)], script_type='sig_pubkey', sequence=seq, value=val,
                            address=ao.address if form == 'address-string' else ao)
            sc = b'\x76\xa9\x14' + _h160(k.public_byte) + b'\x88\xac'
            meta.append(dict(kind=kind, wt='segwit', sc=sc, val=val, keys=[k], m=1, spk=b'\x00\x14' + _h160(k.public_byte)))
        elif kind == 'p2sh_p2wpkh':
            k = rk()
            t.add_input(txid, n, keys=[pub(k)], script_type='p2sh_p2wpkh', sequence=seq, value=val, witness_type='p2sh-segwit',
                        **with_spk(b'\xa9\x14' + _h160(b'\x00\x14' + _h160(k.public_byte)) + b'\x87'))
            if rng.random() < 0.3:
                # the caller also hands over the redeem script of the nested input (0014<key hash>), as it stands in the scriptSig
                t.inputs[-1].redeemscript = b'\x00\x14' + _h160(k.public_byte)
            sc = b'\x76\xa9\x14' + _h160(k.public_byte) + b'\x88\xac'
            meta.append(dict(kind=kind, wt='segwit', sc=sc, val=val, keys=[k], m=1,
                             spk=b'\xa9\x14' + _h160(b'\x00\x14' + _h160(k.public_byte)) + b'\x87'))
        ins.append((txid[::-1], n, b'', seq))       # wire order
    outs = []
    for o in range(nout):
        v = rng.choice([0, 546, 10**8, 21 * 10**14, 2**32, rng.randrange(21 * 10**14)])
        spk = rng.choice([b'\x76\xa9\x14' + rbytes(rng, 20) + b'\x88\xac', b'\xa9\x14' + rbytes(rng, 20) + b'\x87',
                          b'\x00\x14' + rbytes(rng, 20), b'\x00\x20' + rbytes(rng, 32), b'\x51\x20' + rbytes(rng, 32),
                          b'\x6a\x04abcd'])
        if spk[0] == 0x6a:
            v = 0
        t.add_output(v, lock_script=spk)
        outs.append((v, spk))
    desc = {'version': ver, 'ins': ins, 'outs': outs, 'wit': None, 'locktime': lt, 'meta': meta}
    return t, desc
