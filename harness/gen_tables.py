"""Translator for *data*: regenerates lean/BtcModel/Gen/*.lean from /repo's working tree on every
run (only rewritten when the content changed, so a no-op `lake build` stays a no-op)."""
import os, sys, json, subprocess

VERIF = os.path.dirname(os.path.dirname(os.path.abspath(__file__)))
GEN = os.path.join(VERIF, 'lean', 'BtcModel', 'Gen')


def write_if_changed(path, text):
    if os.path.exists(path) and open(path).read() == text:
        return False
    os.makedirs(os.path.dirname(path), exist_ok=True)
    with open(path, 'w') as f:
        f.write(text)
    return True


def generate():
    return []


if __name__ == '__main__':
    print(generate())
