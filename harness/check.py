#!/venv/bin/python
"""./check <property id> [--tier quick|thorough] [--replay file]

exit 0: the property held on everything explored (KNOWN-FINDING lines possible)
exit 1: VIOLATION property=<id> replay=<path> [no-failing-input-found]
exit 2: infrastructure problem (never a VIOLATION line)"""
import sys, os, argparse, importlib, json, traceback
sys.path.insert(0, os.path.dirname(os.path.dirname(os.path.abspath(__file__))))
from harness import core


def main():
    ap = argparse.ArgumentParser()
    ap.add_argument('pid')
    ap.add_argument('--tier', default=os.environ.get('VERIF_TIER', 'quick'), choices=['quick', 'thorough'])
    ap.add_argument('--replay')
    a = ap.parse_args()
    seed = int(os.environ.get('VERIF_SEED', '0'))
    core.setup_env()
    try:
        mod = importlib.import_module('harness.props.' + a.pid.lower())
        ctx = core.Ctx(a.pid, a.tier, seed)
        if a.replay:
            obj = json.load(open(a.replay))
            rc = mod.replay(ctx, obj)
            sys.exit(rc)
        ctx.lean.build()
        ctx.lean.audit()
        if ctx.thorough and ctx.lean.build_ok:
            ctx.lean.leanchecker()
        mod.run(ctx)
        sys.exit(ctx.finish())
    except core.Infra as e:
        print('INFRA-ERROR: %s' % e, file=sys.stderr)
        sys.exit(2)
    except Exception:
        traceback.print_exc()
        print('INFRA-ERROR: harness exception', file=sys.stderr)
        sys.exit(2)


if __name__ == '__main__':
    main()
