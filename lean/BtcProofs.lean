import BtcProofs.Properties.C18
