import BtcModel.Bytes
import BtcModel.Prim.Sha512
/-! secp256k1 arithmetic, ECDSA sign-with-k / verify, RFC 6979 nonce — executable reference
(independent of fastecdsa).  Nothing is proved about these definitions. -/
namespace Btc.Prim

def secpP : Nat := 0xFFFFFFFFFFFFFFFFFFFFFFFFFFFFFFFFFFFFFFFFFFFFFFFFFFFFFFFEFFFFFC2F
def secpN : Nat := 0xFFFFFFFFFFFFFFFFFFFFFFFFFFFFFFFEBAAEDCE6AF48A03BBFD25E8CD0364141
def secpGx : Nat := 0x79BE667EF9DCBBAC55A06295CE870B07029BFCDB2DCE28D959F2815B16F81798
def secpGy : Nat := 0x483ADA7726A3C4655DA4FBFC0E1108A8FD17B448A68554199C47D08FFB10D4B8

def powMod (b e m : Nat) : Nat := Id.run do
  let mut r := 1
  let mut base := b % m
  let mut ex := e
  while ex > 0 do
    if ex % 2 == 1 then r := r * base % m
    base := base * base % m
    ex := ex / 2
  return r

def invMod (a m : Nat) : Nat := powMod a (m - 2) m

/-- affine point, `none` = infinity -/
abbrev Pt := Option (Nat × Nat)

structure Jac where
  x : Nat
  y : Nat
  z : Nat

def Jac.inf : Jac := ⟨1, 1, 0⟩
def Jac.ofPt : Pt → Jac
  | none => Jac.inf
  | some (x, y) => ⟨x, y, 1⟩

def Jac.toPt (j : Jac) : Pt :=
  if j.z == 0 then none else
    let zi := invMod j.z secpP
    let zi2 := zi * zi % secpP
    some (j.x * zi2 % secpP, j.y * zi2 % secpP * zi % secpP)

def Jac.dbl (j : Jac) : Jac :=
  if j.z == 0 || j.y == 0 then Jac.inf else
    let p := secpP
    let ysq := j.y * j.y % p
    let s := 4 * j.x * ysq % p
    let m := 3 * j.x * j.x % p
    let nx := (m * m + 2 * (p - s)) % p
    let ny := (m * ((s + p - nx) % p) + (p - 8 * ysq % p * ysq % p)) % p
    let nz := 2 * j.y * j.z % p
    ⟨nx, ny, nz⟩

def Jac.add (a b : Jac) : Jac :=
  if a.z == 0 then b else if b.z == 0 then a else
    let p := secpP
    let z1z1 := a.z * a.z % p
    let z2z2 := b.z * b.z % p
    let u1 := a.x * z2z2 % p
    let u2 := b.x * z1z1 % p
    let s1 := a.y * b.z % p * z2z2 % p
    let s2 := b.y * a.z % p * z1z1 % p
    if u1 == u2 then
      if s1 == s2 then a.dbl else Jac.inf
    else
      let h := (u2 + p - u1) % p
      let r := (s2 + p - s1) % p
      let h2 := h * h % p
      let h3 := h2 * h % p
      let u1h2 := u1 * h2 % p
      let nx := (r * r + (p - h3) + 2 * (p - u1h2)) % p
      let ny := (r * ((u1h2 + p - nx) % p) + (p - s1 * h3 % p)) % p
      let nz := h * a.z % p * b.z % p
      ⟨nx, ny, nz⟩

def smulJ (k : Nat) (pt : Jac) : Jac := Id.run do
  let mut r := Jac.inf
  let mut q := pt
  let mut e := k
  while e > 0 do
    if e % 2 == 1 then r := r.add q
    q := q.dbl
    e := e / 2
  return r

def ptAdd (a b : Pt) : Pt := (Jac.add (Jac.ofPt a) (Jac.ofPt b)).toPt
def smul (k : Nat) (pt : Pt) : Pt := (smulJ k (Jac.ofPt pt)).toPt
def secpG : Pt := some (secpGx, secpGy)
def smulG (k : Nat) : Pt := smul k secpG

def onCurve (x y : Nat) : Bool := x < secpP && y < secpP && (y * y) % secpP == (x * x % secpP * x + 7) % secpP

/-- square root mod p (p ≡ 3 mod 4); `none` when `a` is not a square -/
def sqrtP (a : Nat) : Option Nat :=
  let r := powMod a ((secpP + 1) / 4) secpP
  if r * r % secpP == a % secpP then some r else none

/-- SEC1 decoding of a compressed / uncompressed public key with all validity checks -/
def decodePub (b : Bytes) : Option (Nat × Nat) :=
  match b with
  | pre :: rest =>
    if (pre == 2 || pre == 3) && rest.length == 32 then
      let x := beVal rest
      if x ≥ secpP then none else
      match sqrtP ((x * x % secpP * x + 7) % secpP) with
      | none => none
      | some y =>
        let y := if (y % 2 == 1) == (pre == 3) then y else secpP - y
        some (x, y)
    else if pre == 4 && rest.length == 64 then
      let x := beVal (rest.take 32)
      let y := beVal (rest.drop 32)
      if onCurve x y then some (x, y) else none
    else none
  | [] => none

def encodePubC : Nat × Nat → Bytes
  | (x, y) => (if y % 2 == 0 then 2 else 3) :: beBytes x 32
def encodePubU : Nat × Nat → Bytes
  | (x, y) => 4 :: (beBytes x 32 ++ beBytes y 32)

/-- standard ECDSA verification (SEC1 4.1.4); z = message digest as integer -/
def ecdsaVerify (q : Nat × Nat) (z r s : Nat) : Bool :=
  if r == 0 || r ≥ secpN || s == 0 || s ≥ secpN then false else
  if !onCurve q.1 q.2 then false else
    let w := invMod s secpN
    let u1 := z % secpN * w % secpN
    let u2 := r * w % secpN
    match (Jac.add (smulJ u1 (Jac.ofPt secpG)) (smulJ u2 (Jac.ofPt (some q)))).toPt with
    | none => false
    | some (x, _) => x % secpN == r

/-- raw ECDSA signature with explicit nonce (no low-S normalisation) -/
def ecdsaSignK (d z k : Nat) : Option (Nat × Nat) :=
  match smulG k with
  | none => none
  | some (x, _) =>
    let r := x % secpN
    let s := invMod k secpN * ((z + r * d) % secpN) % secpN
    if r == 0 || s == 0 then none else some (r, s)

/-- RFC 6979 nonce with HMAC-SHA256, qlen = hlen = 256; `h1` is the 32-byte digest -/
def rfc6979 (d : Nat) (h1 : Bytes) : Nat := Id.run do
  let x := beBytes d 32
  let hz := beBytes (beVal h1 % secpN) 32      -- bits2octets
  let mut v : Bytes := List.replicate 32 1
  let mut k : Bytes := List.replicate 32 0
  k := hmacSha256 k (v ++ [0] ++ x ++ hz)
  v := hmacSha256 k v
  k := hmacSha256 k (v ++ [1] ++ x ++ hz)
  v := hmacSha256 k v
  let mut res := 0
  let mut fuel := 1000
  while fuel > 0 do
    fuel := fuel - 1
    v := hmacSha256 k v
    let cand := beVal v
    if cand ≥ 1 && cand < secpN then
      res := cand
      fuel := 0
    else
      k := hmacSha256 k (v ++ [0])
      v := hmacSha256 k v
  return res

end Btc.Prim
