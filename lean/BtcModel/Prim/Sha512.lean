import BtcModel.Prim.Sha256
/-! SHA-512 (FIPS 180-4), executable reference. -/
namespace Btc.Prim

def sha512K : Array UInt64 := #[
  0x428a2f98d728ae22, 0x7137449123ef65cd, 0xb5c0fbcfec4d3b2f, 0xe9b5dba58189dbbc, 0x3956c25bf348b538,
  0x59f111f1b605d019, 0x923f82a4af194f9b, 0xab1c5ed5da6d8118, 0xd807aa98a3030242, 0x12835b0145706fbe,
  0x243185be4ee4b28c, 0x550c7dc3d5ffb4e2, 0x72be5d74f27b896f, 0x80deb1fe3b1696b1, 0x9bdc06a725c71235,
  0xc19bf174cf692694, 0xe49b69c19ef14ad2, 0xefbe4786384f25e3, 0x0fc19dc68b8cd5b5, 0x240ca1cc77ac9c65,
  0x2de92c6f592b0275, 0x4a7484aa6ea6e483, 0x5cb0a9dcbd41fbd4, 0x76f988da831153b5, 0x983e5152ee66dfab,
  0xa831c66d2db43210, 0xb00327c898fb213f, 0xbf597fc7beef0ee4, 0xc6e00bf33da88fc2, 0xd5a79147930aa725,
  0x06ca6351e003826f, 0x142929670a0e6e70, 0x27b70a8546d22ffc, 0x2e1b21385c26c926, 0x4d2c6dfc5ac42aed,
  0x53380d139d95b3df, 0x650a73548baf63de, 0x766a0abb3c77b2a8, 0x81c2c92e47edaee6, 0x92722c851482353b,
  0xa2bfe8a14cf10364, 0xa81a664bbc423001, 0xc24b8b70d0f89791, 0xc76c51a30654be30, 0xd192e819d6ef5218,
  0xd69906245565a910, 0xf40e35855771202a, 0x106aa07032bbd1b8, 0x19a4c116b8d2d0c8, 0x1e376c085141ab53,
  0x2748774cdf8eeb99, 0x34b0bcb5e19b48a8, 0x391c0cb3c5c95a63, 0x4ed8aa4ae3418acb, 0x5b9cca4f7763e373,
  0x682e6ff3d6b2b8a3, 0x748f82ee5defb2fc, 0x78a5636f43172f60, 0x84c87814a1f0ab72, 0x8cc702081a6439ec,
  0x90befffa23631e28, 0xa4506cebde82bde9, 0xbef9a3f7b2c67915, 0xc67178f2e372532b, 0xca273eceea26619c,
  0xd186b8c721c0c207, 0xeada7dd6cde0eb1e, 0xf57d4f7fee6ed178, 0x06f067aa72176fba, 0x0a637dc5a2c898a6,
  0x113f9804bef90dae, 0x1b710b35131c471b, 0x28db77f523047d84, 0x32caab7b40c72493, 0x3c9ebe0a15c9bebc,
  0x431d67c49c100d4c, 0x4cc5d4becb3e42b6, 0x597f299cfc657e2a, 0x5fcb6fab3ad6faec, 0x6c44198c4a475817]

@[inline] def rotr64 (x : UInt64) (n : UInt64) : UInt64 := (x >>> n) ||| (x <<< (64 - n))

def sha512Raw (msg : ByteArray) : ByteArray := Id.run do
  let m := mdPadBE msg 128 16
  let mut h : Array UInt64 := #[0x6a09e667f3bcc908, 0xbb67ae8584caa73b, 0x3c6ef372fe94f82b, 0xa54ff53a5f1d36f1,
    0x510e527fade682d1, 0x9b05688c2b3e6c1f, 0x1f83d9abfb41bd6b, 0x5be0cd19137e2179]
  for blk in [0:m.size / 128] do
    let mut w : Array UInt64 := Array.replicate 80 0
    for t in [0:16] do
      let o := blk * 128 + t * 8
      let mut x : UInt64 := 0
      for j in [0:8] do
        x := (x <<< 8) ||| m[o+j]!.toUInt64
      w := w.set! t x
    for t in [16:80] do
      let w15 := w[t-15]!
      let w2 := w[t-2]!
      let s0 := rotr64 w15 1 ^^^ rotr64 w15 8 ^^^ (w15 >>> 7)
      let s1 := rotr64 w2 19 ^^^ rotr64 w2 61 ^^^ (w2 >>> 6)
      w := w.set! t (w[t-16]! + s0 + w[t-7]! + s1)
    let mut a := h[0]!
    let mut b := h[1]!
    let mut c := h[2]!
    let mut d := h[3]!
    let mut e := h[4]!
    let mut f := h[5]!
    let mut g := h[6]!
    let mut hh := h[7]!
    for t in [0:80] do
      let s1 := rotr64 e 14 ^^^ rotr64 e 18 ^^^ rotr64 e 41
      let ch := (e &&& f) ^^^ ((~~~ e) &&& g)
      let t1 := hh + s1 + ch + sha512K[t]! + w[t]!
      let s0 := rotr64 a 28 ^^^ rotr64 a 34 ^^^ rotr64 a 39
      let mj := (a &&& b) ^^^ (a &&& c) ^^^ (b &&& c)
      let t2 := s0 + mj
      hh := g; g := f; f := e; e := d + t1; d := c; c := b; b := a; a := t1 + t2
    h := #[h[0]! + a, h[1]! + b, h[2]! + c, h[3]! + d, h[4]! + e, h[5]! + f, h[6]! + g, h[7]! + hh]
  let mut out := ByteArray.empty
  for x in h do
    for j in [0:8] do
      out := out.push (x >>> (UInt64.ofNat (8 * (7 - j)))).toUInt8
  return out

def sha512 (b : Bytes) : Bytes := (sha512Raw (ByteArray.mk b.toArray)).toList

/-- HMAC (RFC 2104) over a hash with the given block size -/
def hmacRaw (H : ByteArray → ByteArray) (block : Nat) (key msg : ByteArray) : ByteArray := Id.run do
  let k0 := if key.size > block then H key else key
  let mut k := k0
  while k.size < block do k := k.push 0
  let mut ipad := ByteArray.empty
  let mut opad := ByteArray.empty
  for b in k do
    ipad := ipad.push (b ^^^ 0x36)
    opad := opad.push (b ^^^ 0x5c)
  return H (opad ++ H (ipad ++ msg))

def hmacSha512 (key msg : Bytes) : Bytes :=
  (hmacRaw sha512Raw 128 (ByteArray.mk key.toArray) (ByteArray.mk msg.toArray)).toList
def hmacSha256 (key msg : Bytes) : Bytes :=
  (hmacRaw sha256Raw 64 (ByteArray.mk key.toArray) (ByteArray.mk msg.toArray)).toList

/-- PBKDF2-HMAC-SHA512, one 64-byte block (BIP39: 2048 iterations, dkLen 64) -/
def pbkdf2Sha512 (pw salt : Bytes) (iters : Nat) : Bytes := Id.run do
  let pwA := ByteArray.mk pw.toArray
  let s := ByteArray.mk (salt ++ [0, 0, 0, 1]).toArray
  let mut u := hmacRaw sha512Raw 128 pwA s
  let mut t := u
  for _ in [1:iters] do
    u := hmacRaw sha512Raw 128 pwA u
    let mut t2 := ByteArray.empty
    for i in [0:64] do
      t2 := t2.push (t[i]! ^^^ u[i]!)
    t := t2
  return t.toList

end Btc.Prim
