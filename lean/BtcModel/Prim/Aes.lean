import BtcModel.Bytes
/-! AES-256 block cipher (FIPS 197), single-block ECB — executable reference, validated by the
FIPS vector and against pycryptodome. -/
namespace Btc.Prim

def xtime (b : UInt8) : UInt8 := if b &&& 0x80 != 0 then (b <<< 1) ^^^ 0x1b else b <<< 1

def gmul (a b : UInt8) : UInt8 := Id.run do
  let mut p : UInt8 := 0
  let mut x := a
  let mut y := b
  for _ in [0:8] do
    if y &&& 1 != 0 then p := p ^^^ x
    x := xtime x
    y := y >>> 1
  return p

/-- multiplicative inverse in GF(2^8) by exponentiation (a^254) -/
def ginv (a : UInt8) : UInt8 := Id.run do
  let mut r : UInt8 := 1
  for _ in [0:254] do
    r := gmul r a
  return r

def rotl8 (b : UInt8) (n : UInt8) : UInt8 := (b <<< n) ||| (b >>> (8 - n))

def sboxCalc (a : UInt8) : UInt8 :=
  let i := if a == 0 then 0 else ginv a
  i ^^^ rotl8 i 1 ^^^ rotl8 i 2 ^^^ rotl8 i 3 ^^^ rotl8 i 4 ^^^ 0x63

def sboxTable : Array UInt8 := (Array.range 256).map fun i => sboxCalc (UInt8.ofNat i)
def invSboxTable : Array UInt8 := Id.run do
  let mut t : Array UInt8 := Array.replicate 256 0
  for i in [0:256] do
    t := t.set! (sboxTable[i]!).toNat (UInt8.ofNat i)
  return t

def sbox (b : UInt8) : UInt8 := sboxTable[b.toNat]!
def invSbox (b : UInt8) : UInt8 := invSboxTable[b.toNat]!

/-- AES-256 key expansion: 60 words as a flat byte array of 240 bytes -/
def expandKey256 (key : Array UInt8) : Array UInt8 := Id.run do
  let mut w := key
  let mut rcon : UInt8 := 1
  for i in [8:60] do
    let mut t : Array UInt8 := #[w[4*(i-1)]!, w[4*(i-1)+1]!, w[4*(i-1)+2]!, w[4*(i-1)+3]!]
    if i % 8 == 0 then
      t := #[sbox t[1]! ^^^ rcon, sbox t[2]!, sbox t[3]!, sbox t[0]!]
      rcon := xtime rcon
    else if i % 8 == 4 then
      t := t.map sbox
    for j in [0:4] do
      w := w.push (w[4*(i-8)+j]! ^^^ t[j]!)
  return w

def addRoundKey (s : Array UInt8) (w : Array UInt8) (r : Nat) : Array UInt8 :=
  (Array.range 16).map fun i => s[i]! ^^^ w[16*r+i]!

def shiftRows (s : Array UInt8) : Array UInt8 :=
  (Array.range 16).map fun i => let c := i / 4; let r := i % 4; s[4*((c + r) % 4) + r]!
def invShiftRows (s : Array UInt8) : Array UInt8 :=
  (Array.range 16).map fun i => let c := i / 4; let r := i % 4; s[4*((c + 4 - r) % 4) + r]!

def mixColumns (s : Array UInt8) : Array UInt8 :=
  (Array.range 16).map fun i =>
    let c := i / 4; let r := i % 4
    let a := fun k => s[4*c + (r + k) % 4]!
    gmul 2 (a 0) ^^^ gmul 3 (a 1) ^^^ a 2 ^^^ a 3
def invMixColumns (s : Array UInt8) : Array UInt8 :=
  (Array.range 16).map fun i =>
    let c := i / 4; let r := i % 4
    let a := fun k => s[4*c + (r + k) % 4]!
    gmul 14 (a 0) ^^^ gmul 11 (a 1) ^^^ gmul 13 (a 2) ^^^ gmul 9 (a 3)

def aes256EncBlock (key block : Bytes) : Bytes := Id.run do
  let w := expandKey256 key.toArray
  let mut s := addRoundKey block.toArray w 0
  for r in [1:14] do
    s := addRoundKey (mixColumns (shiftRows (s.map sbox))) w r
  s := addRoundKey (shiftRows (s.map sbox)) w 14
  return s.toList

def aes256DecBlock (key block : Bytes) : Bytes := Id.run do
  let w := expandKey256 key.toArray
  let mut s := addRoundKey block.toArray w 14
  for i in [0:13] do
    let r := 13 - i
    s := invMixColumns (addRoundKey ((invShiftRows s).map invSbox) w r)
  s := addRoundKey ((invShiftRows s).map invSbox) w 0
  return s.toList

end Btc.Prim
