import BtcModel.Prim.Sha256
/-! RIPEMD-160 and SHA-1, executable references. -/
namespace Btc.Prim

@[inline] def rotl32 (x : UInt32) (n : UInt32) : UInt32 := (x <<< n) ||| (x >>> (32 - n))

def rmdR1 : Array Nat := #[0,1,2,3,4,5,6,7,8,9,10,11,12,13,14,15, 7,4,13,1,10,6,15,3,12,0,9,5,2,14,11,8,
  3,10,14,4,9,15,8,1,2,7,0,6,13,11,5,12, 1,9,11,10,0,8,12,4,13,3,7,15,14,5,6,2, 4,0,5,9,7,12,2,10,14,1,3,8,11,6,15,13]
def rmdR2 : Array Nat := #[5,14,7,0,9,2,11,4,13,6,15,8,1,10,3,12, 6,11,3,7,0,13,5,10,14,15,8,12,4,9,1,2,
  15,5,1,3,7,14,6,9,11,8,12,2,10,0,4,13, 8,6,4,1,3,11,15,0,5,12,2,13,9,7,10,14, 12,15,10,4,1,5,8,7,6,2,13,14,0,3,9,11]
def rmdS1 : Array UInt32 := #[11,14,15,12,5,8,7,9,11,13,14,15,6,7,9,8, 7,6,8,13,11,9,7,15,7,12,15,9,11,7,13,12,
  11,13,6,7,14,9,13,15,14,8,13,6,5,12,7,5, 11,12,14,15,14,15,9,8,9,14,5,6,8,6,5,12, 9,15,5,11,6,8,13,12,5,12,13,14,11,8,5,6]
def rmdS2 : Array UInt32 := #[8,9,9,11,13,15,15,5,7,7,8,11,14,14,12,6, 9,13,15,7,12,8,9,11,7,7,12,7,6,15,13,11,
  9,7,15,11,8,6,6,14,12,13,5,14,13,13,7,5, 15,5,8,11,14,14,6,14,6,9,12,9,12,5,15,8, 8,5,12,9,12,5,14,6,8,13,6,5,15,13,11,11]

def rmdF (j : Nat) (x y z : UInt32) : UInt32 :=
  if j < 16 then x ^^^ y ^^^ z
  else if j < 32 then (x &&& y) ||| ((~~~ x) &&& z)
  else if j < 48 then (x ||| (~~~ y)) ^^^ z
  else if j < 64 then (x &&& z) ||| (y &&& (~~~ z))
  else x ^^^ (y ||| (~~~ z))

def rmdK1 (j : Nat) : UInt32 :=
  if j < 16 then 0 else if j < 32 then 0x5a827999 else if j < 48 then 0x6ed9eba1 else if j < 64 then 0x8f1bbcdc else 0xa953fd4e
def rmdK2 (j : Nat) : UInt32 :=
  if j < 16 then 0x50a28be6 else if j < 32 then 0x5c4dd124 else if j < 48 then 0x6d703ef3 else if j < 64 then 0x7a6d76e9 else 0

def ripemd160Raw (msg : ByteArray) : ByteArray := Id.run do
  -- little-endian length padding
  let bitLen := msg.size * 8
  let mut m := msg.push 0x80
  while m.size % 64 != 56 do m := m.push 0
  for i in [0:8] do
    m := m.push (UInt8.ofNat ((bitLen >>> (8 * i)) % 256))
  let mut h0 : UInt32 := 0x67452301
  let mut h1 : UInt32 := 0xefcdab89
  let mut h2 : UInt32 := 0x98badcfe
  let mut h3 : UInt32 := 0x10325476
  let mut h4 : UInt32 := 0xc3d2e1f0
  for blk in [0:m.size / 64] do
    let mut x : Array UInt32 := Array.replicate 16 0
    for t in [0:16] do
      let o := blk * 64 + t * 4
      x := x.set! t (m[o]!.toUInt32 ||| (m[o+1]!.toUInt32 <<< 8) ||| (m[o+2]!.toUInt32 <<< 16) ||| (m[o+3]!.toUInt32 <<< 24))
    let mut a := h0; let mut b := h1; let mut c := h2; let mut d := h3; let mut e := h4
    let mut a' := h0; let mut b' := h1; let mut c' := h2; let mut d' := h3; let mut e' := h4
    for j in [0:80] do
      let t := rotl32 (a + rmdF j b c d + x[rmdR1[j]!]! + rmdK1 j) rmdS1[j]! + e
      a := e; e := d; d := rotl32 c 10; c := b; b := t
      let t' := rotl32 (a' + rmdF (79 - j) b' c' d' + x[rmdR2[j]!]! + rmdK2 j) rmdS2[j]! + e'
      a' := e'; e' := d'; d' := rotl32 c' 10; c' := b'; b' := t'
    let t := h1 + c + d'
    h1 := h2 + d + e'; h2 := h3 + e + a'; h3 := h4 + a + b'; h4 := h0 + b + c'; h0 := t
  let mut out := ByteArray.empty
  for x in [h0, h1, h2, h3, h4] do
    out := out.push x.toUInt8 |>.push (x >>> 8).toUInt8 |>.push (x >>> 16).toUInt8 |>.push (x >>> 24).toUInt8
  return out

def ripemd160 (b : Bytes) : Bytes := (ripemd160Raw (ByteArray.mk b.toArray)).toList
def hash160 (b : Bytes) : Bytes := ripemd160 (sha256 b)

def sha1Raw (msg : ByteArray) : ByteArray := Id.run do
  let m := mdPadBE msg 64 8
  let mut h : Array UInt32 := #[0x67452301, 0xefcdab89, 0x98badcfe, 0x10325476, 0xc3d2e1f0]
  for blk in [0:m.size / 64] do
    let mut w : Array UInt32 := Array.replicate 80 0
    for t in [0:16] do
      let o := blk * 64 + t * 4
      w := w.set! t ((m[o]!.toUInt32 <<< 24) ||| (m[o+1]!.toUInt32 <<< 16) ||| (m[o+2]!.toUInt32 <<< 8) ||| m[o+3]!.toUInt32)
    for t in [16:80] do
      w := w.set! t (rotl32 (w[t-3]! ^^^ w[t-8]! ^^^ w[t-14]! ^^^ w[t-16]!) 1)
    let mut a := h[0]!; let mut b := h[1]!; let mut c := h[2]!; let mut d := h[3]!; let mut e := h[4]!
    for t in [0:80] do
      let (f, k) : UInt32 × UInt32 :=
        if t < 20 then ((b &&& c) ||| ((~~~ b) &&& d), 0x5a827999)
        else if t < 40 then (b ^^^ c ^^^ d, 0x6ed9eba1)
        else if t < 60 then ((b &&& c) ||| (b &&& d) ||| (c &&& d), 0x8f1bbcdc)
        else (b ^^^ c ^^^ d, 0xca62c1d6)
      let tmp := rotl32 a 5 + f + e + k + w[t]!
      e := d; d := c; c := rotl32 b 30; b := a; a := tmp
    h := #[h[0]! + a, h[1]! + b, h[2]! + c, h[3]! + d, h[4]! + e]
  let mut out := ByteArray.empty
  for x in h do
    out := out.push (x >>> 24).toUInt8 |>.push (x >>> 16).toUInt8 |>.push (x >>> 8).toUInt8 |>.push x.toUInt8
  return out

def sha1 (b : Bytes) : Bytes := (sha1Raw (ByteArray.mk b.toArray)).toList

end Btc.Prim
