import BtcModel.Bytes
/-! SHA-256 (FIPS 180-4), executable reference. Nothing is proved about it; validated by vectors
and by differential runs against hashlib. -/
namespace Btc.Prim

def sha256K : Array UInt32 := #[
  0x428a2f98, 0x71374491, 0xb5c0fbcf, 0xe9b5dba5, 0x3956c25b, 0x59f111f1, 0x923f82a4, 0xab1c5ed5,
  0xd807aa98, 0x12835b01, 0x243185be, 0x550c7dc3, 0x72be5d74, 0x80deb1fe, 0x9bdc06a7, 0xc19bf174,
  0xe49b69c1, 0xefbe4786, 0x0fc19dc6, 0x240ca1cc, 0x2de92c6f, 0x4a7484aa, 0x5cb0a9dc, 0x76f988da,
  0x983e5152, 0xa831c66d, 0xb00327c8, 0xbf597fc7, 0xc6e00bf3, 0xd5a79147, 0x06ca6351, 0x14292967,
  0x27b70a85, 0x2e1b2138, 0x4d2c6dfc, 0x53380d13, 0x650a7354, 0x766a0abb, 0x81c2c92e, 0x92722c85,
  0xa2bfe8a1, 0xa81a664b, 0xc24b8b70, 0xc76c51a3, 0xd192e819, 0xd6990624, 0xf40e3585, 0x106aa070,
  0x19a4c116, 0x1e376c08, 0x2748774c, 0x34b0bcb5, 0x391c0cb3, 0x4ed8aa4a, 0x5b9cca4f, 0x682e6ff3,
  0x748f82ee, 0x78a5636f, 0x84c87814, 0x8cc70208, 0x90befffa, 0xa4506ceb, 0xbef9a3f7, 0xc67178f2]

@[inline] def rotr32 (x : UInt32) (n : UInt32) : UInt32 := (x >>> n) ||| (x <<< (32 - n))

/-- Merkle–Damgård padding with a big-endian 64-bit (or 128-bit) bit length -/
def mdPadBE (msg : ByteArray) (block : Nat) (lenBytes : Nat) : ByteArray := Id.run do
  let bitLen := msg.size * 8
  let mut m := msg.push 0x80
  while m.size % block != block - lenBytes do
    m := m.push 0
  for i in [0:lenBytes] do
    m := m.push (UInt8.ofNat ((bitLen >>> (8 * (lenBytes - 1 - i))) % 256))
  return m

def sha256Raw (msg : ByteArray) : ByteArray := Id.run do
  let m := mdPadBE msg 64 8
  let mut h : Array UInt32 := #[0x6a09e667, 0xbb67ae85, 0x3c6ef372, 0xa54ff53a, 0x510e527f, 0x9b05688c, 0x1f83d9ab, 0x5be0cd19]
  for blk in [0:m.size / 64] do
    let mut w : Array UInt32 := Array.replicate 64 0
    for t in [0:16] do
      let o := blk * 64 + t * 4
      w := w.set! t ((m[o]!.toUInt32 <<< 24) ||| (m[o+1]!.toUInt32 <<< 16) ||| (m[o+2]!.toUInt32 <<< 8) ||| m[o+3]!.toUInt32)
    for t in [16:64] do
      let w15 := w[t-15]!
      let w2 := w[t-2]!
      let s0 := rotr32 w15 7 ^^^ rotr32 w15 18 ^^^ (w15 >>> 3)
      let s1 := rotr32 w2 17 ^^^ rotr32 w2 19 ^^^ (w2 >>> 10)
      w := w.set! t (w[t-16]! + s0 + w[t-7]! + s1)
    let mut a := h[0]!
    let mut b := h[1]!
    let mut c := h[2]!
    let mut d := h[3]!
    let mut e := h[4]!
    let mut f := h[5]!
    let mut g := h[6]!
    let mut hh := h[7]!
    for t in [0:64] do
      let s1 := rotr32 e 6 ^^^ rotr32 e 11 ^^^ rotr32 e 25
      let ch := (e &&& f) ^^^ ((~~~ e) &&& g)
      let t1 := hh + s1 + ch + sha256K[t]! + w[t]!
      let s0 := rotr32 a 2 ^^^ rotr32 a 13 ^^^ rotr32 a 22
      let mj := (a &&& b) ^^^ (a &&& c) ^^^ (b &&& c)
      let t2 := s0 + mj
      hh := g; g := f; f := e; e := d + t1; d := c; c := b; b := a; a := t1 + t2
    h := #[h[0]! + a, h[1]! + b, h[2]! + c, h[3]! + d, h[4]! + e, h[5]! + f, h[6]! + g, h[7]! + hh]
  let mut out := ByteArray.empty
  for x in h do
    out := out.push (x >>> 24).toUInt8 |>.push (x >>> 16).toUInt8 |>.push (x >>> 8).toUInt8 |>.push x.toUInt8
  return out

def sha256 (b : Bytes) : Bytes := (sha256Raw (ByteArray.mk b.toArray)).toList
def sha256d (b : Bytes) : Bytes := sha256 (sha256 b)

end Btc.Prim
