import BtcModel.Wire
/-!
# Script interpreter — shared definitions (property C19)
-/
namespace Btc.Script
open Btc

/-- a script element as both interpreters see it after parsing -/
inductive Item where
  | op (n : Nat)          -- opcode number 0..255
  | push (d : Bytes)      -- data push
  deriving Repr, DecidableEq, BEq

/-- stack: bottom first, top last (like the Python list) -/
abbrev Stack := List Bytes

/-- external primitives and transaction context of an evaluation -/
structure Env where
  /-- signature check: (signature bytes incl. hash type, public key bytes) -/
  sigOk : Bytes → Bytes → Bool
  /-- the signature bytes are well-formed (strict DER + hash type byte) -/
  sigWellFormed : Bytes → Bool
  /-- the public key bytes are a valid key encoding -/
  keyWellFormed : Bytes → Bool
  ripemd160 : Bytes → Bytes
  sha1 : Bytes → Bytes
  sha256 : Bytes → Bytes
  /-- nSequence of the input, nLockTime and nVersion of the transaction -/
  sequence : Nat
  locktime : Nat
  version : Nat
  /-- bitcoinlib: `env_data['redeemscript']` if present -/
  redeemscript : Option Bytes

inductive Result where
  | accept (final : Stack)     -- evaluation succeeded; `final` = stack after the top element was consumed
  | reject                     -- evaluation failed
  | raises                     -- bitcoinlib only: an exception escapes `evaluate`
  deriving Repr, DecidableEq

/-- consensus `CastToBool`: any non-zero byte, except that a sole sign bit (negative zero) is false -/
def castToBool : Bytes → Bool
  | [] => false
  | [b] => b != 0 && b != 0x80
  | b :: rest => b != 0 || castToBool rest

def boolItem (b : Bool) : Bytes := if b then [1] else []

-- opcode numbers (checked against the generated table in the proofs)
def OP_0 := 0
def OP_1NEGATE := 79
def OP_1 := 81
def OP_16 := 96
def OP_NOP := 97
def OP_IF := 99
def OP_NOTIF := 100
def OP_ELSE := 103
def OP_ENDIF := 104
def OP_VERIFY := 105
def OP_RETURN := 106
def OP_2DROP := 109
def OP_2DUP := 110
def OP_3DUP := 111
def OP_2OVER := 112
def OP_2ROT := 113
def OP_2SWAP := 114
def OP_IFDUP := 115
def OP_DEPTH := 116
def OP_DROP := 117
def OP_DUP := 118
def OP_NIP := 119
def OP_OVER := 120
def OP_PICK := 121
def OP_ROLL := 122
def OP_ROT := 123
def OP_SWAP := 124
def OP_TUCK := 125
def OP_SIZE := 130
def OP_EQUAL := 135
def OP_EQUALVERIFY := 136
def OP_1ADD := 139
def OP_1SUB := 140
def OP_NEGATE := 143
def OP_ABS := 144
def OP_NOT := 145
def OP_0NOTEQUAL := 146
def OP_ADD := 147
def OP_SUB := 148
def OP_BOOLAND := 154
def OP_BOOLOR := 155
def OP_NUMEQUAL := 156
def OP_NUMEQUALVERIFY := 157
def OP_NUMNOTEQUAL := 158
def OP_LESSTHAN := 159
def OP_GREATERTHAN := 160
def OP_LESSTHANOREQUAL := 161
def OP_GREATERTHANOREQUAL := 162
def OP_MIN := 163
def OP_MAX := 164
def OP_WITHIN := 165
def OP_RIPEMD160 := 166
def OP_SHA1 := 167
def OP_SHA256 := 168
def OP_HASH160 := 169
def OP_HASH256 := 170
def OP_CHECKSIG := 172
def OP_CHECKSIGVERIFY := 173
def OP_CHECKMULTISIG := 174
def OP_CHECKMULTISIGVERIFY := 175
def OP_NOP1 := 176
def OP_CLTV := 177
def OP_CSV := 178
def OP_NOP4 := 179
def OP_NOP10 := 185

end Btc.Script
