import BtcModel.Script.Common
import BtcModel.Script.Spec
/-!
# bitcoinlib's `Script.evaluate` / `Stack.op_*` — the code that exists

Transcribed from `bitcoinlib/scripts.py` (after the repairs recorded in known_findings.json:
consensus truthiness, CLTV threshold, CSV raising).  Stack lists are **top first**; the Python
list is bottom first, so `self[-k]` is index `k-1` here and `self[i]`, `i ≥ 0`, is index
`len-1-i`.  Outcomes of one opcode method: `ok s` (method returned True), `no` (returned False or
raised inside the `try` — evaluation returns False), `esc` (an exception escapes `evaluate`).
-/
namespace Btc.Script

inductive Out where
  | ok (s : Stack)
  | no
  | esc
  deriving Repr, DecidableEq

/-- Python `lst[i]` / `lst.pop(i)` index resolution on a list of length `len`: top-first position -/
def pyIndex (len : Nat) (i : Int) : Option Nat :=
  let j := if i < 0 then i + len else i
  if j < 0 ∨ j ≥ len then none else some (len - 1 - j.toNat)

/-- `Stack.is_arithmetic(k)`: `none` = IndexError, `some false` = an operand longer than 4 bytes -/
def isArith (k : Nat) (s : Stack) : Option Bool :=
  if s.length < k then none else some ((s.take k).all fun x => x.length ≤ 4)

def unaryI (f : Int → Bytes) (s : Stack) : Out :=
  match isArith 1 s with
  | none => .no
  | some false => .no
  | some true => match s with
    | a :: rest => .ok (f (decodeNum a) :: rest)
    | [] => .no

/-- binary: `x = pop_as_number()` (top), `y = pop_as_number()` (second); result `f x y` -/
def binaryI (f : Int → Int → Bytes) (s : Stack) : Out :=
  match isArith 2 s with
  | none => .no
  | some false => .no
  | some true => match s with
    | a :: b :: rest => .ok (f (decodeNum a) (decodeNum b) :: rest)
    | _ => .no

def verifyI (s : Stack) : Out :=
  match s with
  | a :: rest => if castToBool a then .ok rest else .no
  | [] => .no

/-- `Signature.parse_bytes` + `verify` as used by `op_checksig`: `none` = an exception -/
def checkSigI (env : Env) (sig key : Bytes) : Option Bool :=
  if !env.sigWellFormed sig ∨ !env.keyWellFormed key then none else some (env.sigOk sig key)

/-- `Stack.op_checkmultisig`: result flag and remaining stack; `none` = exception -/
def cmsLoopI (env : Env) (sigs : List Bytes) : List Bytes → Nat → Option Nat
  | [], cnt => some cnt
  | k :: ks, cnt =>
    match sigs[cnt]? with
    | none => none                          -- signatures[sigcount] → IndexError
    | some sg =>
      match checkSigI env sg k with
      | none => none
      | some true => if cnt + 1 ≥ sigs.length then some (cnt + 1) else cmsLoopI env sigs ks (cnt + 1)
      | some false => cmsLoopI env sigs ks cnt

def popN (n : Int) (s : Stack) : Option (List Bytes × Stack) :=
  let k := n.toNat            -- range(n) is empty for n ≤ 0
  if s.length < k then none else some (s.take k, s.drop k)

def checkMultisigI (env : Env) (s : Stack) : Option (Bool × Stack) :=
  match s with
  | nk :: r1 =>
    match popN (decodeNum nk) r1 with
    | none => none
    | some (keys, r2) =>
      match r2 with
      | ms :: r3 =>
        match popN (decodeNum ms) r3 with
        | none => none
        | some (sigs, r4) =>
          let r5 := r4.drop 1           -- `if len(self): self.pop()`
          match cmsLoopI env sigs keys 0 with
          | none => none
          | some cnt => some (cnt == sigs.length, r5)
      | [] => none
  | [] => none

def lockThresholdI : Int := 500000000

/-- one opcode method (everything except IF / NOTIF, which rewrite the command list) -/
def implOp (env : Env) (n : Nat) (s : Stack) : Out :=
  if n = OP_0 then .ok ([] :: s)
  else if n = OP_1NEGATE then .ok (encodeNum (-1) :: s)
  else if OP_1 ≤ n ∧ n ≤ OP_16 then .ok (encodeNum (n - 80 : Nat) :: s)
  else if n = OP_NOP ∨ n = OP_NOP1 ∨ (OP_NOP4 ≤ n ∧ n ≤ OP_NOP10) then .ok s
  else if n = OP_VERIFY then verifyI s
  else if n = OP_RETURN then .no
  else if n = OP_2DROP then match s with | _ :: _ :: rest => .ok rest | _ => .no
  else if n = OP_2DUP then match s with | b :: a :: rest => .ok (b :: a :: b :: a :: rest) | _ => .no
  else if n = OP_3DUP then match s with | c :: b :: a :: rest => .ok (c :: b :: a :: c :: b :: a :: rest) | _ => .no
  else if n = OP_2OVER then match s with | d :: c :: b :: a :: rest => .ok (b :: a :: d :: c :: b :: a :: rest) | _ => .no
  else if n = OP_2ROT then
    match s with | f :: e :: d :: c :: b :: a :: rest => .ok (b :: a :: f :: e :: d :: c :: rest) | _ => .no
  else if n = OP_2SWAP then
    -- self[-2:-2] = [self.pop(), self.pop()]
    match s with
    | d :: c :: rest => let k := min 2 rest.length; .ok (rest.take k ++ [c, d] ++ rest.drop k)
    | _ => .no
  else if n = OP_IFDUP then match s with | a :: rest => .ok (if castToBool a then a :: a :: rest else a :: rest) | _ => .no
  else if n = OP_DEPTH then .ok (encodeNum s.length :: s)
  else if n = OP_DROP then match s with | _ :: rest => .ok rest | _ => .no
  else if n = OP_DUP then match s with | a :: rest => .ok (a :: a :: rest) | _ => .no
  else if n = OP_NIP then match s with | b :: _ :: rest => .ok (b :: rest) | _ => .no
  else if n = OP_OVER then match s with | b :: a :: rest => .ok (a :: b :: a :: rest) | _ => .no
  else if n = OP_PICK then
    -- self.append(self[-self.pop_as_number()])
    match s with
    | k :: rest => match pyIndex rest.length (-(decodeNum k)) with
      | none => .no
      | some i => match rest[i]? with | some x => .ok (x :: rest) | none => .no
    | [] => .no
  else if n = OP_ROLL then
    -- self.append(self.pop(-self.pop_as_number()))
    match s with
    | k :: rest => match pyIndex rest.length (-(decodeNum k)) with
      | none => .no
      | some i => match rest[i]? with | some x => .ok (x :: rest.eraseIdx i) | none => .no
    | [] => .no
  else if n = OP_ROT then match s with | c :: b :: a :: rest => .ok (a :: c :: b :: rest) | _ => .no
  else if n = OP_SWAP then match s with | b :: a :: rest => .ok (a :: b :: rest) | _ => .no
  else if n = OP_TUCK then match s with | b :: a :: rest => .ok (a :: b :: a :: rest) | _ => .no   -- append(self[-2])
  else if n = OP_SIZE then match s with | a :: rest => .ok (encodeNum a.length :: a :: rest) | _ => .no
  else if n = OP_EQUAL then match s with | b :: a :: rest => .ok (boolItem (b == a) :: rest) | _ => .no
  else if n = OP_EQUALVERIFY then match s with | b :: a :: rest => verifyI (boolItem (b == a) :: rest) | _ => .no
  else if n = OP_1ADD then unaryI (fun x => encodeNum (x + 1)) s
  else if n = OP_1SUB then unaryI (fun x => encodeNum (x - 1)) s
  else if n = OP_NEGATE then unaryI (fun x => encodeNum (-x)) s
  else if n = OP_ABS then unaryI (fun x => encodeNum (if x < 0 then -x else x)) s
  else if n = OP_NOT then unaryI (fun x => boolItem (x = 0)) s
  else if n = OP_0NOTEQUAL then unaryI (fun x => boolItem (x ≠ 0)) s
  else if n = OP_ADD then binaryI (fun x y => encodeNum (x + y)) s
  else if n = OP_SUB then binaryI (fun x y => encodeNum (x - y)) s                    -- top − second
  else if n = OP_BOOLAND then binaryI (fun x y => boolItem (x ≠ 0 ∧ y ≠ 0)) s
  else if n = OP_BOOLOR then binaryI (fun x y => boolItem (x ≠ 0 ∨ y ≠ 0)) s
  else if n = OP_NUMEQUAL then binaryI (fun x y => boolItem (x = y)) s
  else if n = OP_NUMEQUALVERIFY then
    -- self.op_numequal() (result ignored) ; return self.op_verify()
    match isArith 2 s with
    | none => .no
    | some false => verifyI s
    | some true => match binaryI (fun x y => boolItem (x = y)) s with
      | .ok s' => verifyI s'
      | o => o
  else if n = OP_NUMNOTEQUAL then binaryI (fun x y => boolItem (x ≠ y)) s
  else if n = OP_MIN then binaryI (fun x y => encodeNum (if x < y then x else y)) s
  else if n = OP_MAX then binaryI (fun x y => encodeNum (if x > y then x else y)) s
  else if n = OP_WITHIN then
    -- x = top, vmin = second, vmax = third
    match isArith 3 s with
    | none => .no
    | some false => .no
    | some true => match s with
      | x :: mn :: mx :: rest =>
        .ok (boolItem (decodeNum mn ≤ decodeNum x ∧ decodeNum x < decodeNum mx) :: rest)
      | _ => .no
  else if n = OP_RIPEMD160 then match s with | a :: rest => .ok (env.ripemd160 a :: rest) | _ => .no
  else if n = OP_SHA1 then match s with | a :: rest => .ok (env.sha1 a :: rest) | _ => .no
  else if n = OP_SHA256 then match s with | a :: rest => .ok (env.sha256 a :: rest) | _ => .no
  else if n = OP_HASH160 then match s with | a :: rest => .ok (env.ripemd160 (env.sha256 a) :: rest) | _ => .no
  else if n = OP_HASH256 then match s with | a :: rest => .ok (env.sha256 (env.sha256 a) :: rest) | _ => .no
  else if n = OP_CHECKSIG ∨ n = OP_CHECKSIGVERIFY then
    match s with
    | key :: sig :: rest =>
      match checkSigI env sig key with
      | none => .no
      | some ok => if n = OP_CHECKSIG then .ok (boolItem ok :: rest) else verifyI (boolItem ok :: rest)
    | _ => .no
  else if n = OP_CHECKMULTISIG ∨ n = OP_CHECKMULTISIGVERIFY then
    -- both: checkmultisig, op_verify, then append env_data['redeemscript'] (KeyError inside try when absent)
    match checkMultisigI env s with
    | none => .no
    | some (ok, rest) =>
      match verifyI (boolItem ok :: rest) with
      | .ok s' => match env.redeemscript with
        | some rs => .ok (rs :: s')
        | none => .no
      | o => o
  else if n = OP_CLTV then
    if env.locktime = 0 then .no
    else if env.sequence = 0xffffffff then .no
    else match s with
      | a :: _ =>
        let lt := decodeNum a
        if lt < 0 then .no
        else if (lt < lockThresholdI ∧ lockThresholdI ≤ env.locktime) ∨ (lt ≥ lockThresholdI ∧ lockThresholdI > env.locktime) then .no
        else if (env.locktime : Int) < lt then .no
        else .ok s
      | [] => .no
  else if n = OP_CSV then .no            -- raises NotImplementedError inside the try
  else .esc                              -- no `op_*` method of that name (or no name at all)

/-- `Stack.op_if`'s forward scan: (true branch, false branch, rest) or `none` when no matching ENDIF -/
def scanIf : List Item → Nat → Bool → List Item → List Item → Option (List Item × List Item × List Item)
  | [], _, _, _, _ => none
  | it :: rest, depth, inElse, t, f =>
    let add := fun (x : Item) => if inElse then (t, f ++ [x]) else (t ++ [x], f)
    match it with
    | .op n =>
      if n = OP_IF ∨ n = OP_NOTIF then let (t', f') := add it; scanIf rest (depth + 1) inElse t' f'
      else if depth = 1 ∧ n = OP_ELSE then scanIf rest depth true t f
      else if n = OP_ENDIF then
        if depth = 1 then some (t, f, rest)
        else let (t', f') := add it; scanIf rest (depth - 1) inElse t' f'
      else let (t', f') := add it; scanIf rest depth inElse t' f'
    | .push _ => let (t', f') := add it; scanIf rest depth inElse t' f'

/-- the `while len(commands)` loop of `Script.evaluate` -/
def loopImpl (env : Env) : Nat → List Item → Stack → Result
  | 0, _, _ => .reject
  | _ + 1, [], s =>
    match s with
    | top :: rest => if castToBool top then .accept rest else .reject
    | [] => .reject
  | fuel + 1, it :: cmds, s =>
    match it with
    | .push d => loopImpl env fuel cmds (d :: s)
    | .op n =>
      if n = OP_IF ∨ n = OP_NOTIF then
        -- NOTIF first replaces the top element by its negation (IndexError escapes on an empty stack)
        let s1 : Option Stack :=
          if n = OP_NOTIF then
            match s with
            | a :: rest => some ((if decodeNum a = 0 then [1] else [0]) :: rest)
            | [] => none
          else some s
        match s1 with
        | none => .raises
        | some s1 =>
          match scanIf cmds 1 false [] [] with
          | none => .reject
          | some (t, f, rest) =>
            match s1 with
            | a :: s2 => loopImpl env fuel ((if decodeNum a = 0 then f else t) ++ rest) s2
            | [] => .raises
      else
        match implOp env n s with
        | .ok s' => loopImpl env fuel cmds s'
        | .no => .reject
        | .esc => .raises

def evalImpl (env : Env) (prog : List Item) : Result := loopImpl env (prog.length + 1) prog []

end Btc.Script
