import BtcModel.Script.Common
/-!
# Consensus script evaluation (`EvalScript`) for the opcodes bitcoinlib implements

Stack lists are **top first** (head = top of stack).  `none` = script failure.
Transcribed from Bitcoin Core `script/interpreter.cpp` (legacy rules: no MINIMALDATA, no
NULLDUMMY, BIP65/BIP112/BIP66 active).  Size limits (520-byte elements, 201 opcodes, 1000 stack
items) are not modelled; generated programs stay far below them.
-/
namespace Btc.Script

structure St where
  stack : Stack      -- top first
  exec : List Bool   -- innermost first
  deriving Repr, DecidableEq

def num4 (b : Bytes) : Option Int := if b.length ≤ 4 then some (decodeNum b) else none
def num5 (b : Bytes) : Option Int := if b.length ≤ 5 then some (decodeNum b) else none

def numItem (z : Int) : Bytes := encodeNum z

/-- unary arithmetic -/
def unary (f : Int → Int) : Stack → Option Stack
  | a :: rest => (num4 a).map fun x => numItem (f x) :: rest
  | _ => none

/-- binary arithmetic: stack `… a b` (b on top) ↦ f a b -/
def binary (f : Int → Int → Bytes) : Stack → Option Stack
  | b :: a :: rest => do
    let x ← num4 a
    let y ← num4 b
    pure (f x y :: rest)
  | _ => none

/-- CHECKMULTISIG matching: signatures and keys top first (= reverse script order) -/
def cmsMatch (env : Env) : List Bytes → List Bytes → Option Bool
  | [], _ => some true
  | _ :: _, [] => some false
  | s :: ss, k :: ks =>
    if (s :: ss).length > (k :: ks).length then some false
    else if !s.isEmpty ∧ !env.sigWellFormed s then none      -- BIP66: malformed signature fails the script
    else if env.sigOk s k then cmsMatch env ss ks else cmsMatch env (s :: ss) ks

def checkSigSpec (env : Env) (sig key : Bytes) : Option Bool :=
  if !sig.isEmpty ∧ !env.sigWellFormed sig then none else some (env.sigOk sig key)

def lockThreshold : Int := 500000000

/-- execution of one executed (non-flow) opcode on the stack; `none` = failure -/
def execOp (env : Env) (n : Nat) (s : Stack) : Option Stack :=
  if n = OP_0 then some ([] :: s)
  else if n = OP_1NEGATE then some (numItem (-1) :: s)
  else if OP_1 ≤ n ∧ n ≤ OP_16 then some (numItem (n - 80 : Nat) :: s)
  else if n = OP_NOP ∨ n = OP_NOP1 ∨ (OP_NOP4 ≤ n ∧ n ≤ OP_NOP10) then some s
  else if n = OP_VERIFY then
    match s with
    | a :: rest => if castToBool a then some rest else none
    | _ => none
  else if n = OP_RETURN then none
  else if n = OP_2DROP then match s with | _ :: _ :: rest => some rest | _ => none
  else if n = OP_2DUP then match s with | b :: a :: rest => some (b :: a :: b :: a :: rest) | _ => none
  else if n = OP_3DUP then match s with | c :: b :: a :: rest => some (c :: b :: a :: c :: b :: a :: rest) | _ => none
  else if n = OP_2OVER then match s with | d :: c :: b :: a :: rest => some (b :: a :: d :: c :: b :: a :: rest) | _ => none
  else if n = OP_2ROT then
    match s with | f :: e :: d :: c :: b :: a :: rest => some (b :: a :: f :: e :: d :: c :: rest) | _ => none
  else if n = OP_2SWAP then match s with | d :: c :: b :: a :: rest => some (b :: a :: d :: c :: rest) | _ => none
  else if n = OP_IFDUP then match s with | a :: rest => some (if castToBool a then a :: a :: rest else a :: rest) | _ => none
  else if n = OP_DEPTH then some (numItem s.length :: s)
  else if n = OP_DROP then match s with | _ :: rest => some rest | _ => none
  else if n = OP_DUP then match s with | a :: rest => some (a :: a :: rest) | _ => none
  else if n = OP_NIP then match s with | b :: _ :: rest => some (b :: rest) | _ => none
  else if n = OP_OVER then match s with | b :: a :: rest => some (a :: b :: a :: rest) | _ => none
  else if n = OP_PICK ∨ n = OP_ROLL then
    match s with
    | k :: rest =>
      match num4 k with
      | none => none
      | some z =>
        if z < 0 ∨ z ≥ rest.length then none else
          let i := z.toNat
          match rest[i]? with
          | none => none
          | some x => if n = OP_PICK then some (x :: rest) else some (x :: rest.eraseIdx i)
    | _ => none
  else if n = OP_ROT then match s with | c :: b :: a :: rest => some (a :: c :: b :: rest) | _ => none
  else if n = OP_SWAP then match s with | b :: a :: rest => some (a :: b :: rest) | _ => none
  else if n = OP_TUCK then match s with | b :: a :: rest => some (b :: a :: b :: rest) | _ => none
  else if n = OP_SIZE then match s with | a :: rest => some (numItem a.length :: a :: rest) | _ => none
  else if n = OP_EQUAL then match s with | b :: a :: rest => some (boolItem (a == b) :: rest) | _ => none
  else if n = OP_EQUALVERIFY then match s with | b :: a :: rest => if a == b then some rest else none | _ => none
  else if n = OP_1ADD then unary (· + 1) s
  else if n = OP_1SUB then unary (· - 1) s
  else if n = OP_NEGATE then unary (fun x => -x) s
  else if n = OP_ABS then unary (fun x => if x < 0 then -x else x) s
  else if n = OP_NOT then unary (fun x => if x = 0 then 1 else 0) s
  else if n = OP_0NOTEQUAL then unary (fun x => if x ≠ 0 then 1 else 0) s
  else if n = OP_ADD then binary (fun a b => numItem (a + b)) s
  else if n = OP_SUB then binary (fun a b => numItem (a - b)) s
  else if n = OP_BOOLAND then binary (fun a b => boolItem (a ≠ 0 ∧ b ≠ 0)) s
  else if n = OP_BOOLOR then binary (fun a b => boolItem (a ≠ 0 ∨ b ≠ 0)) s
  else if n = OP_NUMEQUAL then binary (fun a b => boolItem (a = b)) s
  else if n = OP_NUMEQUALVERIFY then
    match binary (fun a b => boolItem (a = b)) s with
    | some (r :: rest) => if castToBool r then some rest else none
    | _ => none
  else if n = OP_NUMNOTEQUAL then binary (fun a b => boolItem (a ≠ b)) s
  else if n = OP_LESSTHAN then binary (fun a b => boolItem (a < b)) s
  else if n = OP_GREATERTHAN then binary (fun a b => boolItem (a > b)) s
  else if n = OP_LESSTHANOREQUAL then binary (fun a b => boolItem (a ≤ b)) s
  else if n = OP_GREATERTHANOREQUAL then binary (fun a b => boolItem (a ≥ b)) s
  else if n = OP_MIN then binary (fun a b => numItem (if a < b then a else b)) s
  else if n = OP_MAX then binary (fun a b => numItem (if a > b then a else b)) s
  else if n = OP_WITHIN then
    match s with
    | mx :: mn :: x :: rest => do
      let a ← num4 x
      let lo ← num4 mn
      let hi ← num4 mx
      pure (boolItem (lo ≤ a ∧ a < hi) :: rest)
    | _ => none
  else if n = OP_RIPEMD160 then match s with | a :: rest => some (env.ripemd160 a :: rest) | _ => none
  else if n = OP_SHA1 then match s with | a :: rest => some (env.sha1 a :: rest) | _ => none
  else if n = OP_SHA256 then match s with | a :: rest => some (env.sha256 a :: rest) | _ => none
  else if n = OP_HASH160 then match s with | a :: rest => some (env.ripemd160 (env.sha256 a) :: rest) | _ => none
  else if n = OP_HASH256 then match s with | a :: rest => some (env.sha256 (env.sha256 a) :: rest) | _ => none
  else if n = OP_CHECKSIG ∨ n = OP_CHECKSIGVERIFY then
    match s with
    | key :: sig :: rest =>
      match checkSigSpec env sig key with
      | none => none
      | some ok =>
        if n = OP_CHECKSIG then some (boolItem ok :: rest) else (if ok then some rest else none)
    | _ => none
  else if n = OP_CHECKMULTISIG ∨ n = OP_CHECKMULTISIGVERIFY then
    match s with
    | nk :: rest =>
      match num4 nk with
      | none => none
      | some nkeys =>
        if nkeys < 0 ∨ nkeys > 20 ∨ rest.length < nkeys.toNat + 1 then none else
        let keys := rest.take nkeys.toNat
        match rest.drop nkeys.toNat with
        | ns :: rest2 =>
          match num4 ns with
          | none => none
          | some nsigs =>
            if nsigs < 0 ∨ nsigs > nkeys ∨ rest2.length < nsigs.toNat + 1 then none else
            let sigs := rest2.take nsigs.toNat
            let rest3 := (rest2.drop nsigs.toNat).drop 1        -- the extra (dummy) element
            match cmsMatch env sigs keys with
            | none => none
            | some ok =>
              if n = OP_CHECKMULTISIG then some (boolItem ok :: rest3) else (if ok then some rest3 else none)
        | _ => none
    | _ => none
  else if n = OP_CLTV then
    match s with
    | a :: _ =>
      match num5 a with
      | none => none
      | some lt =>
        if lt < 0 then none
        else if !((env.locktime < lockThreshold ∧ lt < lockThreshold) ∨ ((env.locktime : Int) ≥ lockThreshold ∧ lt ≥ lockThreshold)) then none
        else if lt > env.locktime then none
        else if env.sequence = 0xffffffff then none
        else some s
    | _ => none
  else if n = OP_CSV then
    match s with
    | a :: _ =>
      match num5 a with
      | none => none
      | some sq =>
        if sq < 0 then none
        else if sq.toNat / 2^31 % 2 = 1 then some s           -- disable flag: behaves as NOP
        else if env.version < 2 then none
        else if env.sequence / 2^31 % 2 = 1 then none
        else
          let mask := fun (x : Nat) => x % 2^16 + (x / 2^22 % 2) * 2^22
          let typ := fun (x : Nat) => x / 2^22 % 2
          if typ sq.toNat ≠ typ env.sequence then none
          else if mask sq.toNat > mask env.sequence then none
          else some s
    | _ => none
  else none        -- not in the implemented set

def isFlow (n : Nat) : Bool := n = OP_IF || n = OP_NOTIF || n = OP_ELSE || n = OP_ENDIF

/-- one script element -/
def stepSpec (env : Env) (st : St) (it : Item) : Option St :=
  let executing := st.exec.all id
  match it with
  | .push d => if executing then some { st with stack := d :: st.stack } else some st
  | .op n =>
    if n = OP_IF ∨ n = OP_NOTIF then
      if executing then
        match st.stack with
        | a :: rest =>
          let v := castToBool a
          some { stack := rest, exec := (if n = OP_NOTIF then !v else v) :: st.exec }
        | [] => none
      else some { st with exec := false :: st.exec }
    else if n = OP_ELSE then
      match st.exec with
      | e :: rest => some { st with exec := (!e) :: rest }
      | [] => none
    else if n = OP_ENDIF then
      match st.exec with
      | _ :: rest => some { st with exec := rest }
      | [] => none
    else if executing then (execOp env n st.stack).map fun s => { st with stack := s }
    else some st

def runSpec (env : Env) : St → List Item → Option St
  | st, [] => some st
  | st, it :: rest => match stepSpec env st it with
    | none => none
    | some st' => runSpec env st' rest

/-- consensus verdict for a script run on an empty stack -/
def evalSpec (env : Env) (prog : List Item) : Result :=
  match runSpec env ⟨[], []⟩ prog with
  | none => .reject
  | some st =>
    if !st.exec.isEmpty then .reject           -- unbalanced conditional
    else match st.stack with
      | top :: rest => if castToBool top then .accept rest else .reject
      | [] => .reject

end Btc.Script
