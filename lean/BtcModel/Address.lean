import BtcModel.Bytes
/-!
# Standard destinations and their locking scripts (property C05)
-/
namespace Btc

inductive Dest where
  | p2pkh (h : Bytes)
  | p2sh (h : Bytes)
  | witness (v : Nat) (prog : Bytes)
  deriving Repr, DecidableEq

def Dest.WF : Dest → Prop
  | .p2pkh h => h.length = 20
  | .p2sh h => h.length = 20
  | .witness v prog => v ≤ 16 ∧ 2 ≤ prog.length ∧ prog.length ≤ 40 ∧ (v = 0 → prog.length = 20 ∨ prog.length = 32)

instance : DecidablePred Dest.WF := fun d => by
  cases d <;> simp only [Dest.WF] <;> exact inferInstance

/-- witness version opcode: OP_0 = 0x00, OP_1..OP_16 = 0x51..0x60 -/
def witnessOp (v : Nat) : Byte := if v = 0 then 0 else UInt8.ofNat (0x50 + v)

/-- the standard locking script of a destination -/
def lockScript : Dest → Bytes
  | .p2pkh h => [0x76, 0xa9, 0x14] ++ h ++ [0x88, 0xac]
  | .p2sh h => [0xa9, 0x14] ++ h ++ [0x87]
  | .witness v prog => [witnessOp v, UInt8.ofNat prog.length] ++ prog

/-- witness version of a version opcode -/
def witnessVersion (op : Byte) : Option Nat :=
  if op.toNat = 0 then some 0 else if 0x51 ≤ op.toNat ∧ op.toNat ≤ 0x60 then some (op.toNat - 0x50) else none

/-- recognise a standard locking script (consensus `IsPayToScriptHash`, `IsWitnessProgram`, and the P2PKH template) -/
def classifyScript (s : Bytes) : Option Dest :=
  if s.length = 25 ∧ s.take 3 = [0x76, 0xa9, 0x14] ∧ s.drop 23 = [0x88, 0xac] then some (.p2pkh ((s.drop 3).take 20))
  else if s.length = 23 ∧ s.take 2 = [0xa9, 0x14] ∧ s.drop 22 = [0x87] then some (.p2sh ((s.drop 2).take 20))
  else match s with
    | op :: len :: prog =>
      match witnessVersion op with
      | none => none
      | some v =>
        if len.toNat = prog.length ∧ 2 ≤ prog.length ∧ prog.length ≤ 40 ∧ (v = 0 → prog.length = 20 ∨ prog.length = 32)
        then some (.witness v prog) else none
    | _ => none

end Btc
