import BtcModel.Bytes
/-!
# Key validity logic (property C04)

Decision logic of public-key decoding, parameterised by the square-root routine (the executable
instance is `Prim.sqrtP`) so that the theorems hold for whatever routine is plugged in: the
result is always *validated* against the curve equation.
-/
namespace Btc

def curveP : Nat := 0xFFFFFFFFFFFFFFFFFFFFFFFFFFFFFFFFFFFFFFFFFFFFFFFFFFFFFFFEFFFFFC2F
def curveN : Nat := 0xFFFFFFFFFFFFFFFFFFFFFFFFFFFFFFFEBAAEDCE6AF48A03BBFD25E8CD0364141

/-- y² = x³ + 7 over F_p -/
def onCurveP (p x y : Nat) : Bool := x < p && y < p && (y * y) % p == (x * x % p * x + 7) % p

/-- a private key is a scalar in [1, n-1] -/
def secretOk (d : Nat) : Bool := 1 ≤ d && d < curveN

/-- the root whose parity matches the prefix -/
def pickRoot (p r : Nat) (odd : Bool) : Nat := if (r % 2 == 1) == odd then r else p - r

/-- final validation: the candidate must satisfy the curve equation and the stated parity -/
def acceptPoint (p x y : Nat) (odd : Bool) : Option (Nat × Nat) :=
  if onCurveP p x y && ((y % 2 == 1) == odd) then some (x, y) else none

/-- decompress: pick the root of x³+7 whose parity matches the prefix; the candidate returned by
`sqrt` is checked, so a wrong routine can only cause rejections, never a point off the curve -/
def decompressWith (sqrt : Nat → Option Nat) (p : Nat) (odd : Bool) (x : Nat) : Option (Nat × Nat) :=
  if x ≥ p then none else
  match sqrt ((x * x % p * x + 7) % p) with
  | none => none
  | some r => acceptPoint p x (pickRoot p r odd) odd

/-- SEC1 public key decoding with all validity checks -/
def decodePubWith (sqrt : Nat → Option Nat) (p : Nat) (b : Bytes) : Option (Nat × Nat) :=
  match b with
  | [] => none
  | pre :: rest =>
    if (pre == 2 || pre == 3) && rest.length == 32 then decompressWith sqrt p (pre == 3) (beVal rest)
    else if pre == 4 && rest.length == 64 then
      let x := beVal (rest.take 32)
      let y := beVal (rest.drop 32)
      if onCurveP p x y then some (x, y) else none
    else none

def serC (q : Nat × Nat) : Bytes := (if q.2 % 2 = 0 then 2 else 3) :: beBytes q.1 32
def serU (q : Nat × Nat) : Bytes := 4 :: (beBytes q.1 32 ++ beBytes q.2 32)

end Btc
