import BtcModel.Base58
import BtcModel.Gen.Networks
/-!
# Key export / import formats (property C12): WIF and BIP32 extended keys over Base58Check
-/
namespace Btc

/-- WIF: version ‖ 32-byte secret ‖ [01 if compressed], Base58Check -/
def wifEnc (H : Bytes → Bytes) (ver : Bytes) (secret : Nat) (compressed : Bool) : List Char :=
  b58checkEnc H (ver ++ beBytes secret 32 ++ (if compressed then [1] else []))

/-- WIF decoding: compression is decided by the payload *length* (33 vs 34 bytes) -/
def wifDec (H : Bytes → Bytes) (s : List Char) : Option (Bytes × Nat × Bool) :=
  match b58checkDec H s with
  | none => none
  | some p =>
    if p.length = 33 then some (p.take 1, beVal (p.drop 1), false)
    else if p.length = 34 ∧ p.getLast? = some 1 then some (p.take 1, beVal ((p.drop 1).take 32), true)
    else none

/-- WIF decoding as found in the pinned tree (finding F21): "compressed" iff the last payload byte
is 01, whatever the length -/
def wifDecLastByte (H : Bytes → Bytes) (s : List Char) : Option (Bytes × Nat × Bool) :=
  match b58checkDec H s with
  | none => none
  | some p =>
    if p.getLast? = some 1 then some (p.take 1, beVal ((p.drop 1).dropLast), true)
    else some (p.take 1, beVal (p.drop 1), false)

structure XKeyData where
  version : Nat
  depth : Nat
  parentFp : Bytes
  childNum : Nat
  chain : Bytes
  keyData : Bytes      -- 33 bytes: 00 ‖ secret, or the compressed public key
  deriving Repr, DecidableEq

def XKeyData.WF (k : XKeyData) : Prop :=
  k.version < 2^32 ∧ k.depth < 256 ∧ k.parentFp.length = 4 ∧ k.childNum < 2^32 ∧ k.chain.length = 32 ∧ k.keyData.length = 33

def xkeyPayload (k : XKeyData) : Bytes :=
  beBytes k.version 4 ++ beBytes k.depth 1 ++ k.parentFp ++ beBytes k.childNum 4 ++ k.chain ++ k.keyData

def xkeyEnc (H : Bytes → Bytes) (k : XKeyData) : List Char := b58checkEnc H (xkeyPayload k)

def xkeyOfPayload (p : Bytes) : Option XKeyData :=
  if p.length ≠ 78 then none else
    some ⟨beVal (p.take 4), beVal ((p.drop 4).take 1), (p.drop 5).take 4, beVal ((p.drop 9).take 4),
          (p.drop 13).take 32, p.drop 45⟩

def xkeyDec (H : Bytes → Bytes) (s : List Char) : Option XKeyData :=
  (b58checkDec H s).bind xkeyOfPayload

/-- all (network, entry) pairs of the generated table with this version -/
def versionEntries (ver : Nat) : List (String × Gen.WifPrefix) :=
  Gen.networks.flatMap fun n => (n.wifs.filter (·.version == ver)).map fun w => (n.name, w)

/-- the version a network uses for (private?, witness type, multisig): first matching entry -/
def versionFor (net : String) (isPrivate : Bool) (witnessType : String) (multisig : Bool) : Option Nat :=
  match Gen.networks.find? (·.name == net) with
  | none => none
  | some n => (n.wifs.find? fun w => w.isPrivate == isPrivate && w.witnessType == witnessType && w.multisig == multisig).map (·.version)

/-- is the key field of the kind the version bytes announce: 00 ‖ secret under private versions, a compressed public key (02 / 03 ‖ x)
under public ones -/
def keyFieldOk (isPrivate : Bool) (keyData : Bytes) : Bool :=
  if isPrivate then keyData.headD 1 == 0 else (keyData.headD 0 == 2 || keyData.headD 0 == 3)

/-- extended-key import: Base58Check, 78-byte payload, version bytes of the table, key field of the announced kind -/
def xkeyImport (H : Bytes → Bytes) (s : List Char) : Option XKeyData :=
  match xkeyDec H s with
  | none => none
  | some k =>
    let ents := versionEntries k.version
    if ents.isEmpty then none
    else if ents.all (fun e => keyFieldOk e.2.isPrivate k.keyData) then some k
    else none

end Btc
