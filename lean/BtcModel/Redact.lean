/-!
# Private material in key objects (property C16): a slot / taint model

A key object is a set of attribute *slots*.  Each slot is either clean or currently holds data
derived from the secret.  Method calls fill caches; `public()` copies the object and clears a
fixed set of slots.  The harness measures, per attribute, whether any encoding of the secret is
reachable from it after a call history, and compares with `run`.
-/
namespace Btc

inductive Slot where
  | secret | privateHex | privateByte | wifCache | wifPrefix | addressObj | publicHex | hash160 | xy
  deriving Repr, DecidableEq

inductive KOp where
  | wif            -- Key.wif / HDKey.wif_key: fills the `_wif` cache with the private WIF
  | address        -- fills `_address_obj` (public data)
  | hash160        -- fills `_hash160` (public data)
  | asDictPrivate  -- as_dict(include_private=True): calls wif() → fills the cache
  | asDictPublic
  | info           -- prints; calls wif() for private keys → fills the cache
  | publicPoint
  deriving Repr, DecidableEq

/-- slots that hold secret-derived data -/
abbrev Tainted := List Slot

def initPrivate : Tainted := [.secret, .privateHex, .privateByte]

/-- `hd`: the object is an `HDKey` (its `as_dict(include_private=True)` exports the *extended* key and
does not touch the `_wif` cache; `Key.as_dict` calls `wif()`) -/
def stepK (hd : Bool) (t : Tainted) : KOp → Tainted
  | .wif | .info => if t.contains .secret then (if t.contains .wifCache then t else .wifCache :: t) else t
  | .asDictPrivate => if hd then t else if t.contains .secret then (if t.contains .wifCache then t else .wifCache :: t) else t
  | .address | .hash160 | .asDictPublic | .publicPoint => t

def runK (hd : Bool) (t : Tainted) (h : List KOp) : Tainted := h.foldl (stepK hd) t

/-- slots cleared by `Key.public()` / `HDKey.public()` (after the repair of F12) -/
def clearedByPublic : List Slot := [.secret, .privateHex, .privateByte, .wifCache, .wifPrefix]

/-- as found in the pinned tree: the `_wif` cache survived -/
def clearedByPublicF12 : List Slot := [.secret, .privateHex, .privateByte]

def publicView (cleared : List Slot) (t : Tainted) : Tainted := t.filter fun s => !cleared.contains s

end Btc
