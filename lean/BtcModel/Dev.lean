/-!
# Deviation flags

One Boolean per *listed* finding (`/verif/known_findings.json`).  `Impl` definitions take a
`Dev`; `Dev.none` (all false) is the repaired behaviour and is proved equal to `Spec`.
A flag is switched on by the harness only for findings whose state is `known`.
-/
namespace Btc

structure Dev where
  /-- F01: `int_to_varbyteint` uses `<` at 0xffff / 0xffffffff -/
  varintLt : Bool := false
  /-- F02: `varstr(b'\0')` returns `00` -/
  varstrZero : Bool := false
  deriving Repr, DecidableEq

def Dev.none : Dev := {}

def Dev.ofNames (names : List String) : Dev :=
  { varintLt := names.contains "varintLt"
    varstrZero := names.contains "varstrZero" }

end Btc
