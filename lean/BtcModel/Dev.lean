/-!
# Deviation flags

One Boolean per *listed* finding (`/verif/known_findings.json`).  `Impl` definitions take a
`Dev`; `Dev.none` (all false) is the repaired behaviour and is proved equal to `Spec`.
A flag is switched on by the harness only for findings whose state is `known`.
-/
namespace Btc

structure Dev where
  /-- F01: `int_to_varbyteint` uses `<` at 0xffff / 0xffffffff -/
  varintLt : Bool := false
  /-- F02: `varstr(b'\0')` returns `00` -/
  varstrZero : Bool := false
  /-- F10: low-S threshold computed with float division (= 2^255) -/
  lowsFloat : Bool := false
  /-- F05: base58 address decode left-pads to 25 bytes -/
  b58Pad : Bool := false
  deriving Repr, DecidableEq

def Dev.none : Dev := {}

def Dev.ofNames (names : List String) : Dev :=
  { varintLt := names.contains "varintLt"
    varstrZero := names.contains "varstrZero"
    lowsFloat := names.contains "lowsFloat"
    b58Pad := names.contains "b58Pad" }

end Btc
