import BtcModel.Bytes
import BtcModel.Prim.Sha512
import BtcModel.Prim.Ripemd160
import BtcModel.Prim.Secp256k1
/-!
# BIP32 (property C03) — executable reference derivation over the reference primitives

An independent implementation of BIP32: `CKDpriv`, `CKDpub`, neutering, path parsing with all
hardened-marker spellings.  The algebraic statement (public and private derivation commute at
every split point) is proved over an abstract group in `BtcProofs/Properties/C03.lean`.
-/
namespace Btc
open Btc.Prim

structure XKey where
  isPriv : Bool
  /-- secret scalar (private) -/
  secret : Nat
  /-- public point -/
  pub : Nat × Nat
  chain : Bytes
  depth : Nat
  parentFp : Bytes
  childNum : Nat
  deriving Repr

def XKey.pubBytes (k : XKey) : Bytes := encodePubC k.pub
def XKey.fingerprint (k : XKey) : Bytes := (hash160 k.pubBytes).take 4

def masterFromSeed (seed : Bytes) : Option XKey :=
  let i := hmacSha512 "Bitcoin seed".toUTF8.toList seed
  let il := beVal (i.take 32)
  if il = 0 ∨ il ≥ secpN then none else
  match smulG il with
  | none => none
  | some p => some ⟨true, il, p, i.drop 32, 0, [0, 0, 0, 0], 0⟩

/-- BIP32 CKDpriv; `idx` is the full 32-bit child number (hardened iff ≥ 2^31) -/
def ckdPriv (k : XKey) (idx : Nat) : Option XKey :=
  if !k.isPriv ∨ idx ≥ 2^32 then none else
  let data := if idx ≥ 2^31 then 0 :: beBytes k.secret 32 ++ beBytes idx 4 else k.pubBytes ++ beBytes idx 4
  let i := hmacSha512 k.chain data
  let il := beVal (i.take 32)
  if il ≥ secpN then none else
  let s := (il + k.secret) % secpN
  if s = 0 then none else
  match smulG s with
  | none => none
  | some p => some ⟨true, s, p, i.drop 32, k.depth + 1, k.fingerprint, idx⟩

/-- BIP32 CKDpub; fails for hardened child numbers -/
def ckdPub (k : XKey) (idx : Nat) : Option XKey :=
  if idx ≥ 2^31 then none else
  let i := hmacSha512 k.chain (k.pubBytes ++ beBytes idx 4)
  let il := beVal (i.take 32)
  if il ≥ secpN then none else
  match ptAdd (smulG il) (some k.pub) with
  | none => none
  | some p => some ⟨false, 0, p, i.drop 32, k.depth + 1, k.fingerprint, idx⟩

def XKey.neuter (k : XKey) : XKey := { k with isPriv := false, secret := 0 }

/-- one path element: decimal digits with an optional hardened marker `' h H p P` -/
def parsePathItem (s : String) : Option Nat :=
  let cs := s.toList
  match cs.getLast? with
  | none => none
  | some c =>
    let hard := c ∈ ['\'', 'h', 'H', 'p', 'P']
    let ds := if hard then cs.dropLast else cs
    if ds.isEmpty ∨ !(ds.all Char.isDigit) then none else
    let n := ds.foldl (fun a d => a * 10 + (d.toNat - 48)) 0
    if hard then (if n < 2^31 then some (n + 2^31) else none) else (if n < 2^32 then some n else none)

/-- derive along a path; `m/...` private derivation, `M/...` public derivation from the neutered key;
a public key can only derive non-hardened children -/
def derivePath (k : XKey) (path : List String) : Option XKey :=
  let (k0, items) := match path with
    | "m" :: rest => (k, rest)
    | "M" :: rest => (k.neuter, rest)
    | rest => (k, rest)
  items.foldlM (fun key item => do
    let idx ← parsePathItem item
    if key.isPriv then ckdPriv key idx else ckdPub key idx) k0

end Btc
