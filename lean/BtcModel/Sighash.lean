import BtcModel.Tx
/-!
# Signature hash preimages (property C01)

`legacyPreimage` — Bitcoin Core `SignatureHash` for `SigVersion::BASE` (without
`FindAndDelete`/`OP_CODESEPARATOR` handling, which the library never produces);
`bip143Preimage` — BIP143, all hash types.  The digest is `sha256d` of the preimage.
-/
namespace Btc

def SIGHASH_ALL : Nat := 1
def SIGHASH_NONE : Nat := 2
def SIGHASH_SINGLE : Nat := 3
def SIGHASH_ANYONECANPAY : Nat := 0x80

/-- consensus legacy preimage; `none` for the SIGHASH_SINGLE out-of-range case (digest is the
constant `1`) and for an input index out of range -/
def legacyPreimage (t : Tx) (i : Nat) (scriptCode : Bytes) (ht : Nat) : Option Bytes :=
  if i ≥ t.ins.length then none else
  let base := ht % 32
  let acp := ht / 128 % 2 = 1
  if base = SIGHASH_SINGLE ∧ i ≥ t.outs.length then none else
  let insIdx := (List.range t.ins.length).zip t.ins
  let serI := fun (p : Nat × TxIn) =>
    let (j, inp) := p
    let sc := if j = i then scriptCode else []
    let seq := if j ≠ i ∧ (base = SIGHASH_NONE ∨ base = SIGHASH_SINGLE) then 0 else inp.sequence
    inp.prevTxid ++ leBytes inp.vout 4 ++ serVarBytes sc ++ leBytes seq 4
  let insSer := if acp then csE 1 ++ (insIdx.filter (fun p => p.1 = i)).flatMap serI
                else csE t.ins.length ++ insIdx.flatMap serI
  let outsSer :=
    if base = SIGHASH_NONE then csE 0
    else if base = SIGHASH_SINGLE then
      csE (i + 1) ++ ((List.range (i + 1)).zip t.outs).flatMap (fun p =>
        if p.1 = i then serOut p.2 else leBytes (2^64 - 1) 8 ++ csE 0)
    else csE t.outs.length ++ t.outs.flatMap serOut
  some (leBytes t.version 4 ++ insSer ++ outsSer ++ leBytes t.locktime 4 ++ leBytes ht 4)

/-- BIP143 preimage given the three inner hashes' function `H` (double SHA-256) -/
def bip143Preimage (H : Bytes → Bytes) (t : Tx) (i : Nat) (scriptCode : Bytes) (amount : Nat) (ht : Nat) :
    Option Bytes :=
  match t.ins[i]? with
  | none => none
  | some inp =>
    let base := ht % 32
    let acp := ht / 128 % 2 = 1
    let zero : Bytes := List.replicate 32 0
    let hashPrevouts := if acp then zero else H (t.ins.flatMap fun x => x.prevTxid ++ leBytes x.vout 4)
    let hashSequence := if acp ∨ base = SIGHASH_SINGLE ∨ base = SIGHASH_NONE then zero
                        else H (t.ins.flatMap fun x => leBytes x.sequence 4)
    let hashOutputs :=
      if base ≠ SIGHASH_SINGLE ∧ base ≠ SIGHASH_NONE then H (t.outs.flatMap serOut)
      else if base = SIGHASH_SINGLE then
        match t.outs[i]? with
        | some o => H (serOut o)
        | none => zero
      else zero
    some (leBytes t.version 4 ++ hashPrevouts ++ hashSequence ++ inp.prevTxid ++ leBytes inp.vout 4 ++
          serVarBytes scriptCode ++ leBytes amount 8 ++ leBytes inp.sequence 4 ++ hashOutputs ++
          leBytes t.locktime 4 ++ leBytes ht 4)

end Btc
