/-!
# Bytes — byte strings, little/big endian integers, hex

Core Lean only (no Mathlib): this library is linked into the native `btcdriver`.
-/

abbrev Byte := UInt8
abbrev Bytes := List Byte

namespace Btc

/-- `n.to_bytes(k, 'little')` without the overflow check (callers guard the range). -/
def leBytes (n : Nat) : Nat → Bytes
  | 0 => []
  | k+1 => UInt8.ofNat (n % 256) :: leBytes (n / 256) k

/-- `int.from_bytes(b, 'little')` -/
def leVal : Bytes → Nat
  | [] => 0
  | b :: bs => b.toNat + 256 * leVal bs

/-- `n.to_bytes(k, 'big')` without the overflow check. -/
def beBytes (n k : Nat) : Bytes := (leBytes n k).reverse

/-- `int.from_bytes(b, 'big')` -/
def beVal (b : Bytes) : Nat := leVal b.reverse

/-- minimal little-endian bytes of `n` (empty for 0) -/
def leBytesMin (n : Nat) : Bytes :=
  if h : n = 0 then [] else UInt8.ofNat (n % 256) :: leBytesMin (n / 256)
termination_by n
decreasing_by omega

def hexDigit (n : Nat) : Char :=
  if n < 10 then Char.ofNat (48 + n) else Char.ofNat (87 + n)

def hexOfByte (b : Byte) : List Char := [hexDigit (b.toNat / 16), hexDigit (b.toNat % 16)]

def toHex (b : Bytes) : String := String.ofList (b.flatMap hexOfByte)

def hexVal (c : Char) : Option Nat :=
  if '0' ≤ c ∧ c ≤ '9' then some (c.toNat - 48)
  else if 'a' ≤ c ∧ c ≤ 'f' then some (c.toNat - 87)
  else if 'A' ≤ c ∧ c ≤ 'F' then some (c.toNat - 55)
  else none

def ofHexChars : List Char → Option Bytes
  | [] => some []
  | [_] => none
  | a :: b :: rest => do
    let x ← hexVal a
    let y ← hexVal b
    let r ← ofHexChars rest
    pure (UInt8.ofNat (16 * x + y) :: r)

/-- hex → bytes; `-` denotes the empty string in the line protocol -/
def ofHex (s : String) : Option Bytes :=
  if s = "-" then some [] else ofHexChars s.toList

/-- bytes → hex with `-` for empty (line protocol) -/
def toHexP (b : Bytes) : String := if b.isEmpty then "-" else toHex b

end Btc
