import BtcModel.Sighash
import BtcModel.Ecdsa
import BtcModel.KeyLogic
import BtcModel.Prim.Sha256
import BtcModel.Prim.Ripemd160
import BtcModel.Prim.Secp256k1
import BtcModel.Driver.Common
/-! An independent consensus-style verifier for standard inputs (C02, C10): parses the raw
transaction, extracts signatures and keys by template, recomputes the digest and checks
m-of-n ECDSA matching and the script-hash commitments to the previous output. -/
namespace Btc.Driver
open Btc Btc.Prim

def pushesOf (script : Bytes) : Option (List Bytes) :=
  match tokenize script with
  | none => none
  | some cs => cs.mapM fun c => match c with
    | Cmd.data d => some d
    | Cmd.op b => if b.toNat = 0 then some [] else none

/-- `OP_m <keys> OP_n OP_CHECKMULTISIG` → (m, keys) -/
def parseMultisig (w : Bytes) : Option (Nat × List Bytes) :=
  match tokenize w with
  | none => none
  | some cs =>
    match cs with
    | Cmd.op mop :: rest =>
      let keys := rest.filterMap fun c => match c with | Cmd.data d => some d | _ => none
      match rest.drop keys.length with
      | [Cmd.op nop, Cmd.op cms] =>
        let m := mop.toNat - 0x50
        let n := nop.toNat - 0x50
        if 0x51 ≤ mop.toNat ∧ mop.toNat ≤ 0x60 ∧ cms.toNat = 0xae ∧ n = keys.length ∧ m ≤ n ∧ (rest.take keys.length).all (fun c => match c with | Cmd.data _ => true | _ => false)
        then some (m, keys) else none
      | _ => none
    | _ => none

def sigValid (t : Tx) (i : Nat) (scriptCode : Bytes) (amount : Nat) (segwit : Bool) (sig key : Bytes) : Bool :=
  match sig.getLast?, decodePubWith sqrtP curveP key with
  | some ht, some q =>
    match derDecode sig.dropLast with
    | none => false
    | some (r, s) =>
      let digest := if segwit then (bip143Preimage sha256d t i scriptCode amount ht.toNat).map sha256d
                    else match legacyPreimage t i scriptCode ht.toNat with
                      | some p => some (sha256d p)
                      | none => some (1 :: List.replicate 31 0)
      match digest with
      | some d => ecdsaVerify q (beVal d) r s
      | none => false
  | _, _ => false

def matchSigs (valid : Bytes → Bytes → Bool) : List Bytes → List Bytes → Bool
  | [], _ => true
  | _ :: _, [] => false
  | s :: ss, k :: ks => if valid s k then matchSigs valid ss ks else matchSigs valid (s :: ss) ks

def p2pkhCode (h : Bytes) : Bytes := [0x76, 0xa9, 0x14] ++ h ++ [0x88, 0xac]

/-- verdict for input `i` spending an output with script `spk` and value `amount` -/
def verifyInput (t : Tx) (i : Nat) (spk : Bytes) (amount : Nat) : Bool :=
  match t.ins[i]? with
  | none => false
  | some inp =>
    let wit : List Bytes := ((t.witness.getD [])[i]?).getD []
    let multisigCheck (script : Bytes) (stack : List Bytes) (segwit : Bool) : Bool :=
      -- stack = [dummy, sig..., script]
      match parseMultisig script with
      | none => false
      | some (m, keys) =>
        match stack with
        | _dummy :: rest =>
          let sigs := rest.dropLast
          sigs.length = m && matchSigs (sigValid t i script amount segwit) sigs keys
        | [] => false
    match spk with
    | 0x76 :: 0xa9 :: 0x14 :: rest =>
      if rest.length = 22 ∧ rest.drop 20 = [0x88, 0xac] ∧ wit.isEmpty then
        match pushesOf inp.scriptSig with
        | some [sig, pub] => hash160 pub == rest.take 20 && sigValid t i spk amount false sig pub
        | _ => false
      else false
    | 0xa9 :: 0x14 :: rest =>
      if rest.length = 21 ∧ rest.drop 20 = [0x87] then
        match pushesOf inp.scriptSig with
        | none => false
        | some pushes =>
          match pushes.getLast? with
          | none => false
          | some redeem =>
            if hash160 redeem != rest.take 20 then false
            else match redeem with
              | 0x00 :: 0x14 :: h20 =>
                if h20.length = 20 ∧ pushes.length = 1 then
                  match wit with
                  | [sig, pub] => hash160 pub == h20 && sigValid t i (p2pkhCode h20) amount true sig pub
                  | _ => false
                else false
              | 0x00 :: 0x20 :: h32 =>
                if h32.length = 32 ∧ pushes.length = 1 then
                  match wit.getLast? with
                  | some w => sha256 w == h32 && multisigCheck w wit true
                  | none => false
                else false
              | _ => wit.isEmpty && multisigCheck redeem pushes false
      else false
    | 0x00 :: 0x14 :: h20 =>
      if h20.length = 20 ∧ inp.scriptSig.isEmpty then
        match wit with
        | [sig, pub] => hash160 pub == h20 && sigValid t i (p2pkhCode h20) amount true sig pub
        | _ => false
      else false
    | 0x00 :: 0x20 :: h32 =>
      if h32.length = 32 ∧ inp.scriptSig.isEmpty then
        match wit.getLast? with
        | some w => sha256 w == h32 && multisigCheck w wit true
        | none => false
      else false
    | _ =>
      -- P2PK: <pub> OP_CHECKSIG
      match tokenize spk with
      | some [Cmd.data pub, Cmd.op 0xac] =>
        match pushesOf inp.scriptSig with
        | some [sig] => wit.isEmpty && sigValid t i spk amount false sig pub
        | _ => false
      | _ => false

def handleVerify (_D : Dev) : List String → Option String
  | ["verify_tx", rawhex, prevouts] => do
    -- prevouts: spkhex:amount;spkhex:amount;...
    let raw ← ofHex rawhex
    let pos ← (prevouts.splitOn ";").mapM fun p => match p.splitOn ":" with
      | [s, a] => do let sc ← ofHex s; let am ← a.toNat?; pure (sc, am)
      | _ => none
    let r := match parseTx raw with
      | none => "unparsable"
      | some (t, rest) =>
        if !rest.isEmpty ∨ pos.length ≠ t.ins.length then "unparsable" else
        let vs := (List.range t.ins.length).zip pos |>.map fun (i, (spk, am)) => verifyInput t i spk am
        (if vs.all id then "valid" else "invalid") ++ " " ++ ",".intercalate (vs.map fun b => if b then "1" else "0")
    pure (two r r)
  | _ => none

end Btc.Driver
