import BtcModel.Amount
import BtcModel.Driver.Common
namespace Btc.Driver
open Btc

def handleAmount (_D : Dev) : List String → Option String
  | ["amt_roundtrip", n] => do
    let n ← n.toNat?
    pure (two (toString n) (toString (valueSatF (fromSatoshiF n))))
  | ["amt_parse", s] => do
    let sp := match parseToSatoshiSpec s with | some z => toString z | none => "none"
    let im := match parseToSatoshiF s with | some z => toString z | none => "none"
    pure (two sp im)
  | ["amt_fmt", n, e, k] => do
    let n ← n.toNat?
    let e ← e.toInt?
    let k ← k.toNat?
    pure (two (fmtSpec n e k) (fmtF n e k))
  | ["amt_lit"] =>
    -- the written-out literal of C17 `lit1em8_close` next to what the binary64 model computes for 1e-08
    some (two s!"{lit1em8.num}/{lit1em8.den}" s!"{(fDen (-8)).num}/{(fDen (-8)).den}")
  | ["f64", a] => do
    -- nearest double of a decimal string, as exact numerator/denominator (self-test of the model against CPython)
    let q ← parseDecimal a
    let r := roundF64 q
    pure (two s!"{r.num}/{r.den}" s!"{r.num}/{r.den}")
  | _ => none

end Btc.Driver
