import BtcModel.DbCrypt
import BtcModel.Prim.Sha256
import BtcModel.Driver.Common
namespace Btc.Driver
open Btc Btc.Prim

/-- stand-in cipher of the driver: injective in key and payload, strictly longer than the payload;
`markDec` accepts exactly what `markEnc` produced under the same key (an authenticated cipher) -/
def markEnc (k p : Bytes) : Bytes := UInt8.ofNat k.length :: (k ++ p)

def markDec (k c : Bytes) : Option Bytes :=
  match c with
  | [] => none
  | n :: rest => if n.toNat = k.length ∧ rest.take k.length = k then some (rest.drop k.length) else none

def envOfStr (s : String) : Option (Option Bytes) :=
  if s = "unset" then some none else (ofHex s).map some

def pyValOf (kind hex : String) : Option PyVal :=
  if kind = "none" then some .none
  else if kind = "bytes" then (ofHex hex).map .bytes
  else if kind = "str" then (ofHex hex).map .str
  else none

def showVal : PyVal → String
  | .none => "none"
  | .bytes b => "bytes:" ++ toHexP b
  | .str s => "str:" ++ toHexP s

def cfgOf (en key pw : String) : Option CryptCfg := do
  pure { enabled := en = "1", keyEnv := ← envOfStr key, pwEnv := ← envOfStr pw }

/-- `dbc_bind <enabled> <key|unset> <password|unset> <bin|str> <none|bytes|str> <hex>`:
what the column type hands to the database: the value itself or the cipher's output under which key;
`dbc_result ... <bin|str> <writer key|plain> <kind> <hex>`: what comes back for a stored value that
is the plain value or its ciphertext under the writer's key -/
def handleDbCrypt (_D : Dev) : List String → Option String
  | ["dbc_bind", en, key, pw, col, kind, hex] => do
    let c ← cfgOf en key pw
    let v ← pyValOf kind hex
    let r := if col = "bin" then binBind sha256d markEnc c v else strBind sha256d markEnc c v
    let s := match r with
      | .raises => "raises"
      | .cipherErr => "ciphererr"
      | .val r => if r = v then "plain " ++ showVal r
        else match selKey sha256d c with
          | some k => if r = .bytes (markEnc k v.payload) then s!"cipher key={toHexP k} payload={toHexP v.payload}" else "other"
          | none => "other"
    let s := s ++ s!" warns={warns c}"
    pure (two s s)
  | ["dbc_result", en, key, pw, col, wkey, kind, hex] => do
    let c ← cfgOf en key pw
    let v ← pyValOf kind hex
    let stored ← if wkey = "plain" then some v else (ofHex wkey).map fun k => PyVal.bytes (markEnc k v.payload)
    let r := if col = "bin" then binResult sha256d markDec c stored else strResult sha256d markDec c stored
    let s := match r with
      | .val x => "val " ++ (if x = stored then "stored" else showVal x)
      | .raises => "raises"
      | .cipherErr => "ciphererr"
    pure (two s s)
  | _ => none

end Btc.Driver
