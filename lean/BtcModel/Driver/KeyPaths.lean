import BtcModel.Wallet.KeyPaths
import BtcModel.Driver.Common
namespace Btc.Driver
open Btc Btc.KeyPaths

def showPath (p : Path) : String := "/".intercalate (p.map fun e => toString e.idx ++ (if e.hard then "'" else ""))

def parseChain : List String → Option Chain
  | [wt, coin, acct, change, cos] => do
    pure { witnessType := wt, coinType := ← coin.toNat?, account := ← acct.toNat?, change := ← change.toNat?, cosigner := ← cos.toNat? }
  | _ => none

def parseKpOp (s : String) : Option Op :=
  match s.splitOn "." with
  | ["new", wt, coin, acct, change, cos, n] => do pure (Op.newKeys (← parseChain [wt, coin, acct, change, cos]) (← n.toNat?))
  | ["get", wt, coin, acct, change, cos, n] => do pure (Op.getKeys (← parseChain [wt, coin, acct, change, cos]) (← n.toNat?))
  | ["used", id] => id.toNat?.map Op.markUsed
  | ["at", wt, coin, acct, change, cos, i] => do pure (Op.keyForIndex (← parseChain [wt, coin, acct, change, cos]) (← i.toNat?))
  | _ => none

def showRows (rs : List KeyRow) : String :=
  if rs.isEmpty then "-" else ",".intercalate (rs.map fun r => s!"{r.id}:{r.index}:{showPath r.path}")

/-- the rows an operation hands out -/
def handedOut (st : St) : Op → St × String
  | .newKeys c n => match newKeys st c n with
    | some (st', rs) => (st', showRows rs)
    | none => (st, "none")
  | .getKeys c n => match getKeys st c n with
    | some (st', rs) => (st', showRows rs)
    | none => (st, "none")
  | .markUsed id => (markUsed st id, "-")
  | .keyForIndex c i => match keyForIndex st c i with
    | some (st', r) => (st', showRows [r])
    | none => (st, "none")

def parseElem (s : String) : Option Elem :=
  let cs := s.toList
  match cs.getLast? with
  | some c =>
    if c == '\'' || c == 'h' || c == 'H' || c == 'p' || c == 'P' then
      (String.ofList cs.dropLast).toNat?.map fun n => { idx := n, hard := true }
    else s.toNat?.map fun n => { idx := n, hard := false }
  | none => none

def handleKeyPaths (_D : Dev) : List String → Option String
  | ["keypaths", ms, hist] => do
    let ops ← (hist.splitOn ";").mapM parseKpOp
    let (_, outs) := ops.foldl (fun (acc : St × List String) op =>
      let r := handedOut acc.1 op
      (r.1, acc.2 ++ [r.2])) (init (ms == "1"), [])
    let s := ";".intercalate outs
    pure (two s s)
  | ["kp_expand", wt, ms, purpose, coin, acct, cos, change, idx, given] => do
    let g ← if given = "-" then some [] else (given.splitOn ",").mapM parseElem
    let coin ← coin.toNat?
    let acct ← acct.toNat?
    let cos ← cos.toNat?
    let change ← change.toNat?
    let idx ← idx.toNat?
    let r := match structureFor wt (ms == "1") with
      | none => "none"
      | some k =>
        let p := match purpose.toNat? with | some p => p | none => k.purpose.getD 0
        let v : Vars := { purpose := p, coinType := coin, account := acct, scriptType := scriptTypeId wt,
                          cosigner := cos, change := change, addressIndex := idx }
        match expandWith k.keyPath v g with
        | some path => showPath path
        | none => "none"
    pure (two r r)
  | _ => none

end Btc.Driver
