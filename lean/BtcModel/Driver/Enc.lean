import BtcModel.Base58
import BtcModel.Bech32
import BtcModel.Prim.Sha256
import BtcModel.Driver.Common
import BtcModel.Gen.Networks
namespace Btc.Driver
open Btc Btc.Prim

def strOrNone : Option (List Char) → String
  | some s => String.ofList s
  | none => "none"

/-- `Address.parse` at Spec level: Base58Check with a 21-byte payload whose version byte is an
address prefix of some network in the generated table, else a segwit address whose HRP is known. -/
def addressDec (s : List Char) : Option ((Bytes × Bytes) ⊕ (List Char × Nat × Bytes)) :=
  let known (ver : Bytes) := Gen.networks.any fun n => n.prefixAddress == ver || n.prefixP2sh == ver
  match b58checkDec sha256d s with
  | some p =>
    if p.length = 21 ∧ known (p.take 1) then some (.inl (p.take 1, p.drop 1)) else none
  | none =>
    match segwitDec s with
    | some (hrp, v, prog) =>
      if Gen.networks.any fun n => n.bech32.toList == hrp then some (.inr (hrp, v, prog)) else none
    | none => none

def handleEnc (_D : Dev) : List String → Option String
  | ["b58enc", h] => do
    let b ← ofHex h
    let s := String.ofList (b58enc b)
    pure (two s s)
  | ["b58dec", s] => do
    let r := optHex (b58dec s.toList)
    pure (two r r)
  | ["cb58", s, lower, minLen] => do
    -- model of change_base(s, 58, 256, min_length) with/without the lower-case fallback
    let m ← minLen.toNat?
    let r := optHex (changeBase58 (lower == "1") s.toList m)
    pure (two r r)
  | ["b58check", s] => do
    let r := optHex (b58checkDec sha256d s.toList)
    pure (two r r)
  | ["addr58", s] => do
    let r := match b58checkDec sha256d s.toList with
      | some p => if p.length = 21 then toHex (p.take 1) ++ " " ++ toHex (p.drop 1) else "none"
      | none => "none"
    pure (two r r)
  | ["addr58pkh", s] => do
    let r := match b58checkDec sha256d s.toList with
      | some p => if p.length = 21 then toHex (p.drop 1) else "none"
      | none => "none"
    pure (two r r)
  | ["address", s] => do
    -- high level: Address.parse — checksum, length, and a version / HRP known to the network table
    let r := match addressDec s.toList with
      | some (.inl (ver, pkh)) => "base58 " ++ toHex ver ++ " " ++ toHex pkh
      | some (.inr (hrp, v, prog)) => "bech32 " ++ String.ofList hrp ++ " " ++ toString v ++ " " ++ toHex prog
      | none => "none"
    pure (two r r)
  | ["segwit_dec", s] => do
    let r := match segwitDec s.toList with
      | some (hrp, v, prog) => String.ofList hrp ++ " " ++ toString v ++ " " ++ toHex prog
      | none => "none"
    pure (two r r)
  | ["segwit_enc", hrp, v, h] => do
    let v ← v.toNat?
    let b ← ofHex h
    let r := String.ofList (segwitEnc hrp.toList v b)
    pure (two r r)
  | ["convertbits", frm, to, pad, vals] => do
    let frm ← frm.toNat?
    let to ← to.toNat?
    let vs ← if vals = "-" then some [] else (vals.splitOn ",").mapM String.toNat?
    let fmt (l : List Nat) : String := if l.isEmpty then "-" else ",".intercalate (l.map toString)
    let r := if pad = "1" then fmt (convertBitsPad frm to vs)
             else match convertBitsNoPad frm to vs with
               | some l => fmt l
               | none => "none"
    pure (two r r)
  | _ => none

end Btc.Driver
