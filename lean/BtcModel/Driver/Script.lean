import BtcModel.Script.Spec
import BtcModel.Script.Impl
import BtcModel.Ecdsa
import BtcModel.KeyLogic
import BtcModel.Prim.Sha256
import BtcModel.Prim.Ripemd160
import BtcModel.Prim.Secp256k1
import BtcModel.Driver.Common
namespace Btc.Driver
open Btc Btc.Prim Btc.Script

def itemOfStr (s : String) : Option Item :=
  match s.toList with
  | 'o' :: r => (String.ofList r).toNat?.map Item.op
  | 'd' :: r => (ofHexChars r).map Item.push
  | _ => none

def itemsOfStr (s : String) : Option (List Item) :=
  if s = "-" then some [] else (s.splitOn ",").mapM itemOfStr

def resultStr : Result → String
  | .accept st => "accept " ++ (if st.isEmpty then "-" else ",".intercalate (st.reverse.map toHexP))   -- bottom first
  | .reject => "reject"
  | .raises => "raises"

/-- opcodes whose library behaviour is a listed deviation from consensus (static presence) -/
def devNames : List (Nat × String) := [
  (OP_SUB, "sub"), (OP_2SWAP, "2swap"), (OP_TUCK, "tuck"), (OP_PICK, "pick"), (OP_ROLL, "roll"), (OP_WITHIN, "within"),
  (OP_LESSTHAN, "lessthan"), (OP_GREATERTHAN, "lessthan"), (OP_LESSTHANOREQUAL, "lessthan"), (OP_GREATERTHANOREQUAL, "lessthan"),
  (OP_NUMEQUALVERIFY, "numequalverify"), (OP_CHECKSIG, "checksig"), (OP_CHECKSIGVERIFY, "checksig"),
  (OP_CHECKMULTISIG, "checkmultisig"), (OP_CHECKMULTISIGVERIFY, "checkmultisig"), (OP_CLTV, "cltv"), (OP_CSV, "csv"),
  (OP_IF, "flow"), (OP_NOTIF, "flow"), (OP_ELSE, "flow"), (OP_ENDIF, "flow")]

def mkEnv (seq lt ver : Nat) (redeem : Option Bytes) (msg : Bytes) : Env :=
  let wf (sig : Bytes) : Bool := sig.length ≥ 9 && (derDecode sig.dropLast).isSome
  let kwf (k : Bytes) : Bool := (decodePubWith sqrtP curveP k).isSome
  { sigOk := fun sig key =>
      match derDecode sig.dropLast, decodePubWith sqrtP curveP key with
      | some (r, s), some q => wf sig && ecdsaVerify q (beVal msg) r s
      | _, _ => false
    sigWellFormed := wf, keyWellFormed := kwf,
    ripemd160 := Prim.ripemd160, sha1 := Prim.sha1, sha256 := Prim.sha256,
    sequence := seq, locktime := lt, version := ver, redeemscript := redeem }

def handleScript (_D : Dev) : List String → Option String
  | ["eval", items, seq, lt, ver, redeem, msg] => do
    let prog ← itemsOfStr items
    let seq ← seq.toNat?
    let lt ← lt.toNat?
    let ver ← ver.toNat?
    let rd ← if redeem = "none" then some none else (ofHex redeem).map some
    let msg ← ofHex msg
    let env := mkEnv seq lt ver rd msg
    let sp := evalSpec env prog
    let im := evalImpl env prog
    let devs := (prog.filterMap fun it => match it with
      | .op n => (devNames.find? (·.1 == n)).map (·.2)
      | _ => none).eraseDups
    let unsupported := prog.any fun it => match it with
      | .op n => (execOp env n [] == none) && (execOp env n [[1],[1],[1],[1],[1],[1]] == none) && !isFlow n && n != OP_RETURN
      | _ => false
    pure (resultStr sp ++ " | " ++ resultStr im ++ " | devops=" ++ ",".intercalate devs ++ " unsupported=" ++ toString unsupported)
  | _ => none

end Btc.Driver
