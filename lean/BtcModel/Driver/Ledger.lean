import BtcModel.Wallet.Ledger
import BtcModel.Driver.Common
namespace Btc.Driver
open Btc Btc.Ledger

def natList (s : String) (sep : String) : Option (List Nat) := (s.splitOn sep).mapM (·.toNat?)

def parseIn (s : String) : Option (Nat × Nat × Nat) :=
  match natList s "-" with
  | some [a, b, c] => some (a, b, c)
  | _ => none

def parseOut (s : String) : Option (Nat × Option Nat) :=
  match s.splitOn "-" with
  | [v, "x"] => v.toNat?.map fun v => (v, none)
  | [v, k] => do let v ← v.toNat?; let k ← k.toNat?; pure (v, some k)
  | _ => none

def parseLedgerOp (s : String) : Option Op :=
  match s.splitOn "." with
  | ["key", k] => k.toNat?.map Op.newKey
  | ["add", k, v, t, n, c] => do
    pure (Op.utxoAdd (← k.toNat?) (← v.toNat?) (← t.toNat?) (← n.toNat?) (← c.toNat?))
  | ["send", t, ins, outs] => do
    let ins ← if ins = "" then some [] else (ins.splitOn ",").mapM parseIn
    let outs ← if outs = "" then some [] else (outs.splitOn ",").mapM parseOut
    pure (Op.send (← t.toNat?) { ins := ins, outs := outs })
  | ["del", t] => t.toNat?.map Op.delete
  | ["reopen"] => some Op.reopen
  | ["bal"] => some Op.balance
  | _ => none

def showState (st : St) (status : Status) : String :=
  let us := (unspent st).map fun o => (o.txid, o.n, o.value)
  let us := us.mergeSort fun a b => a.1 < b.1 || (a.1 == b.1 && a.2.1 ≤ b.2.1)
  let u := ",".intercalate (us.map fun p => s!"{p.1}-{p.2.1}-{p.2.2}")
  let kb := (st.keyBal.filter fun p => p.2 != 0).mergeSort fun a b => a.1 ≤ b.1
  let k := ",".intercalate (kb.map fun p => s!"{p.1}-{p.2}")
  let s := match status with | .ok => "ok" | .refused => "refused"
  s!"{s}/{total st}/{u}/{k}"

def showBody : Option TxBody → String
  | none => "none"
  | some b => ",".intercalate (b.ins.map fun i => s!"{i.1}-{i.2.1}-{i.2.2}") ++ "/" ++
      ",".intercalate (b.outs.map fun o => match o.2 with | some k => s!"{o.1}-{k}" | none => s!"{o.1}-x")

def handleLedger (_D : Dev) : List String → Option String
  | ["ledger", hist] => do
    let ops ← (hist.splitOn ";").mapM parseLedgerOp
    let (_, outs) := ops.foldl (fun (acc : St × List String) op =>
      let r := step acc.1 op
      (r.1, acc.2 ++ [showState r.1 r.2])) (init, [])
    let s := ";".intercalate outs
    pure (two s s)
  | ["ledger_tx", hist, t] => do
    -- what `Wallet.transaction(txid)` reloads after the history
    let ops ← (hist.splitOn ";").mapM parseLedgerOp
    let s := showBody (lookupTx (run init ops) (← t.toNat?))
    pure (two s s)
  | _ => none

end Btc.Driver
