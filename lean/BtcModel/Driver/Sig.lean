import BtcModel.Sighash
import BtcModel.Prim.Sha256
import BtcModel.Prim.Secp256k1
import BtcModel.Driver.Common
namespace Btc.Driver
open Btc Btc.Prim

/-- strict DER signature decode (BIP66): r, s -/
def derDecode (b : Bytes) : Option (Nat × Nat) :=
  match b with
  | 0x30 :: len :: 0x02 :: rlen :: rest =>
    let rl := rlen.toNat
    if rest.length < rl + 2 then none else
    let rb := rest.take rl
    match rest.drop rl with
    | 0x02 :: slen :: rest2 =>
      let sl := slen.toNat
      if rest2.length ≠ sl then none
      else if len.toNat ≠ b.length - 2 then none
      else if rl = 0 ∨ sl = 0 then none
      else if rb.headD 0 ≥ 0x80 ∨ rest2.headD 0 ≥ 0x80 then none
      else if (rl > 1 ∧ rb.headD 0 = 0 ∧ (rb.drop 1).headD 0 < 0x80) then none
      else if (sl > 1 ∧ rest2.headD 0 = 0 ∧ (rest2.drop 1).headD 0 < 0x80) then none
      else some (beVal rb, beVal rest2)
    | _ => none
  | _ => none

def handleSig (_D : Dev) : List String → Option String
  | ["sighash", rawhex, i, sc, amount, ht, kind] => do
    -- consensus digest of input i, computed from the harness's own serialisation of the unsigned transaction
    let raw ← ofHex rawhex
    let i ← i.toNat?
    let sc ← ofHex sc
    let amount ← amount.toNat?
    let ht ← ht.toNat?
    let r := match parseTx raw with
      | none => "none"
      | some (t, _) =>
        let pre := if kind = "legacy" then legacyPreimage t i sc ht else bip143Preimage sha256d t i sc amount ht
        match pre with
        | some p => toHex (sha256d p)
        | none => if kind = "legacy" then "0100000000000000000000000000000000000000000000000000000000000000" else "none"
    pure (two r r)
  | ["ecdsa_verify", pub, digest, der] => do
    -- independent secp256k1 ECDSA verification of a strict-DER signature
    let pub ← ofHex pub
    let z ← ofHex digest
    let der ← ofHex der
    let r := match decodePub pub, derDecode der with
      | some q, some (r, s) => toString (ecdsaVerify q (beVal z) r s) ++ (if s ≤ secpN / 2 then " lows" else " highs")
      | none, _ => "badkey"
      | _, none => "badder"
    pure (two r r)
  | _ => none

end Btc.Driver
