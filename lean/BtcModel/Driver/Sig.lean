import BtcModel.Sighash
import BtcModel.Ecdsa
import BtcModel.Prim.Sha256
import BtcModel.Prim.Secp256k1
import BtcModel.Driver.Common
namespace Btc.Driver
open Btc Btc.Prim

def handleSig (_D : Dev) : List String → Option String
  | ["sighash", rawhex, i, sc, amount, ht, kind] => do
    -- consensus digest of input i, computed from the harness's own serialisation of the unsigned transaction
    let raw ← ofHex rawhex
    let i ← i.toNat?
    let sc ← ofHex sc
    let amount ← amount.toNat?
    let ht ← ht.toNat?
    let r := match parseTx raw with
      | none => "none"
      | some (t, _) =>
        let pre := if kind = "legacy" then legacyPreimage t i sc ht else bip143Preimage sha256d t i sc amount ht
        match pre with
        | some p => toHex (sha256d p)
        | none => if kind = "legacy" then "0100000000000000000000000000000000000000000000000000000000000000" else "none"
    pure (two r r)
  | ["ecdsa_verify", pub, digest, der] => do
    -- independent secp256k1 ECDSA verification of a strict-DER signature
    let pub ← ofHex pub
    let z ← ofHex digest
    let der ← ofHex der
    let r := match decodePub pub, derDecode der with
      | some q, some (r, s) => toString (ecdsaVerify q (beVal z) r s) ++ (if s ≤ secpN / 2 then " lows" else " highs")
      | none, _ => "badkey"
      | _, none => "badder"
    pure (two r r)
  | ["ecdsa_sign", d, zhex, k] => do
    -- deterministic signature as the library must produce it: nonce = RFC6979(sha256(ascii-hex(z))) as
    -- fastecdsa derives it when k = 0, low-S normalised, strict DER
    let d ← d.toNat?
    let z ← ofHex zhex
    let k ← k.toNat?
    let kk := if k = 0 then rfc6979 d (sha256 (toHex z).toUTF8.toList) else k
    let r := match ecdsaSignK d (beVal z) kk with
      | none => "none"
      | some (r, s) =>
        let s' := if s > secpN / 2 then secpN - s else s
        s!"{r} {s'} {toHex (derEncode r s')} {kk}"
    pure (two r r)
  | ["ecdsa_verify_rs", pub, zhex, r, s] => do
    let pub ← ofHex pub
    let z ← ofHex zhex
    let r ← r.toNat?
    let s ← s.toNat?
    let res := match decodePub pub with
      | some q => toString (ecdsaVerify q (beVal z) r s)
      | none => "false"
    pure (two res res)
  | ["der_enc", r, s] => do
    let r ← r.toNat?
    let s ← s.toNat?
    let e := toHex (derEncode r s)
    pure (two e e)
  | ["der_dec", h] => do
    let b ← ofHex h
    let r := match derDecode b with
      | some (r, s) => s!"{r} {s}"
      | none => "none"
    pure (two r r)
  | ["pubkey", d] => do
    let d ← d.toNat?
    let r := match smulG d with
      | some p => toHex (encodePubC p) ++ " " ++ toHex (encodePubU p)
      | none => "none"
    pure (two r r)
  | _ => none

end Btc.Driver
