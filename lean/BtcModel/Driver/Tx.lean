import BtcModel.Tx
import BtcModel.TxStrict
import BtcModel.Block
import BtcModel.Prim.Sha256
import BtcModel.Prim.Ripemd160
import BtcModel.Driver.Common
namespace Btc.Driver
open Btc Btc.Prim

def dumpTx (t : Tx) : String :=
  let ins := ";".intercalate (t.ins.map fun i => s!"{toHex i.prevTxid}:{i.vout}:{toHexP i.scriptSig}:{i.sequence}")
  let outs := ";".intercalate (t.outs.map fun o => s!"{o.value}:{toHexP o.script}")
  let wit := match t.witness with
    | none => "none"
    | some ws => ";".intercalate (ws.map fun (st : List Bytes) => if st.isEmpty then "_" else ",".intercalate (st.map toHexP))
  s!"v={t.version} lt={t.locktime} in=[{ins}] out=[{outs}] wit=[{wit}]"

def sigLike (b : Bytes) : Bool := b.headD 0 == 0x30 && 9 ≤ b.length && b.length ≤ 73
def keyLike (b : Bytes) : Bool :=
  ((b.headD 0 == 2 || b.headD 0 == 3) && b.length == 33) || (b.headD 0 == 4 && b.length == 65)

/-- `OP_m <n keys> OP_n OP_CHECKMULTISIG` with 1 ≤ m ≤ n ≤ 16: returns m -/
def stdMultisigM (w : Bytes) : Option Nat :=
  match w with
  | mop :: rest =>
    let rec keys (fuel : Nat) (bs : Bytes) (cnt : Nat) : Option (Nat × Bytes) :=
      match fuel, bs with
      | 0, _ => none
      | f+1, 0x21 :: r => if r.length ≥ 33 && keyLike (r.take 33) then keys f (r.drop 33) (cnt + 1) else none
      | f+1, 0x41 :: r => if r.length ≥ 65 && keyLike (r.take 65) then keys f (r.drop 65) (cnt + 1) else none
      | _, r => some (cnt, r)
    match keys 20 rest 0 with
    | some (n, [nop, 0xae]) =>
      let m := mop.toNat - 0x50
      if 0x51 ≤ mop.toNat && mop.toNat ≤ 0x60 && nop.toNat == 0x50 + n && 1 ≤ n && n ≤ 16 && m ≤ n then some m else none
    | _ => none
  | [] => none

/-- witness stacks the library re-creates faithfully: empty, [sig, key], or [empty, m sigs, m-of-n script] -/
def stdStack (st : List Bytes) : Bool :=
  match st with
  | [] => true
  | [a, b] => sigLike a && keyLike b
  | d :: rest =>
    match rest.getLast? with
    | some w =>
      match stdMultisigM w with
      | some m => d.isEmpty && rest.length == m + 1 && (rest.take m).all sigLike
      | none => false
    | none => false

def handleTx (_D : Dev) : List String → Option String
  | ["tx_parse", h] => do
    let b ← ofHex h
    let r := match parseTx b with
      | none => "none"
      | some (t, rest) =>
        let txid := toHex (sha256d (serLegacy t)).reverse
        let wtxid := toHex (sha256d (serTx t)).reverse
        let reser := if serTx t ++ rest == b then "same" else toHex (serTx t)
        s!"{dumpTx t} txid={txid} wtxid={wtxid} rest={rest.length} reser={reser}"
    let trig := match parseTx b with
      | none => "f02=false nested_mismatch=false witness_nonstd=false"
      | some (t, _) =>
        let z : Bytes := [0]
        let hit := t.ins.any (fun i => i.scriptSig == z) || t.outs.any (fun o => o.script == z) ||
          (match t.witness with | none => false | some ws => ws.any fun (st : List Bytes) => st.any (· == z))
        -- P2SH-nested segwit inputs whose scriptSig program is not the hash of the witness key / script
        let stacks : List (List Bytes) := (t.witness.getD []) ++ List.replicate t.ins.length []
        let mism := (t.ins.zip stacks).any fun (i, st) =>
          match i.scriptSig, st.getLast? with
          | 0x16 :: 0x00 :: 0x14 :: h, some k => h.length == 20 && h != hash160 k
          | 0x22 :: 0x00 :: 0x20 :: h, some w => h.length == 32 && h != sha256 w
          | _, _ => false
        let nonstd := (t.ins.zip stacks).any fun (i, st) =>
          !(stdStack st) && (i.scriptSig.isEmpty || (i.scriptSig.take 3 == [0x22, 0x00, 0x20] && i.scriptSig.length == 35)
                             || (i.scriptSig.take 3 == [0x16, 0x00, 0x14] && i.scriptSig.length == 23))
        s!"f02={hit} nested_mismatch={mism} witness_nonstd={nonstd}"
    -- the strict reader of the decode-then-encode theorems (C06 T7-T9): accepts = canonical counts throughout
    let strictV := match parseTxS b with
      | none => "rej"
      | some x => if parseTx b == some x then "acc" else "acc-differs"
    pure (r ++ " | " ++ r ++ " | " ++ trig ++ " strictrd=" ++ strictV)
  | ["block_parse", h] => do
    let b ← ofHex h
    let r := match parseBlock b with
      | none => "none"
      | some (blk, rest) =>
        let hd := blk.header
        let hash := toHex (sha256d (serHeader hd)).reverse
        let tgt := match compactTarget hd.bits, targetImpl hd.bits with
          | some a, some b => if a == b then toString a else s!"spec{a}/impl{b}"
          | _, _ => "outside"
        let txids := ",".intercalate (blk.txs.map fun t => toHex (sha256d (serLegacy t)).reverse)
        let reser := if serBlock blk ++ rest == b then "same" else "differs"
        s!"ver={hd.version} prev={toHex hd.prevBlock.reverse} merkle={toHex hd.merkleRoot.reverse} time={hd.time} bits={hd.bits} nonce={hd.nonce} hash={hash} target={tgt} n={blk.txs.length} txids={txids} rest={rest.length} reser={reser}"
    pure (two r r)
  | ["block_txs", h] => do
    -- every transaction of a block, dumped like tx_parse (one result line, transactions separated by '#')
    let b ← ofHex h
    let r := match parseBlock b with
      | none => "none"
      | some (blk, _) => "#".intercalate (blk.txs.map fun t => dumpTx t ++ " txid=" ++ toHex (sha256d (serLegacy t)).reverse)
    pure (two r r)
  | _ => none

end Btc.Driver
