import BtcModel.Redact
import BtcModel.Driver.Common
namespace Btc.Driver
open Btc

def kopOfStr : String → Option KOp
  | "wif" => some .wif
  | "address" => some .address
  | "hash160" => some .hash160
  | "as_dict_private" => some .asDictPrivate
  | "as_dict" => some .asDictPublic
  | "info" => some .info
  | "public_point" => some .publicPoint
  | _ => none

def slotName : Slot → String
  | .secret => "secret" | .privateHex => "private_hex" | .privateByte => "private_byte" | .wifCache => "_wif"
  | .wifPrefix => "_wif_prefix" | .addressObj => "_address_obj" | .publicHex => "public_hex" | .hash160 => "_hash160" | .xy => "_x"

def handleRedact (_D : Dev) : List String → Option String
  | ["redact", kind, ops] => do
    let h ← if ops = "-" then some [] else (ops.splitOn ",").mapM kopOfStr
    let t := runK (kind == "HDKey") initPrivate h
    let names (l : List Slot) := ",".intercalate ((l.map slotName).mergeSort (· ≤ ·))
    let s := s!"tainted={names t} public={names (publicView clearedByPublic t)}"
    pure (two s s)
  | _ => none

end Btc.Driver
