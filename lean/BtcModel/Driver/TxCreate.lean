import BtcModel.Wallet.TxCreate
import BtcModel.Driver.Common
namespace Btc.Driver
open Btc Btc.TxCreate

def parseWT : String → Option WT
  | "legacy" => some .legacy
  | "segwit" => some .segwit
  | "p2sh-segwit" => some .p2shSegwit
  | _ => none

def natsOf (s : String) (sep : String) : Option (List Nat) :=
  if s = "-" || s = "" then some [] else (s.splitOn sep).mapM (·.toNat?)

def parseKind (s : String) : Option InpKind :=
  match s.splitOn ":" with
  | [wt, ms, c] => do
    let wt ← parseWT wt
    let ms ← if ms = "-" then some none else match natsOf ms "." with
      | some [n, m] => some (some (n, m))
      | _ => none
    pure { wt := wt, multisig := ms, compressed := c == "1" }
  | _ => none

def parseUtxos (s : String) : Option (List Utxo) :=
  if s = "-" || s = "" then some [] else
  (s.splitOn ",").mapM fun x => match natsOf x "-" with
    | some [i, v, c] => some { id := i, value := v, conf := c }
    | _ => none

def optNat (s : String) : Option (Option Nat) := if s = "-" then some none else s.toNat?.map some

def idsOf (l : List Utxo) : String := if l.isEmpty then "none" else ",".intercalate (l.map fun u => toString u.id)

def errName : Err → String
  | .noUtxos => "no-utxos" | .notEnough => "not-enough" | .outputsGreater => "outputs-greater"
  | .multiChange => "multi-change" | .notBalanced => "not-balanced" | .feeLow => "fee-low" | .feeHigh => "fee-high"
  | .badRandom => "bad-random" | .duplicateInput => "duplicate-input"

def handleTxCreate (_D : Dev) : List String → Option String
  | ["txc_size", txwt, kind, nIns, outLens, nChange] => do
    let txwt ← parseWT txwt
    let k ← parseKind kind
    let r := estimateSize txwt (List.replicate (← nIns.toNat?) k) (← natsOf outLens ",") (← nChange.toNat?)
    let s := s!"{r.1} {r.2} {estRet txwt r}"
    pure (two s s)
  | ["txc_select", cands, amount, variance, maxU] => do
    let sel := selectInputs (← parseUtxos cands) (← amount.toNat?) (← variance.toNat?) (← optNat maxU)
    let s := idsOf sel ++ s!" sum={sumU sel}"
    pure (two s s)
  | ["txc_fee", size, fpk] => do
    let s := s!"{feeFor (← size.toNat?) (← fpk.toNat?)}"
    pure (two s s)
  | ["txc_create", net, amounts, outLens, feeArg, svcFee, inputs, kind, txwt0, txwt1, nReq, nRand, parts, single] => do
    let net ← match natsOf net "-" with
      | some [d, lo, hi] => some ({ dust := d, feeMin := lo, feeMax := hi } : Net)
      | _ => none
    let fa ← match feeArg.toList with
      | 'e' :: rest => (String.ofList rest).toNat?.map FeeArg.explicit
      | _ => if feeArg = "auto" then some FeeArg.auto else if feeArg = "named" then some FeeArg.named else none
    let inputs ← match inputs.splitOn ":" with
      | ["a", cands, maxU] => do pure (Inputs.auto (← parseUtxos cands) (← optNat maxU))
      | ["g", ins] => do pure (Inputs.given (← parseUtxos ins))
      | _ => none
    let amounts ← natsOf amounts ","
    let outLens ← natsOf outLens ","
    let svcFee ← svcFee.toNat?
    let kind ← parseKind kind
    let txwt0 ← parseWT txwt0
    let txwt1 ← parseWT txwt1
    let nReq ← nReq.toNat?
    let nRand ← nRand.toNat?
    let parts ← natsOf parts ","
    let r : Req := {
      net := net
      amounts := amounts
      outLens := outLens
      feeArg := fa
      svcFee := svcFee
      inputs := inputs
      kind := kind
      txwt0 := txwt0
      txwt1 := txwt1
      nChangeReq := nReq
      nChangeRand := nRand
      parts := parts
      single := single == "1" }
    let s := match create r with
      | .ok c =>
        let ch := if c.change.isEmpty then "-" else ",".intercalate (c.change.map toString)
        s!"ok fee={c.fee} fpk={c.feePerKb} ins={idsOf c.ins} change={ch}"
      | .error e => "err " ++ errName e
    pure (two s s)
  | ["txc_sweep", values, dust, fee, fpk, legacy, nReq, outs] => do
    let values ← natsOf values ","
    let dust ← dust.toNat?
    let fee ← optNat fee
    let fpk ← fpk.toNat?
    let nReq ← nReq.toNat?
    let outs ← if outs = "-" then some none else (natsOf outs ",").map some
    let r : SweepReq := {
      values := values
      dust := dust
      fee := fee
      fpk := fpk
      legacy := legacy == "1"
      nRequired := nReq
      outs := outs }
    let s := match sweepPlan r with
      | some (f, a) => s!"ok fee={f} amounts={",".intercalate (a.map toString)}"
      | none => "refused"
    pure (two s s)
  | ["txc_bump", oldFee, vsize, fee, extra, outs] => do
    let os ← (outs.splitOn ",").mapM fun x => match x.splitOn ":" with
      | [v, c] => v.toNat?.map fun v => ((v, c == "c") : BOut)
      | _ => none
    let s := match bump (← oldFee.toNat?) (← vsize.toNat?) (← fee.toNat?) (← extra.toNat?) os with
      | some l => "ok " ++ ",".intercalate (l.map fun o => s!"{o.1}:{if o.2 then "c" else "r"}")
      | none => "refused"
    pure (two s s)
  | ["txc_wbump", oldFee, vsize, extra, ins, outs, utxos] => do
    let os ← (outs.splitOn ",").mapM fun x => match x.splitOn ":" with
      | [v, c] => v.toNat?.map fun v => ((v, c == "c") : BOut)
      | _ => none
    let ins ← natsOf ins ","
    let us ← parseUtxos utxos
    let s := match walletBump (← oldFee.toNat?) (← vsize.toNat?) (← extra.toNat?) ins os us with
      | .ok (i, l) => "ok ins=" ++ ",".intercalate (i.map toString) ++ " outs=" ++ ",".intercalate (l.map fun o => s!"{o.1}:{if o.2 then "c" else "r"}")
      | .error .notEnough => "err not-enough"
      | .error .tooSmall => "err too-small"
      | .error .zeroFee => "err zero-fee"
    pure (two s s)
  | _ => none

end Btc.Driver
