import BtcModel.Bytes
import BtcModel.Dev
/-! Line-protocol helpers shared by the op handlers of `btcdriver`. -/
namespace Btc.Driver
open Btc

def optHex : Option Bytes → String
  | some b => toHexP b
  | none => "none"

def parseInt (s : String) : Option Int := s.toInt?

def joinSp (l : List String) : String := " ".intercalate l

/-- result line: `spec | impl` -/
def two (spec impl : String) : String := spec ++ " | " ++ impl

end Btc.Driver
