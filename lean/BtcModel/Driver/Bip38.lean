import BtcModel.Bip38
import BtcModel.Prim.Aes
import BtcModel.Prim.Sha256
import BtcModel.Prim.Ripemd160
import BtcModel.Prim.Secp256k1
import BtcModel.Gen.Networks
import BtcModel.Driver.Common
namespace Btc.Driver
open Btc Btc.Prim

def primsAes : Bip38Prims := { aesEnc := aes256EncBlock, aesDec := aes256DecBlock }

/-- P2PKH address of the key (what BIP38 hashes) -/
def p2pkhOf (net : String) (secret : Nat) (compressed : Bool) : Option String :=
  match Gen.networks.find? (·.name == net), smulG secret with
  | some nw, some p =>
    let pub := if compressed then encodePubC p else encodePubU p
    some (String.ofList (b58checkEnc sha256d (nw.prefixAddress ++ hash160 pub)))
  | _, _ => none

/-- the environment of `bip38Encrypt` / `bip38Decrypt` on a network: concrete AES-256, and the
address hash of a valid secret (0 < d < n) -/
def envFor (net : String) : Bip38Env :=
  { P := primsAes
    addrHashOf := fun sec c =>
      let d := beVal sec
      if 0 < d ∧ d < secpN ∧ sec.length = 32 then
        (p2pkhOf net d c).map fun a => (sha256d a.toUTF8.toList).take 4
      else none }

def handleBip38 (_D : Dev) : List String → Option String
  | ["bip38_addrhash", net, secret, comp] => do
    let d ← secret.toNat?
    let r := match p2pkhOf net d (comp == "1") with
      | some a => toHex ((sha256d a.toUTF8.toList).take 4) ++ " " ++ a
      | none => "none"
    pure (two r r)
  | ["bip38_enc", net, secret, comp, derivedHex] => do
    -- derived = scrypt(NFC(passphrase), addresshash, N=16384, r=8, p=8, 64) computed by the harness with hashlib
    let d ← secret.toNat?
    let derived ← ofHex derivedHex
    let r := match bip38Encrypt (envFor net) (fun _ => derived) (beBytes d 32) (comp == "1") with
      | some payload => String.ofList (b58checkEnc sha256d payload)
      | none => "none"
    pure (two r r)
  | ["bip38_dec", net, s, derivedHex] => do
    let derived ← ofHex derivedHex
    let r := match b58checkDec sha256d s.toList with
      | none => "none"
      | some payload =>
        match bip38Decrypt (envFor net) (fun _ => derived) payload with
        | none => "none"
        | some (sec, c) => s!"{toHex sec} {c}"
    pure (two r r)
  | ["bip38_salt", s] => do
    -- the address hash (scrypt salt) inside an encrypted key string
    let r := match b58checkDec sha256d s.toList with
      | some (0x01 :: 0x42 :: _ :: rest) => toHex (rest.take 4)
      | _ => "none"
    pure (two r r)
  | _ => none

end Btc.Driver
