import BtcModel.Bip32
import BtcModel.Driver.Common
import BtcModel.Address
import BtcModel.KeyFormat
import BtcModel.KeyLogic
import BtcModel.Base58
import BtcModel.Bech32
import BtcModel.Gen.Networks
namespace Btc.Driver
open Btc Btc.Prim

def dumpXKey (k : XKey) : String :=
  s!"{if k.isPriv then "priv" else "pub"} depth={k.depth} fp={toHex k.parentFp} child={k.childNum} chain={toHex k.chain} key={if k.isPriv then toHex (beBytes k.secret 32) else "-"} pub={toHex k.pubBytes}"

def handleKeys (_D : Dev) : List String → Option String
  | ["bip32", seedhex, path] => do
    let seed ← ofHex seedhex
    let r := match masterFromSeed seed with
      | none => "none"
      | some m => match derivePath m (path.splitOn "/") with
        | some k => dumpXKey k
        | none => "none"
    pure (two r r)
  | ["bip32_split", seedhex, p1, p2] => do
    -- private derivation along p1, neuter, public derivation along p2
    let seed ← ofHex seedhex
    let items (p : String) := if p = "-" then [] else p.splitOn "/"
    let r := match masterFromSeed seed with
      | none => "none"
      | some m => match derivePath m (items p1) with
        | none => "none"
        | some k => match derivePath k.neuter (items p2) with
          | some k2 => dumpXKey k2
          | none => "none"
    pure (two r r)
  | ["key_secret", d] => do
    -- a private key is a scalar in [1, n-1]
    let d ← d.toNat?
    let r := if !secretOk d then "none" else
      match smulG d with
      | some p => toHex (encodePubC p) ++ " " ++ toHex (encodePubU p)
      | none => "none"
    pure (two r r)
  | ["key_pub", h] => do
    -- a public key is a SEC1 encoding of a point on the curve
    let b ← ofHex h
    let r := match decodePubWith sqrtP curveP b with
      | some p => toHex (serC p) ++ " " ++ toHex (serU p)
      | none => "none"
    pure (two r r)
  | ["addr", net, enc, typ, h] => do
    let data ← ofHex h
    let r := match Gen.networks.find? (·.name == net) with
      | none => "none"
      | some nw =>
        let b58 (pre payload : Bytes) := String.ofList (b58checkEnc sha256d (pre ++ payload))
        let seg (v : Nat) (prog : Bytes) := String.ofList (segwitEnc nw.bech32.toList v prog)
        match enc, typ with
        | "base58", "p2pkh" => b58 nw.prefixAddress (hash160 data)
        | "base58", "p2sh" => b58 nw.prefixP2sh (hash160 data)
        | "base58", "p2sh_p2wpkh" => b58 nw.prefixP2sh (hash160 ([0x00, 0x14] ++ hash160 data))
        | "base58", "p2sh_p2wsh" => b58 nw.prefixP2sh (hash160 ([0x00, 0x20] ++ sha256 data))
        | "bech32", "p2wpkh" => seg 0 (hash160 data)
        | "bech32", "p2wsh" => seg 0 (sha256 data)
        | "bech32", "p2tr" => if data.length = 32 then seg 1 data else "none"
        | _, _ => "unsupported"
    pure (two r r)
  | ["wif_enc", net, d, comp] => do
    let d ← d.toNat?
    let r := match Gen.networks.find? (·.name == net) with
      | some n => String.ofList (wifEnc sha256d n.prefixWif d (comp == "1"))
      | none => "none"
    pure (two r r)
  | ["wif_dec", s] => do
    let r := match wifDec sha256d s.toList with
      | some (ver, d, c) =>
        let nets := (Gen.networks.filter (·.prefixWif == ver)).map (·.name)
        if nets.isEmpty then "none" else s!"{toHex ver} {d} {c}"
      | none => "none"
    pure (two r r)
  | ["xkey_enc", net, priv, wt, ms, depth, fp, child, chain, keydata] => do
    let depth ← depth.toNat?
    let fp ← ofHex fp
    let child ← child.toNat?
    let chain ← ofHex chain
    let kd ← ofHex keydata
    let r := match versionFor net (priv == "1") wt (ms == "1") with
      | some ver => String.ofList (xkeyEnc sha256d ⟨ver, depth, fp, child, chain, kd⟩)
      | none => "noprefix"
    pure (two r r)
  | ["xkey_import", s] =>
    -- accept / refuse decision of the model for an extended-key string (payload after the version when accepted)
    let r := match xkeyImport sha256d s.toList with
      | none => "none"
      | some k => "accept " ++ toHex ((xkeyPayload k).drop 4)
    some (two r r)
  | ["xkey_dec", s] => do
    let r := match xkeyDec sha256d s.toList with
      | none => "none"
      | some k =>
        let ents := versionEntries k.version
        if ents.isEmpty then "none" else
        let privs := (ents.map fun e => e.2.isPrivate).eraseDups
        let nets := (ents.map fun e => e.1).eraseDups
        let wts := (ents.map fun e => e.2.witnessType).eraseDups
        let mss := (ents.map fun e => toString e.2.multisig).eraseDups
        s!"depth={k.depth} fp={toHex k.parentFp} child={k.childNum} chain={toHex k.chain} keydata={toHex k.keyData} private={privs} networks={nets} witness={wts} multisig={mss}"
    pure (two r r)
  | ["dest_script", net, addr] => do
    -- address -> standard locking script, for a transaction on network `net`
    let r := match Gen.networks.find? (·.name == net) with
      | none => "none"
      | some nw =>
        match b58checkDec sha256d addr.toList with
        | some p =>
          if p.length ≠ 21 then "none"
          else if p.take 1 == nw.prefixAddress then toHex (lockScript (.p2pkh (p.drop 1)))
          else if p.take 1 == nw.prefixP2sh then toHex (lockScript (.p2sh (p.drop 1)))
          else "none"
        | none =>
          match segwitDec addr.toList with
          | some (hrp, v, prog) => if hrp == nw.bech32.toList then toHex (lockScript (.witness v prog)) else "none"
          | none => "none"
    pure (two r r)
  | ["script_dest", net, h] => do
    let sc ← ofHex h
    let r := match Gen.networks.find? (·.name == net), classifyScript sc with
      | some nw, some (.p2pkh hh) => "p2pkh " ++ String.ofList (b58checkEnc sha256d (nw.prefixAddress ++ hh))
      | some nw, some (.p2sh hh) => "p2sh " ++ String.ofList (b58checkEnc sha256d (nw.prefixP2sh ++ hh))
      | some nw, some (.witness v prog) =>
        (if v = 0 then (if prog.length = 20 then "p2wpkh " else "p2wsh ") else if v = 1 ∧ prog.length = 32 then "p2tr " else s!"witness_v{v} ")
          ++ String.ofList (segwitEnc nw.bech32.toList v prog)
      | _, _ => "nonstandard"
    pure (two r r)
  | _ => none

end Btc.Driver
