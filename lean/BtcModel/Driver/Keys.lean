import BtcModel.Bip32
import BtcModel.Driver.Common
namespace Btc.Driver
open Btc Btc.Prim

def dumpXKey (k : XKey) : String :=
  s!"{if k.isPriv then "priv" else "pub"} depth={k.depth} fp={toHex k.parentFp} child={k.childNum} chain={toHex k.chain} key={if k.isPriv then toHex (beBytes k.secret 32) else "-"} pub={toHex k.pubBytes}"

def handleKeys (_D : Dev) : List String → Option String
  | ["bip32", seedhex, path] => do
    let seed ← ofHex seedhex
    let r := match masterFromSeed seed with
      | none => "none"
      | some m => match derivePath m (path.splitOn "/") with
        | some k => dumpXKey k
        | none => "none"
    pure (two r r)
  | ["bip32_split", seedhex, p1, p2] => do
    -- private derivation along p1, neuter, public derivation along p2
    let seed ← ofHex seedhex
    let items (p : String) := if p = "-" then [] else p.splitOn "/"
    let r := match masterFromSeed seed with
      | none => "none"
      | some m => match derivePath m (items p1) with
        | none => "none"
        | some k => match derivePath k.neuter (items p2) with
          | some k2 => dumpXKey k2
          | none => "none"
    pure (two r r)
  | _ => none

end Btc.Driver
