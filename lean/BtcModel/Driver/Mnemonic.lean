import BtcModel.Bip39
import BtcModel.Prim.Sha256
import BtcModel.Prim.Sha512
import BtcModel.Driver.Common
namespace Btc.Driver
open Btc Btc.Prim

def handleMnemonic (_D : Dev) : List String → Option String
  | ["bip39_idx", h] => do
    let e ← ofHex h
    let r := match bip39Indices sha256 e with
      | some l => ",".intercalate (l.map toString)
      | none => "none"
    pure (two r r)
  | ["bip39_ent", idxs] => do
    let l ← (idxs.splitOn ",").mapM String.toNat?
    let r := match bip39Entropy sha256 l with
      | some e => toHexP e
      | none => "none"
    pure (two r r)
  | ["bip39_seed", sentenceHex, passHex] => do
    -- PBKDF2-HMAC-SHA512(sentence (NFKD, UTF-8), "mnemonic" ++ passphrase (NFKD, UTF-8), 2048); normalisation is done by the caller
    let s ← ofHex sentenceHex
    let p ← ofHex passHex
    let r := toHex (pbkdf2Sha512 s ("mnemonic".toUTF8.toList ++ p) 2048)
    pure (two r r)
  | _ => none

end Btc.Driver
