import BtcModel.Wire
import BtcModel.Driver.Common
namespace Btc.Driver
open Btc

def cmdToStr : Cmd → String
  | Cmd.op b => "o" ++ toHex [b]
  | Cmd.data d => "d" ++ toHex d

def cmdsToStr (cs : List Cmd) : String :=
  if cs.isEmpty then "-" else ",".intercalate (cs.map cmdToStr)

def optCmds : Option (List Cmd) → String
  | some cs => cmdsToStr cs
  | none => "none"

def cmdOfStr (s : String) : Option Cmd :=
  match s.toList with
  | 'o' :: r => match ofHexChars r with
    | some [b] => some (Cmd.op b)
    | _ => none
  | 'd' :: r => (ofHexChars r).map Cmd.data
  | _ => none

def cmdsOfStr (s : String) : Option (List Cmd) :=
  if s = "-" then some [] else (s.splitOn ",").mapM cmdOfStr

def trigStr (b : Bytes) (im : Option (List Cmd)) : String :=
  match im with
  | some cs => s!"blob={blobTrigger b} nest={nestTrigger cs} sigkey={cs.any fun c => match c with | Cmd.data d => sigKeyTyped d | _ => false}"
  | none => s!"blob={blobTrigger b} nest=false sigkey=false"

def handleWire (D : Dev) : List String → Option String
  | ["cs_enc", n] => do
    let n ← n.toNat?
    pure (two (optHex (csEnc n)) (optHex (csEncImpl D n)))
  | ["cs_dec", h] => do
    let b ← ofHex h
    let r := csDec b
    let s := s!"{r.1} {r.2}"
    pure (two s s)
  | ["varstr", h] => do
    let b ← ofHex h
    pure (two (optHex (varstr b)) (optHex (varstrImpl D b)))
  | ["num_enc", z] => do
    let z ← parseInt z
    let s := toHexP (encodeNum z)
    pure (two s s)
  | ["num_dec", h] => do
    let b ← ofHex h
    let s := s!"{decodeNum b}"
    pure (two s s)
  | ["pack", h] => do
    let b ← ofHex h
    let s := optHex (dataPack b)
    pure (two s s)
  | ["ser", c] => do
    let cs ← cmdsOfStr c
    let s := optHex (serialize cs)
    pure (two s s)
  | ["tok", h] => do
    -- arbitrary bytes: the property does not constrain them; expected = model of the code
    let b ← ofHex h
    let im := parseImpl b
    pure (optCmds im ++ " | " ++ optCmds im ++ " | " ++ trigStr b im ++ " consensus=" ++ optCmds (tokenize b))
  | ["script_rt", c] => do
    -- build from commands, serialise, parse, serialise again
    let cs ← cmdsOfStr c
    let go (parse : Bytes → Option (List Cmd)) : String :=
      match serialize cs with
      | none => "none"
      | some b => match parse b with
        | none => toHexP b ++ " none"
        | some cs2 => toHexP b ++ " " ++ cmdsToStr cs2 ++ " " ++ optHex (serialize cs2)
    let trig := match serialize cs with
      | some b => trigStr b (parseImpl b)
      | none => "blob=false nest=false sigkey=false"
    let wf := cs.all fun c => decide c.WF
    -- the property constrains well-formed command lists; elsewhere expected = model of the code
    pure ((if wf then go tokenize else go parseImpl) ++ " | " ++ go parseImpl ++ " | " ++ trig ++ " wf=" ++ toString wf)
  | _ => none

end Btc.Driver
