import BtcModel.Service
import BtcModel.Driver.Common
namespace Btc.Driver
open Btc

def outcomeOfStr (s : String) : Option Outcome :=
  if s = "empty" then some .empty
  else if s = "raise" then some .raises
  else if s = "attr" then some .attrErr
  else if s = "skip" then some .skipped
  else if s.startsWith "ok" then (s.drop 2).toString.toNat?.map Outcome.ok
  else none

def handleService (_D : Dev) : List String → Option String
  | ["svc_exec", maxP, maxE, outs] => do
    let maxP ← maxP.toNat?
    let maxE ← maxE.toNat?
    let os ← if outs = "-" then some [] else (outs.splitOn ",").mapM outcomeOfStr
    let (r, st) := execute maxP maxE os
    let rs := match r with
      | .value v => s!"value {v}"
      | .falseRet => "false"
      | .error => "error"
    let s := s!"{rs} results={st.results.map (·.1)} errors={st.errors}"
    pure (two s s)
  | ["svc_feegroup", blocks, priority] => do
    let s := toString (feeGroup (feeBlocks (← blocks.toNat?) (if priority = "-" then "" else priority)))
    pure (two s s)
  | ["svc_hist", hist] => do
    -- a history of cached queries: key:maxProviders:maxErrors:outcomes;...
    let qs ← (hist.splitOn ";").mapM fun q => match q.splitOn ":" with
      | [k, mp, me, outs] => do
        let os ← if outs = "-" then some [] else (outs.splitOn ",").mapM outcomeOfStr
        pure ({ key := ← k.toNat?, maxProviders := ← mp.toNat?, maxErrors := ← me.toNat?, outcomes := os } : Query)
      | _ => none
    let rs := (runQueries [] qs).2
    let s := ";".intercalate (rs.map fun r => match r with
      | .value v => s!"value {v}"
      | .falseRet => "false"
      | .error => "error")
    pure (two s s)
  | _ => none

end Btc.Driver
