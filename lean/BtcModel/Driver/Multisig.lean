import BtcModel.Wallet.Multisig
import BtcModel.Verify
import BtcModel.Driver.Common
namespace Btc.Driver
open Btc Btc.Multisig

def handleMultisig (_D : Dev) : List String → Option String
  | ["ms_script", m, keys] => do
    let ks ← (keys.splitOn ",").mapM ofHex
    let s := optHex (redeemScript (← m.toNat?) ks)
    pure (two s s)
  | ["ms_signed", m, n, order] => do
    -- the cosigners at these key positions sign in this order: stored signers, and whether the input verifies
    let o ← if order = "-" then some [] else (order.splitOn ",").mapM (·.toNat?)
    let sg := signedBy o
    let ok (j x : Nat) : Bool := sg[j]? == some x
    let v := inputVerify (← m.toNat?) (← n.toNat?) sg.length ok
    let s := s!"{if sg.isEmpty then "-" else ",".intercalate (sg.map toString)} valid={v}"
    pure (two s s)
  | _ => none

end Btc.Driver
