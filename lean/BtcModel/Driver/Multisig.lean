import BtcModel.Wallet.Multisig
import BtcModel.Verify
import BtcModel.Driver.Common
namespace Btc.Driver
open Btc Btc.Multisig

def handleMultisig (_D : Dev) : List String → Option String
  | ["ms_script", m, keys] => do
    let ks ← (keys.splitOn ",").mapM ofHex
    let s := optHex (redeemScript (← m.toNat?) ks)
    pure (two s s)
  | ["ms_signed", m, n, order] => do
    -- the cosigners at these key positions sign in this order: stored signers, and whether the input verifies
    let o ← if order = "-" then some [] else (order.splitOn ",").mapM (·.toNat?)
    let sg := signedBy o
    let ok (j x : Nat) : Bool := sg[j]? == some x
    let v := inputVerify (← m.toNat?) (← n.toNat?) sg.length ok
    let s := s!"{if sg.isEmpty then "-" else ",".intercalate (sg.map toString)} valid={v}"
    pure (two s s)
  | ["tx_verify", ins] => do
    -- `Transaction.verify` over the per-input facts c:vout:sigsOk (c = typed coinbase)
    let parse (t : String) : Option VIn :=
      match t.splitOn ":" with
      | [c, v, k] => do pure { coinbaseTyped := c == "1", vout := (← v.toNat?), sigsOk := k == "1" }
      | _ => none
    let l ← if ins = "-" then some [] else (ins.splitOn ",").mapM parse
    let s := toString (txVerify l)
    pure (two s s)
  | _ => none

end Btc.Driver
