import BtcModel.Bytes
/-!
# Bech32 / Bech32m segwit addresses (BIP173, BIP350) — property C11

The Python code is the BIP reference algorithm; one model serves as Spec and Impl.
-/
namespace Btc

def bech32Gen (top : Nat) : Nat :=
  (if top.testBit 0 then 0x3b6a57b2 else 0) ^^^ (if top.testBit 1 then 0x26508e6d else 0) ^^^
  (if top.testBit 2 then 0x1ea119fa else 0) ^^^ (if top.testBit 3 then 0x3d4233dd else 0) ^^^
  (if top.testBit 4 then 0x2a1462b3 else 0)

/-- one polymod step: `chk = (chk & 0x1ffffff) << 5 ^ value ^ G(chk >> 25)` -/
def polyStep (c v : Nat) : Nat := (((c % 2^25) * 32) ^^^ v) ^^^ bech32Gen (c / 2^25)

def polymod (values : List Nat) : Nat := values.foldl polyStep 1

def bech32Const : Nat := 1
def bech32mConst : Nat := 0x2bc830a3

def bech32Charset : List Char := "qpzry9x8gf2tvdw0s3jn54khce6mua7l".toList
def bech32Index (c : Char) : Option Nat :=
  let i := bech32Charset.idxOf c
  if i < 32 then some i else none
def bech32Char (d : Nat) : Char := bech32Charset.getD d '?'

def hrpExpand (hrp : List Char) : List Nat :=
  hrp.map (fun c => c.toNat / 32) ++ [0] ++ hrp.map (fun c => c.toNat % 32)

/-- MSB-first bits of the low `w` bits of `v` -/
def bitsOf : Nat → Nat → List Bool
  | 0, _ => []
  | w + 1, v => v.testBit w :: bitsOf w v

/-- value of an MSB-first bit list -/
def ofBits : List Bool → Nat
  | [] => 0
  | b :: l => b.toNat * 2 ^ l.length + ofBits l

def chunksOf (w : Nat) (fuel : Nat) (bs : List Bool) : List (List Bool) :=
  match fuel with
  | 0 => []
  | f+1 => if bs.isEmpty ∨ w = 0 then [] else bs.take w :: chunksOf w f (bs.drop w)

/-- values → bit stream, bit stream → values (`w` bits each, most significant bit first) -/
def toBits (w : Nat) (vals : List Nat) : List Bool := vals.flatMap (bitsOf w)
def fromBits (w : Nat) (bits : List Bool) : List Nat := (chunksOf w (bits.length + 1) bits).map ofBits

/-- `convertbits(data, from, to, pad=True)` -/
def convertBitsPad (frm to : Nat) (data : List Nat) : List Nat :=
  let bits := toBits frm data
  let padn := (to - bits.length % to) % to
  fromBits to (bits ++ List.replicate padn false)

/-- `convertbits(data, from, to, pad=False)`; `none` = "Invalid padding bits" -/
def convertBitsNoPad (frm to : Nat) (data : List Nat) : Option (List Nat) :=
  let bits := toBits frm data
  let full := bits.length / to
  let rest := bits.drop (full * to)
  if rest.length ≥ frm ∨ rest.any id then none
  else some (fromBits to (bits.take (full * to)))

def checksumConst (witver : Nat) : Nat := if witver = 0 then bech32Const else bech32mConst

/-- segwit address encoder (`pubkeyhash_to_addr_bech32` for a bare program) -/
def segwitEnc (hrp : List Char) (witver : Nat) (prog : Bytes) : List Char :=
  let data := witver :: convertBitsPad 8 5 (prog.map (·.toNat))
  let pm := polymod (hrpExpand hrp ++ data ++ [0, 0, 0, 0, 0, 0]) ^^^ checksumConst witver
  let chk := (List.range 6).map (fun i => (pm >>> (5 * (5 - i))) % 32)
  hrp ++ ['1'] ++ (data ++ chk).map bech32Char

def lastIdxOf (c : Char) (s : List Char) : Option Nat :=
  let r := s.reverse.idxOf c
  if r < s.length then some (s.length - 1 - r) else none

def isUpperAscii (c : Char) : Bool := 'A' ≤ c && c ≤ 'Z'
def isLowerAscii (c : Char) : Bool := 'a' ≤ c && c ≤ 'z'

/-- segwit address decoder (`addr_bech32_to_pubkeyhash`): (hrp, witness version, program) -/
def segwitDec (s : List Char) : Option (List Char × Nat × Bytes) :=
  if s.any (fun c => c.toNat < 33 ∨ c.toNat > 126) then none
  else if s.any isUpperAscii ∧ s.any isLowerAscii then none
  else
    let s := s.map Char.toLower
    match lastIdxOf '1' s with
    | none => none
    | some pos =>
      if pos < 1 ∨ pos + 7 > s.length ∨ s.length > 90 then none else
      let hrp := s.take pos
      match (s.drop (pos + 1)).mapM bech32Index with
      | none => none
      | some data =>
        let check := polymod (hrpExpand hrp ++ data)
        match data with
        | [] => none
        | v :: _ =>
          if check ≠ checksumConst v then none else
          let body := (data.take (data.length - 6)).drop 1
          match convertBitsNoPad 5 8 body with
          | none => none
          | some dec =>
            if dec.length < 2 ∨ dec.length > 40 then none
            else if v > 16 then none
            else if v = 0 ∧ dec.length ≠ 20 ∧ dec.length ≠ 32 then none
            else some (hrp, v, dec.map UInt8.ofNat)

end Btc
