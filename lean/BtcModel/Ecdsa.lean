import BtcModel.Bytes
/-!
# ECDSA decision logic and DER (property C13)

The curve arithmetic itself lives in `Prim/Secp256k1` (executable reference).  Here: the pieces
the theorems talk about — low-S normalisation, the range checks of the verifier, strict DER.
-/
namespace Btc

def secpOrder : Nat := 0xFFFFFFFFFFFFFFFFFFFFFFFFFFFFFFFEBAAEDCE6AF48A03BBFD25E8CD0364141

/-- low-S normalisation (BIP62 rule 5 / BIP146): `s > n/2 → n - s` with *integer* division -/
def lowS (s : Nat) : Nat := if s > secpOrder / 2 then secpOrder - s else s

/-- the normalisation as it was in the pinned tree: `secp256k1_n / 2` is a Python float and
equals exactly 2^255 (finding F10) -/
def lowSFloat (s : Nat) : Nat := if s > 2^255 then secpOrder - s else s

/-- range checks of `Signature.__init__` -/
def sigInRange (r s : Nat) : Bool := 1 ≤ r && r < secpOrder && 1 ≤ s && s < secpOrder

/-- content rules of a strict-DER positive INTEGER: not empty, not negative, no superfluous
leading zero byte -/
def derIntOk (b : Bytes) : Bool :=
  !b.isEmpty && (b.headD 0).toNat < 0x80 &&
  !(decide (b.length > 1) && (b.headD 0).toNat == 0 && ((b.drop 1).headD 0).toNat < 0x80)

/-- strict DER signature decode (BIP66): r, s -/
def derDecode (b : Bytes) : Option (Nat × Nat) :=
  match b with
  | 0x30 :: len :: 0x02 :: rlen :: rest =>
    if rest.length < rlen.toNat + 2 then none
    else
      match rest.drop rlen.toNat with
      | 0x02 :: slen :: rest2 =>
        if rest2.length == slen.toNat && len.toNat == b.length - 2 &&
           derIntOk (rest.take rlen.toNat) && derIntOk rest2
        then some (beVal (rest.take rlen.toNat), beVal rest2) else none
      | _ => none
  | _ => none

/-- minimal big-endian bytes of a positive integer with a leading 00 when the top bit is set (DER INTEGER) -/
def derInt (n : Nat) : Bytes :=
  let b := (leBytesMin n).reverse
  let b := if b.isEmpty then [0] else b
  if (b.headD 0).toNat ≥ 0x80 then 0 :: b else b

def derEncode (r s : Nat) : Bytes :=
  let rb := derInt r
  let sb := derInt s
  let body := [0x02, UInt8.ofNat rb.length] ++ rb ++ [0x02, UInt8.ofNat sb.length] ++ sb
  [0x30, UInt8.ofNat body.length] ++ body

end Btc
