import BtcModel.Bytes
/-!
# ECDSA decision logic and DER (property C13)

The curve arithmetic itself lives in `Prim/Secp256k1` (executable reference).  Here: the pieces
the theorems talk about — low-S normalisation, the range checks of the verifier, strict DER.
-/
namespace Btc

def secpOrder : Nat := 0xFFFFFFFFFFFFFFFFFFFFFFFFFFFFFFFEBAAEDCE6AF48A03BBFD25E8CD0364141

/-- low-S normalisation (BIP62 rule 5 / BIP146): `s > n/2 → n - s` with *integer* division -/
def lowS (s : Nat) : Nat := if s > secpOrder / 2 then secpOrder - s else s

/-- the normalisation as it was in the pinned tree: `secp256k1_n / 2` is a Python float and
equals exactly 2^255 (finding F10) -/
def lowSFloat (s : Nat) : Nat := if s > 2^255 then secpOrder - s else s

/-- range checks of `Signature.__init__` -/
def sigInRange (r s : Nat) : Bool := 1 ≤ r && r < secpOrder && 1 ≤ s && s < secpOrder

/-- strict DER signature decode (BIP66): r, s -/
def derDecode (b : Bytes) : Option (Nat × Nat) :=
  match b with
  | 0x30 :: len :: 0x02 :: rlen :: rest =>
    let rl := rlen.toNat
    if rest.length < rl + 2 then none else
    let rb := rest.take rl
    match rest.drop rl with
    | 0x02 :: slen :: rest2 =>
      let sl := slen.toNat
      if rest2.length ≠ sl then none
      else if len.toNat ≠ b.length - 2 then none
      else if rl = 0 ∨ sl = 0 then none
      else if rb.headD 0 ≥ 0x80 ∨ rest2.headD 0 ≥ 0x80 then none
      else if (rl > 1 ∧ rb.headD 0 = 0 ∧ (rb.drop 1).headD 0 < 0x80) then none
      else if (sl > 1 ∧ rest2.headD 0 = 0 ∧ (rest2.drop 1).headD 0 < 0x80) then none
      else some (beVal rb, beVal rest2)
    | _ => none
  | _ => none

/-- minimal big-endian bytes of a positive integer with a leading 00 when the top bit is set (DER INTEGER) -/
def derInt (n : Nat) : Bytes :=
  let b := (leBytesMin n).reverse
  let b := if b.isEmpty then [0] else b
  if b.headD 0 ≥ 0x80 then 0 :: b else b

def derEncode (r s : Nat) : Bytes :=
  let rb := derInt r
  let sb := derInt s
  let body := [0x02, UInt8.ofNat rb.length] ++ rb ++ [0x02, UInt8.ofNat sb.length] ++ sb
  [0x30, UInt8.ofNat body.length] ++ body

end Btc
