import BtcModel.Bytes
import BtcModel.Bech32
/-!
# BIP39 (property C14): entropy ↔ word indices, on bit lists

`bitsOf`, `ofBits`, `chunksOf` are shared with the Bech32 model.  `H` is SHA-256 in the
instantiation; only its first byte is used (checksum ≤ 8 bits).
-/
namespace Btc


/-- checksum bits: the first ENT/32 bits of H(entropy) -/
def bip39Checksum (H : Bytes → Bytes) (e : Bytes) : List Bool :=
  (bitsOf 8 ((H e).headD 0).toNat).take (e.length / 4)

def entropyLenOk (n : Nat) : Bool := n == 16 || n == 20 || n == 24 || n == 28 || n == 32

/-- entropy → word indices (11 bits each) -/
def bip39Indices (H : Bytes → Bytes) (e : Bytes) : Option (List Nat) :=
  if !entropyLenOk e.length then none
  else some (fromBits 11 (toBits 8 (e.map (·.toNat)) ++ bip39Checksum H e))

/-- word indices → entropy; `none` for a wrong length, an index ≥ 2048 or a wrong checksum -/
def bip39Entropy (H : Bytes → Bytes) (idx : List Nat) : Option Bytes :=
  if !(idx.length == 12 || idx.length == 15 || idx.length == 18 || idx.length == 21 || idx.length == 24) then none
  else if idx.any (· ≥ 2048) then none
  else
    let bits := toBits 11 idx
    let entBits := idx.length * 11 * 32 / 33
    let e := (fromBits 8 (bits.take entBits)).map UInt8.ofNat
    if bits.drop entBits == bip39Checksum H e then some e else none

end Btc
