/-!
# Service layer: provider failover (property C20)

`execute` is the loop of `Service._provider_execute`: providers in the order they are tried
(priority order), each with the outcome of calling the requested method on it.
-/
namespace Btc

inductive Outcome where
  | ok (v : Nat)        -- the provider answered `v`
  | empty               -- returned False, or nothing at all - None (repair F109) ("Received empty response")
  | raises              -- raised an exception other than AttributeError
  | attrErr             -- raised AttributeError (not recorded as an error)
  | skipped             -- no URL / method not implemented / API key needed
  deriving Repr, DecidableEq

inductive ExecResult where
  | value (v : Nat)     -- the answer returned to the caller
  | falseRet            -- `return False` (error limit reached, nothing received)
  | error               -- ServiceError: no successful response from any provider
  deriving Repr, DecidableEq

structure ExecState where
  results : List (Nat × Nat)    -- (provider position, value) in arrival order
  errors : List Nat             -- provider positions recorded in `self.errors`
  deriving Repr, DecidableEq

def firstResult (st : ExecState) : ExecResult :=
  match st.results with
  | (_, v) :: _ => .value v
  | [] => .falseRet

/-- the `for sp in provider_lst` loop; `pos` = position of the next provider -/
def execLoop (maxProviders maxErrors : Nat) : List Outcome → Nat → ExecState → ExecResult × ExecState
  | [], _, st =>
    (match st.results with | (_, v) :: _ => .value v | [] => .error, st)
  | o :: rest, pos, st =>
    if st.results.length ≥ maxProviders then
      (match st.results with | (_, v) :: _ => .value v | [] => .error, st)
    else
      match o with
      | .skipped => execLoop maxProviders maxErrors rest (pos + 1) st
      | .ok v => execLoop maxProviders maxErrors rest (pos + 1) { st with results := st.results ++ [(pos, v)] }
      | .empty => execLoop maxProviders maxErrors rest (pos + 1) { st with errors := st.errors ++ [pos] }
      | .raises =>
        let st' := { st with errors := st.errors ++ [pos] }
        if st'.errors.length ≥ maxErrors then (firstResult st', st')
        else execLoop maxProviders maxErrors rest (pos + 1) st'
      | .attrErr =>
        if st.errors.length ≥ maxErrors then (firstResult st, st)
        else execLoop maxProviders maxErrors rest (pos + 1) st

def execute (maxProviders maxErrors : Nat) (outcomes : List Outcome) : ExecResult × ExecState :=
  execLoop maxProviders maxErrors outcomes 0 ⟨[], []⟩

end Btc

namespace Btc

/-! ## The cache in front of the providers

`Service.gettransaction / getrawtransaction / blockcount …`: a query for key `k` is answered from
the cache when an entry exists, otherwise the providers are asked and a successful answer is
stored. -/

abbrev Cache := List (Nat × Nat)

def cacheGet (c : Cache) (k : Nat) : Option Nat := (c.find? fun p => p.1 == k).map (·.2)

/-- `store_*`: an existing entry is kept (the cache tables have a unique key) -/
def cachePut (c : Cache) (k v : Nat) : Cache := if (cacheGet c k).isSome then c else c ++ [(k, v)]

/-- one query: key, and what every provider would answer -/
structure Query where
  key : Nat
  maxProviders : Nat
  maxErrors : Nat
  outcomes : List Outcome
  deriving Repr

def queryStep (c : Cache) (q : Query) : Cache × ExecResult :=
  match cacheGet c q.key with
  | some v => (c, .value v)
  | none =>
    match (execute q.maxProviders q.maxErrors q.outcomes).1 with
    | .value v => (cachePut c q.key v, .value v)
    | r => (c, r)

/-- a history of queries: final cache and the answers, in order -/
def runQueries : Cache → List Query → Cache × List ExecResult
  | c, [] => (c, [])
  | c, q :: qs =>
    let r := queryStep c q
    let rest := runQueries r.1 qs
    (rest.1, r.2 :: rest.2)

end Btc

namespace Btc

/-- the cache slot of a fee estimate: `fee_high` (confirmation within 1 block), `fee_medium`
(within 5), `fee_low` (later) — the same ladder when storing and when reading -/
def feeGroup (blocks : Nat) : Nat := if blocks ≤ 1 then 0 else if blocks ≤ 5 then 1 else 2

/-- `Service.estimatefee(blocks, priority)`: the priority names override the block count -/
def feeBlocks (blocks : Nat) (priority : String) : Nat :=
  if priority == "low" then 25 else if priority == "high" then 2 else blocks

end Btc
