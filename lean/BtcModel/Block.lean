import BtcModel.Tx
import BtcModel.TxStrict
/-! Blocks (property C06): 80-byte header, compact target, transaction list. -/
namespace Btc

structure BlockHeader where
  version : Nat
  prevBlock : Bytes     -- wire order
  merkleRoot : Bytes    -- wire order
  time : Nat
  bits : Nat
  nonce : Nat
  deriving Repr, DecidableEq

def BlockHeader.WF (h : BlockHeader) : Prop :=
  h.version < 2^32 ∧ h.prevBlock.length = 32 ∧ h.merkleRoot.length = 32 ∧ h.time < 2^32 ∧ h.bits < 2^32 ∧ h.nonce < 2^32

def serHeader (h : BlockHeader) : Bytes :=
  leBytes h.version 4 ++ h.prevBlock ++ h.merkleRoot ++ leBytes h.time 4 ++ leBytes h.bits 4 ++ leBytes h.nonce 4

def readHeader (bs : Bytes) : Option (BlockHeader × Bytes) :=
  match readFixed 4 bs with
  | none => none
  | some (v, r1) =>
    match readBytes 32 r1 with
    | none => none
    | some (p, r2) =>
      match readBytes 32 r2 with
      | none => none
      | some (m, r3) =>
        match readFixed 4 r3 with
        | none => none
        | some (t, r4) =>
          match readFixed 4 r4 with
          | none => none
          | some (b, r5) =>
            match readFixed 4 r5 with
            | none => none
            | some (n, r6) => some (⟨v, p, m, t, b, n⟩, r6)

/-- consensus `arith_uint256::SetCompact` (value only; `none` when the sign bit is set on a non-zero mantissa) -/
def compactTarget (bits : Nat) : Option Nat :=
  let size := bits / 2^24
  let word := bits % 2^23
  if bits % 2^24 ≥ 2^23 ∧ word ≠ 0 then none
  else if size ≤ 3 then some (word / 256 ^ (3 - size)) else some (word * 256 ^ (size - 3))

/-- `Block.target` of the code: three mantissa bytes, exponent ≥ 3 assumed -/
def targetImpl (bits : Nat) : Option Nat :=
  let size := bits / 2^24
  if size < 3 then none else some (bits % 2^24 * 256 ^ (size - 3))

structure Block where
  header : BlockHeader
  txs : List Tx
  deriving Repr

def serBlock (b : Block) : Bytes :=
  serHeader b.header ++ csE b.txs.length ++ (b.txs.map serTx).flatten

def parseBlock (bs : Bytes) : Option (Block × Bytes) :=
  match readHeader bs with
  | none => none
  | some (h, r) =>
    match readList parseTx r with
    | none => none
    | some (txs, r') => some (⟨h, txs⟩, r')

/-- the block reader with shortest-form counts only (header, transaction count, every transaction) -/
def parseBlockS (bs : Bytes) : Option (Block × Bytes) :=
  match readHeader bs with
  | none => none
  | some (h, r) =>
    match readListS parseTxS r with
    | none => none
    | some (txs, r') => some (⟨h, txs⟩, r')

end Btc
