import BtcModel.Wire
/-!
# Multisig cosigner wallets (property C10)

* the redeem script of an m-of-n key: public keys sorted bytewise (`sort_keys`), standard
  `OP_m <keys> OP_n OP_CHECKMULTISIG`;
* the signatures of an input as the duplicate-free, position-sorted list of the cosigners that have
  signed (`Transaction.sign` places a signature at the position of its key in the sorted key list
  and keeps the non-empty slots in that order).
-/
namespace Btc.Multisig
open Btc

/-- bytewise lexicographic order (Python `bytes` comparison) -/
def bytesLe : Bytes → Bytes → Bool
  | [], _ => true
  | _ :: _, [] => false
  | a :: as, b :: bs => a.toNat < b.toNat || (a.toNat == b.toNat && bytesLe as bs)

/-- `public_keys.sort(key=lambda k: k.key_public)` -/
def sortKeys (ks : List Bytes) : List Bytes := ks.mergeSort bytesLe

/-- `Script(script_types=['multisig'], keys=…, sigs_required=m).serialize()` for 1 ≤ m ≤ n ≤ 16 -/
def multisigScript (m : Nat) (keys : List Bytes) : Option Bytes :=
  if m = 0 || m > keys.length || keys.length > 16 then none
  else serialize ([Cmd.op (UInt8.ofNat (0x50 + m))] ++ keys.map Cmd.data ++
                  [Cmd.op (UInt8.ofNat (0x50 + keys.length)), Cmd.op 0xae])

/-- the redeem script every cosigner wallet derives from the n public keys at a path -/
def redeemScript (m : Nat) (keys : List Bytes) : Option Bytes := multisigScript m (sortKeys keys)

/-! ## Who has signed -/

/-- insert a position into a strictly increasing list (no duplicates) -/
def addSigner : List Nat → Nat → List Nat
  | [], p => [p]
  | q :: l, p => if p < q then p :: q :: l else if p = q then q :: l else q :: addSigner l p

/-- the slots filled after the cosigners at the given key positions have signed, in that order -/
def signedBy (order : List Nat) : List Nat := order.foldl addSigner []

end Btc.Multisig
