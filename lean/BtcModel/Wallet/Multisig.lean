import BtcModel.Wire
/-!
# Multisig cosigner wallets (property C10)

* the redeem script of an m-of-n key: public keys sorted bytewise (`sort_keys`), standard
  `OP_m <keys> OP_n OP_CHECKMULTISIG`;
* the signatures of an input as the duplicate-free, position-sorted list of the cosigners that have
  signed (`Transaction.sign` places a signature at the position of its key in the sorted key list
  and keeps the non-empty slots in that order).
-/
namespace Btc.Multisig
open Btc

/-- bytewise lexicographic order (Python `bytes` comparison) -/
def bytesLe : Bytes → Bytes → Bool
  | [], _ => true
  | _ :: _, [] => false
  | a :: as, b :: bs => a.toNat < b.toNat || (a.toNat == b.toNat && bytesLe as bs)

/-- `public_keys.sort(key=lambda k: k.key_public)` -/
def sortKeys (ks : List Bytes) : List Bytes := ks.mergeSort bytesLe

/-- `Script(script_types=['multisig'], keys=…, sigs_required=m).serialize()` for 1 ≤ m ≤ n ≤ 16 -/
def multisigScript (m : Nat) (keys : List Bytes) : Option Bytes :=
  if m = 0 || m > keys.length || keys.length > 16 then none
  else serialize ([Cmd.op (UInt8.ofNat (0x50 + m))] ++ keys.map Cmd.data ++
                  [Cmd.op (UInt8.ofNat (0x50 + keys.length)), Cmd.op 0xae])

/-- the redeem script every cosigner wallet derives from the n public keys at a path -/
def redeemScript (m : Nat) (keys : List Bytes) : Option Bytes := multisigScript m (sortKeys keys)

/-! ## Who has signed -/

/-- insert a position into a strictly increasing list (no duplicates) -/
def addSigner : List Nat → Nat → List Nat
  | [], p => [p]
  | q :: l, p => if p < q then p :: q :: l else if p = q then q :: l else q :: addSigner l p

/-- the slots filled after the cosigners at the given key positions have signed, in that order -/
def signedBy (order : List Nat) : List Nat := order.foldl addSigner []

/-! ## Where `Transaction.sign` puts the signatures -/

/-- the slots of `Transaction.sign` (`sig_domain`): one per key of the input, empty or holding the
signature of that key position (a signature is named by the position of the key it verifies under) -/
abbrev Slots := List (Option Nat)

/-- a new signature always takes the slot of its key -/
def putNew (d : Slots) (p : Nat) : Slots := d.set p (some p)

/-- a known signature takes the slot of its key when that is still empty -/
def putKnown (d : Slots) (p : Nat) : Slots := if d[p]? == some none then d.set p (some p) else d

/-- `Transaction.sign` since the repair F100: the signatures made now, then every known signature at
the position of the key it verifies under (found from its key, or by verification when it came
without one); the stored signatures are the non-empty slots in order -/
def placeAll (n : Nat) (new known : List Nat) : List Nat :=
  ((known.foldl putKnown (new.foldl putNew (List.replicate n none))).filterMap id)

/-- `Transaction.sign` before the repair: known signatures (position, carries its key) were placed
only up to the first one that came without its key; if any were left, ALL known signatures were
put, one after the other, into the first free slot from the left -/
def placePinned (n : Nat) (new : List Nat) (known : List (Nat × Bool)) : List Nat :=
  let d0 := new.foldl putNew (List.replicate n none)
  let withKey := known.takeWhile (·.2)
  let d1 := (withKey.map (·.1)).foldl putKnown d0
  if withKey.length = known.length then d1.filterMap id
  else
    ((known.map (·.1)).foldl (fun d s => match d.findIdx? (· == none) with
      | some i => d.set i (some s)
      | none => d) d1).filterMap id

end Btc.Multisig
