import BtcModel.Gen.KeyStructures
/-!
# Wallet key paths (property C09)

* `structureFor` = `get_key_structure_data`, `expand` = `keys.path_expand` on the generated
  `WALLET_KEY_STRUCTURES` table;
* a machine for the key rows of a wallet (`keys` table, leaf rows at the wallet's key depth):
  `new_keys` (next address index of the chain), `_get_key` (first unused key after the last used
  one, else new keys), marking a key used, `key_for_path` with an explicit change / index,
  `new_account`.
-/
namespace Btc.KeyPaths
open Btc.Gen

/-- one level of a concrete path -/
structure Elem where
  idx : Nat
  hard : Bool
  deriving DecidableEq, Repr

abbrev Path := List Elem

/-- the values `path_expand` substitutes for the variables of a template -/
structure Vars where
  purpose : Nat
  coinType : Nat
  account : Nat
  scriptType : Nat     -- 1 for p2sh-segwit, 2 otherwise
  cosigner : Nat
  change : Nat
  addressIndex : Nat
  deriving DecidableEq, Repr

/-- `get_key_structure_data(witness_type, multisig)`: the unique entry with a purpose -/
def structureFor (witnessType : String) (multisig : Bool) : Option KeyStructure :=
  match keyStructures.filter (fun k => k.witnessType == witnessType && k.multisig == multisig && k.purpose.isSome) with
  | [k] => some k
  | _ => none

def valueOf (v : Vars) : String → Option Nat
  | "purpose" => some v.purpose
  | "coin_type" => some v.coinType
  | "account" => some v.account
  | "script_type" => some v.scriptType
  | "cosigner_index" => some v.cosigner
  | "change" => some v.change
  | "address_index" => some v.addressIndex
  | _ => none

/-- `path_expand([], template, …)` without the leading `m`: every level is the value of its
variable, hardened as the template says -/
def expand (tmpl : List KsLevel) (v : Vars) : Option Path :=
  (tmpl.filter (·.name != "m")).mapM fun l => (valueOf v l.name).map fun n => { idx := n, hard := l.hardened }

/-- `path_expand(given, template, …)`: the last `given.length` levels are taken from `given`
(numbers; hardened when the template level or the given item is) -/
def expandWith (tmpl : List KsLevel) (v : Vars) (given : List Elem) : Option Path :=
  match expand tmpl v with
  | none => none
  | some full =>
    if given.length > full.length then none
    else
      let keep := full.take (full.length - given.length)
      let tl := (full.drop (full.length - given.length)).zip given
      some (keep ++ tl.map fun p => { idx := p.2.idx, hard := p.1.hard || p.2.hard })

def scriptTypeId (witnessType : String) : Nat := if witnessType == "p2sh-segwit" then 1 else 2

/-! ## The machine of key rows -/

/-- a chain of keys: everything except the address index -/
structure Chain where
  witnessType : String
  coinType : Nat
  account : Nat
  change : Nat
  cosigner : Nat
  deriving DecidableEq, Repr

structure KeyRow where
  id : Nat
  chain : Chain
  index : Nat
  path : Path
  used : Bool
  deriving DecidableEq, Repr

structure St where
  multisig : Bool
  rows : List KeyRow
  nextId : Nat
  deriving Repr

def varsOf (c : Chain) (index : Nat) (purpose : Nat) : Vars :=
  { purpose := purpose, coinType := c.coinType, account := c.account, scriptType := scriptTypeId c.witnessType,
    cosigner := c.cosigner, change := c.change, addressIndex := index }

/-- the path of key `index` of chain `c` in a single-signature / multisig wallet -/
def pathOf (multisig : Bool) (c : Chain) (index : Nat) : Option Path :=
  match structureFor c.witnessType multisig with
  | none => none
  | some k => expand k.keyPath (varsOf c index (k.purpose.getD 0))

def chainRows (st : St) (c : Chain) : List KeyRow := st.rows.filter (·.chain == c)

def maxIndex : List KeyRow → Option Nat
  | [] => none
  | r :: l => match maxIndex l with
    | none => some r.index
    | some m => some (max r.index m)

/-- `new_keys`: the next address index is one more than the largest index of the chain (0 for an
empty chain) -/
def nextIndex (st : St) (c : Chain) : Nat :=
  match maxIndex (chainRows st c) with
  | some m => m + 1
  | none => 0

/-- rows for `index, index+1, …` (n of them) with ids `id, id+1, …` -/
def newRows (multisig : Bool) (c : Chain) : Nat → Nat → Nat → Option (List KeyRow)
  | _, _, 0 => some []
  | index, id, n + 1 =>
    match pathOf multisig c index, newRows multisig c (index + 1) (id + 1) n with
    | some p, some rs => some ({ id := id, chain := c, index := index, path := p, used := false } :: rs)
    | _, _ => none

def addRows (st : St) (c : Chain) (index n : Nat) : Option (St × List KeyRow) :=
  (newRows st.multisig c index st.nextId n).map fun rs =>
    ({ st with rows := st.rows ++ rs, nextId := st.nextId + n }, rs)

def newKeys (st : St) (c : Chain) (n : Nat) : Option (St × List KeyRow) := addRows st c (nextIndex st c) n

def lastUsedId (st : St) (c : Chain) : Nat :=
  (((chainRows st c).filter (·.used)).map (·.id)).foldl max 0

/-- `_get_key`: unused keys of the chain created after the last used one, topped up with new keys -/
def getKeys (st : St) (c : Chain) (n : Nat) : Option (St × List KeyRow) :=
  let free := (chainRows st c).filter fun r => !r.used && r.id > lastUsedId st c
  if free.length > n then some (st, free.take n)
  else
    match newKeys st c (n - free.length) with
    | none => none
    | some (st', rs) => some (st', free ++ rs)

def markUsed (st : St) (id : Nat) : St :=
  { st with rows := st.rows.map fun r => if r.id == id then { r with used := true } else r }

/-- `key_for_path([change, index])`: the existing row, or a new one at exactly that index -/
def keyForIndex (st : St) (c : Chain) (index : Nat) : Option (St × KeyRow) :=
  match (chainRows st c).find? (·.index == index) with
  | some r => some (st, r)
  | none =>
    match addRows st c index 1 with
    | some (st', [r]) => some (st', r)
    | _ => none

inductive Op where
  | newKeys (c : Chain) (n : Nat)
  | getKeys (c : Chain) (n : Nat)
  | markUsed (id : Nat)
  | keyForIndex (c : Chain) (index : Nat)
  deriving Repr

def step (st : St) : Op → St
  | .newKeys c n => ((newKeys st c n).map (·.1)).getD st
  | .getKeys c n => ((getKeys st c n).map (·.1)).getD st
  | .markUsed id => markUsed st id
  | .keyForIndex c i => ((keyForIndex st c i).map (·.1)).getD st

def run (st : St) (ops : List Op) : St := ops.foldl step st

def init (multisig : Bool) : St := { multisig := multisig, rows := [], nextId := 1 }

end Btc.KeyPaths
