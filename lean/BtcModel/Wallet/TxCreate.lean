import BtcModel.F64
/-!
# Wallet transaction creation (property C07)

Transcription of `Wallet.select_inputs`, `Transaction.estimate_size` and the arithmetic of
`Wallet.transaction_create` (fee estimate, fee, change, dust absorption, number and amounts of
change outputs, the final guards).  Database queries become list operations on the rows in query
order; randomness (`random.randint`, `numpy.random.dirichlet`, the output shuffle) enters as
parameters; float expressions use the exact binary64 model of `F64.lean`.
-/
namespace Btc.TxCreate
open Btc

/-! ## Coin selection -/

structure Utxo where
  id : Nat
  value : Nat
  conf : Nat
  deriving DecidableEq, Repr

def sumU (l : List Utxo) : Nat := (l.map (·.value)).sum

/-- `ORDER BY confirmations DESC, value ASC` -/
def leConfValAsc (a b : Utxo) : Bool := a.conf > b.conf || (a.conf == b.conf && a.value ≤ b.value)
/-- `ORDER BY confirmations DESC, value DESC` -/
def leConfValDesc (a b : Utxo) : Bool := a.conf > b.conf || (a.conf == b.conf && a.value ≥ b.value)

/-- take rows while the running total is below the amount (`for utxo in lessers: if total < amount`) -/
def takeUntil (amount : Nat) : Nat → List Utxo → List Utxo
  | _, [] => []
  | tot, u :: l => if tot < amount then u :: takeUntil amount (tot + u.value) l else []

/-- the rows the accumulation stage draws from: values below the amount,
`ORDER BY confirmations DESC, value DESC`, at most `max_utxos` of them -/
def lessersOf (cands : List Utxo) (amount : Nat) (maxUtxos : Option Nat) : List Utxo :=
  let lessers := (cands.filter fun u => u.value < amount).mergeSort leConfValDesc
  match maxUtxos with | some m => if m = 0 then lessers else lessers.take m | none => lessers

/-- `max_utxos and max_utxos <= 1` -/
def singleOnly (maxUtxos : Option Nat) : Bool := match maxUtxos with | some m => m != 0 && m ≤ 1 | none => false

/-- `Wallet.select_inputs` on the candidate rows (already filtered: unspent, of this wallet /
account / network, `confirmations >= min_confirms`, `value >= dust`) in the order of the query
(`ORDER BY confirmations DESC`).  `[]` = "not enough". -/
def selectInputs (cands : List Utxo) (amount variance : Nat) (maxUtxos : Option Nat) : List Utxo :=
  match cands.find? (fun u => amount ≤ u.value && u.value ≤ amount + variance) with
  | some u => [u]
  | none =>
    match (cands.mergeSort leConfValAsc).find? (fun u => amount ≤ u.value) with
    | some u => [u]
    | none =>
      if singleOnly maxUtxos then []
      else if sumU (takeUntil amount 0 (lessersOf cands amount maxUtxos)) < amount then []
      else takeUntil amount 0 (lessersOf cands amount maxUtxos)

/-! ## Size estimate -/

inductive WT where
  | legacy | segwit | p2shSegwit
  deriving DecidableEq, Repr

structure InpKind where
  wt : WT
  /-- `some (number of keys, signatures required)` for `p2sh_multisig` inputs, `none` for `sig_pubkey` -/
  multisig : Option (Nat × Nat)
  compressed : Bool
  deriving DecidableEq, Repr

/-- bytes counted as witness data of an unsigned input -/
def scrSize (i : InpKind) : Nat :=
  match i.multisig with
  | none => 107 + (if i.compressed then 0 else 33)
  | some (n, m) => 9 + n * 34 + m * 72 + (if i.wt = .p2shSegwit then 17 * m else 0)

/-- bytes of the scriptSig of a nested single-key input (the push of `0014<key hash>`): counted at full weight since the repair of F98 -/
def nestedScriptSig (i : InpKind) : Nat :=
  match i.multisig with
  | none => if i.wt = .p2shSegwit then 24 else 0
  | some _ => 0

/-- length of `varstr(lock_script)` for a script of `n` bytes -/
def varstrLen (n : Nat) : Nat := n + (if n < 253 then 1 else if n ≤ 0xffff then 3 else 5)

/-- `Transaction.estimate_size` for unsigned inputs: (size, vsize) -/
def estimateSize (txwt : WT) (ins : List InpKind) (outLens : List Nat) (nChange : Nat) : Nat × Nat :=
  let base := 12 + (if txwt = .legacy then 0 else 2)
  let (e1, w1) := if ins.isEmpty then (base + 125, 2 + 72) else (base, 2)
  let e2 := e1 + (ins.map fun i => 40 + (if i.wt = .legacy then 0 else 1) + scrSize i + nestedScriptSig i).sum
  let w2 := w1 + (ins.map scrSize).sum
  let e3 := e2 + (outLens.map fun n => 8 + varstrLen n).sum
  let isMs := match ins.head? with | some i => i.multisig.isSome | none => false
  let co := 8 + (match ins.head? with
    | none => 26
    | some i => match i.wt with
      | .legacy => if isMs then 24 else 26
      | .p2shSegwit => 24
      | .segwit => if isMs then 33 else 23)
  let est := e3 + nChange * co
  if txwt = .legacy then (est, est)
  else
    -- math.ceil((((est - wit) * 3 + est) / 4) - 1.5)
    let x := (est - w2) * 3 + est
    (est, (x - 3) / 4)

/-- what `estimate_size` returns: the size for legacy transactions, the vsize otherwise -/
def estRet (txwt : WT) (r : Nat × Nat) : Nat := if txwt = .legacy then r.1 else r.2

/-! ## Fee arithmetic (binary64) -/

/-- `int(size / 1000.0 * fee_per_kb)` -/
def feeFor (size fpk : Nat) : Nat := (fmul (fdiv size 1000) fpk).floor.toNat

/-- `int((fee * 1000.0) / vsize)`, truncation toward zero -/
def rateOf (fee : Int) (vsize : Nat) : Int :=
  let q := fdiv (fmul fee 1000) vsize
  if q ≥ 0 then q.floor else -((-q).floor)

/-! ## `transaction_create` -/

structure Net where
  dust : Nat
  feeMin : Nat
  feeMax : Nat
  deriving Repr

inductive FeeArg where
  | explicit (f : Nat)    -- `fee=<int>`
  | auto                  -- `fee=None`
  | named                 -- `fee='low' | 'normal' | 'high'`
  deriving DecidableEq, Repr

inductive Inputs where
  /-- `input_arr=None`: candidate rows of the utxo query, `max_utxos` -/
  | auto (cands : List Utxo) (maxUtxos : Option Nat)
  /-- explicit `input_arr`: (id, value) of every input -/
  | given (ins : List Utxo)
  deriving Repr

structure Req where
  net : Net
  amounts : List Nat
  outLens : List Nat
  feeArg : FeeArg
  svcFee : Nat                 -- what `Service.estimatefee` returns
  inputs : Inputs
  kind : InpKind               -- the wallet's input kind
  txwt0 : WT                   -- transaction witness type before / after inputs are added
  txwt1 : WT
  nChangeReq : Nat             -- `number_of_change_outputs`
  nChangeRand : Nat            -- value of the `random.randint` draws when `nChangeReq = 0`
  parts : List Nat             -- `((dirichlet * rand_prop) + min_output_value).astype(int)`
  single : Bool                -- wallet scheme 'single': one change key
  deriving Repr

inductive Err where
  | noUtxos | notEnough | outputsGreater | multiChange | notBalanced | feeLow | feeHigh | badRandom | duplicateInput
  deriving DecidableEq, Repr

structure Created where
  ins : List Utxo
  fee : Int
  feePerKb : Int
  change : List Nat           -- change outputs, in key order
  nChange : Nat
  deriving Repr

/-- the multi-change rounding repair: the first amount with `co - diffs > min_output_value` gets
`index(co) + diffs` added -/
def fixParts (parts : List Nat) (diffs : Int) (minOut : Nat) : List Int :=
  let ps : List Int := parts.map Int.ofNat
  match (List.range ps.length).find? (fun i => (ps.getD i 0) - diffs > minOut) with
  | none => ps
  | some i =>
    let co := ps.getD i 0
    let first := (ps.findIdx (· == co))
    ps.set i (co + (first : Int) + diffs)

/-- the allowed values of the resolved number of change outputs when `number_of_change_outputs = 0` -/
def nChangeAllowed (change : Int) (amountOut : Nat) (minOut : Int) : List Nat :=
  if (change : Rat) < fdiv amountOut 10 || change < minOut * 8 then [1]
  else if fdiv change 10 > (amountOut : Rat) then [2, 3, 4, 5]
  else [1, 2, 3, 4]

def amountOut (r : Req) : Nat := r.amounts.sum

def explicitInputs (r : Req) : Bool := match r.inputs with | .given _ => true | .auto _ _ => false

/-- fee estimate before inputs are known: (fee_estimate, fee_per_kb, fee) -/
def stageEstimate (r : Req) : Nat × Option Int × Option Int :=
  let est0 := estRet r.txwt0 (estimateSize r.txwt0 [] r.outLens r.nChangeReq)
  match r.feeArg with
  | .explicit f => (f, none, some (f : Int))
  | .auto => (if explicitInputs r then 0 else feeFor est0 r.svcFee, some (r.svcFee : Int), none)
  | .named => (feeFor est0 r.svcFee, some (r.svcFee : Int), some (feeFor est0 r.svcFee : Int))

/-- the inputs: selected from the candidates, or as given -/
def stageInputs (r : Req) : Except Err (List Utxo) :=
  match r.inputs with
  | .auto cands maxU =>
    if cands.isEmpty then .error Err.noUtxos
    else
      let sel := selectInputs cands (amountOut r + (stageEstimate r).1) r.net.dust maxU
      if sel.isEmpty then .error Err.notEnough else .ok sel
  | .given l => if decide (l.map (·.id)).Nodup then .ok l else .error Err.duplicateInput

structure FeeState where
  fee : Int
  change : Int
  fpk : Option Int
  size : Nat
  vsize : Nat
  deriving Repr

/-- (fee, change, fee_per_kb, fee_per_output) right after the inputs are known -/
def feeTuple (r : Req) (ins : List Utxo) : Int × Int × Option Int × Option Nat :=
  let amountIn := sumU ins
  let size := estRet r.txwt1 (estimateSize r.txwt1 (ins.map fun _ => r.kind) r.outLens r.nChangeReq)
  match (stageEstimate r).2.2 with
  | some f => (f, (amountIn : Int) - (amountOut r + f), (stageEstimate r).2.1, none)
  | none =>
    if !explicitInputs r then
      let fpk := max r.svcFee r.net.feeMin
      let f := feeFor size fpk
      ((f : Int), (amountIn : Int) - (amountOut r + f), some (fpk : Int), some (feeFor 50 fpk))
    else if amountOut r != 0 && amountIn != 0 then ((amountIn : Int) - amountOut r, 0, (stageEstimate r).2.1, none)
    else (0, (amountIn : Int) - amountOut r, (stageEstimate r).2.1, none)

/-- an explicit (or named) fee that the inputs cannot pay -/
def feeShort (r : Req) (ins : List Utxo) : Bool :=
  (stageEstimate r).2.2.isSome && (feeTuple r ins).2.1 < 0

/-- change below the dust limit / below the cost of an output goes to the fee -/
def absorbs (r : Req) (ins : List Utxo) : Bool :=
  let t := feeTuple r ins
  (match t.2.2.2 with | some p => p != 0 && t.2.1 < p | none => false) || t.2.1 ≤ r.net.dust

def feeAfter (r : Req) (ins : List Utxo) : Int :=
  if absorbs r ins then (feeTuple r ins).1 + (feeTuple r ins).2.1 else (feeTuple r ins).1

def changeAfter (r : Req) (ins : List Utxo) : Int :=
  if absorbs r ins then 0 else (feeTuple r ins).2.1

/-- fee and change once the inputs are known, dust absorption, the insufficient-funds guards -/
def stageFee (r : Req) (ins : List Utxo) : Except Err FeeState :=
  if feeShort r ins then .error Err.outputsGreater
  else if changeAfter r ins < 0 || feeAfter r ins < 0 then .error Err.outputsGreater
  else
    let sz := estimateSize r.txwt1 (ins.map fun _ => r.kind) r.outLens r.nChangeReq
    .ok { fee := feeAfter r ins, change := changeAfter r ins, fpk := (feeTuple r ins).2.2.1,
          size := estRet r.txwt1 sz, vsize := sz.2 }

structure ChangeState where
  outs : List Nat
  nChange : Nat
  fpk : Option Int
  vsize : Nat
  deriving Repr

def fpkInChange (s : FeeState) : Option Int :=
  if s.fee != 0 && s.size != 0 && (s.fpk.isNone || s.fpk == some 0) then some (rateOf s.fee s.vsize) else s.fpk

def minOutOf (r : Req) (s : FeeState) : Int :=
  if s.fee != 0 && s.size != 0 then (fpkInChange s).getD 0 + r.net.feeMin * 4 + r.net.dust
  else r.net.dust * 2 + r.net.feeMin * 4

def nChangeOf (r : Req) : Nat := if r.nChangeReq = 0 then r.nChangeRand else r.nChangeReq

def changeAmounts (r : Req) (s : FeeState) : List Int :=
  let amounts : List Int :=
    if nChangeOf r > 1 then fixParts r.parts (s.change - ((r.parts.map Int.ofNat).sum)) (minOutOf r s).toNat
    else [s.change]
  amounts.take (if r.single then 1 else nChangeOf r)

/-- number and amounts of the change outputs -/
def stageChange (r : Req) (ins : List Utxo) (s : FeeState) : Except Err ChangeState :=
  if s.change == 0 then .ok { outs := [], nChange := r.nChangeReq, fpk := s.fpk, vsize := s.vsize }
  else if r.nChangeReq = 0 && !(nChangeAllowed s.change (amountOut r) (minOutOf r s)).contains r.nChangeRand then .error Err.badRandom
  else if nChangeOf r > 1 && s.change / nChangeOf r < minOutOf r s then .error Err.multiChange
  else if (changeAmounts r s).any (· < 0) then .error Err.notBalanced
  else .ok { outs := (changeAmounts r s).map Int.toNat, nChange := nChangeOf r, fpk := fpkInChange s,
             vsize := if r.nChangeReq = 0 then (estimateSize r.txwt1 (ins.map fun _ => r.kind) r.outLens (nChangeOf r)).2 else s.vsize }

/-- the fee rate the limits apply to: the rate the final fee pays on the final size estimate (since the repair of F88; before, a rate
estimated earlier was kept although the fee had absorbed a shortfall or a dust-sized change) -/
def fpkFinal (s : FeeState) (c : ChangeState) : Int := rateOf s.fee c.vsize

/-- the final guards: the transaction balances, the fee rate is inside the network's limits -/
def finalize (r : Req) (ins : List Utxo) (s : FeeState) (c : ChangeState) : Except Err Created :=
  if (sumU ins : Int) != s.fee + amountOut r + (c.outs.sum : Nat) then .error Err.notBalanced
  else if fpkFinal s c < r.net.feeMin then .error Err.feeLow
  else if fpkFinal s c > r.net.feeMax then .error Err.feeHigh
  else .ok { ins := ins, fee := s.fee, feePerKb := fpkFinal s c, change := c.outs, nChange := c.nChange }

def create (r : Req) : Except Err Created :=
  match stageInputs r with
  | .error e => .error e
  | .ok ins =>
    match stageFee r ins with
    | .error e => .error e
    | .ok s =>
      match stageChange r ins s with
      | .error e => .error e
      | .ok c => finalize r ins s c


/-! ## `Wallet.sweep` -/

structure SweepReq where
  values : List Nat            -- values of `utxos(min_confirms)[0:max_utxos]`
  dust : Nat
  fee : Option Nat             -- explicit fee (`None`, `0` and a named fee mean: compute it)
  fpk : Nat                    -- fee per kB used when the fee is computed
  legacy : Bool
  nRequired : Nat              -- `multisig_n_required`
  outs : Option (List Nat)     -- `none`: one address; `some l`: amounts, `0` = "the rest"
  deriving Repr

/-- `int(100 + ((tr_size / 1000.0) * fee_per_kb * fee_modifier))` -/
def sweepFee (nIn nOut nRequired fpk : Nat) (legacy : Bool) : Nat :=
  let trSize := 125 + nIn * (77 + nRequired * 72) + nOut * 30
  let modifier : Rat := if legacy then 1 else roundF64 (3 / 5)
  (roundF64 (100 + fmul (fmul (fdiv trSize 1000) fpk) modifier)).floor.toNat

/-- amounts of the `to_list`: a zero amount becomes what is left (when positive) -/
def sweepList (total fee : Nat) : List Nat → List Nat → List Nat
  | acc, [] => acc
  | acc, o :: rest =>
    if o = 0 then
      let left : Int := (total : Int) - acc.sum - fee
      if left > 0 then sweepList total fee (acc ++ [left.toNat]) rest else sweepList total fee acc rest
    else sweepList total fee (acc ++ [o]) rest

def sweepTotal (r : SweepReq) : Nat := (r.values.filter (· > r.dust)).sum

def sweepFeeOf (r : SweepReq) : Nat :=
  let nIn := (r.values.filter (· > r.dust)).length
  let nOut := match r.outs with | none => 1 | some l => l.length
  match r.fee with
  | some f => if f = 0 then sweepFee nIn nOut r.nRequired r.fpk r.legacy else f
  | none => sweepFee nIn nOut r.nRequired r.fpk r.legacy

def sweepAmounts (r : SweepReq) : List Nat :=
  match r.outs with
  | none => [sweepTotal r - sweepFeeOf r]
  | some l => sweepList (sweepTotal r) (sweepFeeOf r) [] l

/-- more than one target asks for "the rest" (amount 0) -/
def multiRest (r : SweepReq) : Bool :=
  match r.outs with
  | none => false
  | some l => decide ((l.filter (· = 0)).length > 1)

/-- (fee, amounts) of the sweep, `none` when it is refused -/
def sweepPlan (r : SweepReq) : Option (Nat × List Nat) :=
  if multiRest r then none
  else if r.values.isEmpty then none
  else if (sweepTotal r : Int) - (sweepFeeOf r : Int) ≤ (r.dust : Int) then none
  else if (sweepAmounts r).sum + sweepFeeOf r != sweepTotal r then none
  else some (sweepFeeOf r, sweepAmounts r)

/-! ## `Transaction.bumpfee` -/

/-- outputs as (value, is change) -/
abbrev BOut := Nat × Bool

/-- the loop over the change outputs: (remaining fee, outputs kept) -/
def bumpLoop (extra : Nat) : Nat → List BOut → Nat × List BOut
  | rem, [] => (rem, [])
  | rem, (v, false) :: rest => let r := bumpLoop extra rem rest; (r.1, (v, false) :: r.2)
  | rem, (v, true) :: rest =>
    if rem = 0 then (0, (v, true) :: rest)
    else if v > rem * 2 then
      let r := bumpLoop extra 0 rest; (r.1, (v - rem, true) :: r.2)
    else if v < rem then
      bumpLoop extra (rem - v) rest
    else
      bumpLoop extra 0 rest

inductive BumpErr where
  | zeroFee | tooSmall | notEnough
  deriving DecidableEq, Repr

/-- the extra fee a call asks for -/
def bumpExtra (oldFee vsize fee extraFee : Nat) : Except BumpErr Nat :=
  if oldFee = 0 then .error .zeroFee
  else if fee != 0 then (if fee < oldFee + vsize then .error .tooSmall else .ok (fee - oldFee))
  else if extraFee != 0 then (if extraFee < vsize then .error .tooSmall else .ok extraFee)
  else .error .tooSmall

/-- `Transaction.bumpfee(fee=…)` / `bumpfee(extra_fee=…)`: the new outputs -/
def bumpE (oldFee vsize fee extraFee : Nat) (outs : List BOut) : Except BumpErr (List BOut) :=
  match bumpExtra oldFee vsize fee extraFee with
  | .error e => .error e
  | .ok extra =>
    if (bumpLoop extra extra outs).1 != 0 then .error .notEnough else .ok (bumpLoop extra extra outs).2

def bump (oldFee vsize fee extraFee : Nat) (outs : List BOut) : Option (List BOut) :=
  match bumpE oldFee vsize fee extraFee outs with
  | .ok l => some l
  | .error _ => none

/-- `WalletTransaction.add_input_from_wallet`: the first unspent output (in the order of
`Wallet.utxos()`) that the transaction does not spend yet and that is worth at least `amountMin` -/
def pickExtraInput (utxos : List Utxo) (current : List Nat) (amountMin : Nat) : Option Utxo :=
  utxos.find? fun u => !(current.contains u.id) && decide (amountMin ≤ u.value)

/-- the value of an added input goes to the first change output (a new one when there is none) -/
def creditChange (v : Nat) : List BOut → List BOut
  | [] => [(v, true)]
  | (x, true) :: rest => (x + v, true) :: rest
  | (x, false) :: rest => (x, false) :: creditChange v rest

/-- `WalletTransaction.bumpfee(extra_fee=…)`: when the change outputs cannot pay, one more input
is taken from the wallet and credited to the change; result = (input ids, outputs) -/
def walletBump (oldFee vsize extraFee : Nat) (ins : List Nat) (outs : List BOut) (utxos : List Utxo) :
    Except BumpErr (List Nat × List BOut) :=
  match bumpE oldFee vsize 0 extraFee outs with
  | .ok l => .ok (ins, l)
  | .error .notEnough =>
    match pickExtraInput utxos ins extraFee with
    | none => .error .notEnough
    | some u =>
      match bumpE oldFee vsize 0 extraFee (creditChange u.value outs) with
      | .ok l => .ok (ins ++ [u.id], l)
      | .error e => .error e
  | .error e => .error e

def sumB (l : List BOut) : Nat := (l.map (·.1)).sum

end Btc.TxCreate
