/-!
# Wallet ledger (property C08): the database tables of `bitcoinlib.wallets` as lists

A transcription of what `Wallet.utxos_update(utxos=…)` / `utxo_add`, `WalletTransaction.store`,
`WalletTransaction.send` (after a successful push), `WalletTransaction.delete`,
`Wallet._balance_update`, `Wallet.utxos`, `Wallet.balance` do to the tables `transactions`,
`transaction_outputs`, `transaction_inputs` and the `keys.balance` column, for one wallet,
one network and one account.  SQL queries become list filters, `func.sum` becomes `List.sum`.
Transaction ids and key ids are natural numbers.
-/
namespace Btc.Ledger

structure OutRec where
  txid : Nat
  n : Nat
  value : Nat
  key : Option Nat
  spent : Bool
  deriving DecidableEq, Repr

structure InRec where
  tx : Nat       -- the spending transaction
  ptx : Nat      -- previous output: transaction id
  pn : Nat       --                  output index
  deriving DecidableEq, Repr

/-- what `store()` records of a transaction: inputs (prev txid, prev n, value) and outputs
(value, key id when the address belongs to the wallet); output index = position -/
structure TxBody where
  ins : List (Nat × Nat × Nat)
  outs : List (Nat × Option Nat)
  deriving DecidableEq, Repr

structure TxRec where
  txid : Nat
  conf : Nat
  body : Option TxBody      -- `none` for the stub rows that `utxo_add` creates
  deriving DecidableEq, Repr

structure St where
  keys : List Nat
  txs : List TxRec
  outs : List OutRec
  ins : List InRec
  /-- column `keys.balance` -/
  keyBal : List (Nat × Nat)
  /-- `Wallet._balances` entry of the open object for the (network, account) group -/
  cache : Option Nat
  deriving Repr

def init : St := { keys := [], txs := [], outs := [], ins := [], keyBal := [], cache := none }

/-! ## Queries -/

/-- unspent output rows that belong to a key of the wallet -/
def unspentL (outs : List OutRec) : List OutRec := outs.filter fun o => !o.spent && o.key.isSome

def sumValues (l : List OutRec) : Nat := (l.map (·.value)).sum

def keyTotalL (outs : List OutRec) (k : Nat) : Nat :=
  sumValues ((unspentL outs).filter fun o => o.key == some k)

/-- `Wallet.utxos()`: unspent outputs joined with a key of the wallet -/
def unspent (st : St) : List OutRec := unspentL st.outs

def total (st : St) : Nat := sumValues (unspent st)

def keyTotal (st : St) (k : Nat) : Nat := keyTotalL st.outs k

/-- `spent_in_db`: some stored input refers to this outpoint -/
def spentInDb (st : St) (t n : Nat) : Bool := st.ins.any fun i => i.ptx == t && i.pn == n

def hasOut (st : St) (t n : Nat) : Bool := st.outs.any fun o => o.txid == t && o.n == n

def hasTx (st : St) (t : Nat) : Bool := st.txs.any fun x => x.txid == t

def keyBalOf (st : St) (k : Nat) : Nat := ((st.keyBal.find? fun p => p.1 == k).map (·.2)).getD 0

/-- `Wallet.transaction(txid)`: the stored body -/
def lookupTx (st : St) (t : Nat) : Option TxBody := (st.txs.find? fun x => x.txid == t).bind (·.body)

/-! ## `_balance_update` -/

/-- every key of the wallet gets the sum of its unspent outputs (keys without any get 0); the
group total of the open object is overwritten — with 0 when nothing is unspent -/
def balanceUpdate (st : St) : St :=
  { st with keyBal := st.keys.map fun k => (k, keyTotal st k), cache := some (total st) }

/-! ## Operations -/

inductive Op where
  | newKey (k : Nat)
  | utxoAdd (key value txid n conf : Nat)
  | send (txid : Nat) (body : TxBody)
  | delete (txid : Nat)
  | reopen
  | balance
  deriving Repr

inductive Status where
  | ok
  | refused      -- the operation raises and leaves the tables unchanged
  deriving DecidableEq, Repr

def newKey (st : St) (k : Nat) : St × Status :=
  if k ∈ st.keys then (st, .refused)
  else ({ st with keys := st.keys ++ [k], keyBal := st.keyBal ++ [(k, 0)] }, .ok)

/-- `utxos_update(utxos=[u], rescan_all=False)` -/
def utxoAdd (st : St) (key value txid n conf : Nat) : St × Status :=
  if key ∉ st.keys then (st, .refused)
  else
    let sp := spentInDb st txid n
    let st' :=
      if hasOut st txid n then
        { st with
          outs := st.outs.map fun o => if o.txid == txid && o.n == n then { o with key := some key, spent := sp } else o
          txs := st.txs.map fun x => if x.txid == txid then { x with conf := conf } else x }
      else
        { st with
          txs := if hasTx st txid then st.txs else st.txs ++ [{ txid := txid, conf := conf, body := none }]
          outs := st.outs ++ [{ txid := txid, n := n, value := value, key := some key, spent := sp }] }
    (balanceUpdate st', .ok)

def isUnspentOutpoint (st : St) (t n : Nat) : Bool := (unspent st).any fun o => o.txid == t && o.n == n

def outpoints (b : TxBody) : List (Nat × Nat) := b.ins.map fun i => (i.1, i.2.1)

/-- output rows of a newly stored transaction (`store()`): a row whose outpoint a stored input
refers to already (the transaction is stored again after it had been deleted, and a later
transaction consumes its output) is spent from the start -/
def newOuts (st : St) (txid : Nat) (b : TxBody) : List OutRec :=
  ((List.range b.outs.length).zip b.outs).map fun p =>
    { txid := txid, n := p.1, value := p.2.1, key := p.2.2, spent := spentInDb st txid p.1 }

/-- the guard of `send`: no stored row carries the transaction id (stored inputs may: the
transaction was deleted and is stored again), the inputs are distinct outpoints, the keys named by the outputs exist.  The inputs need NOT be
unspent: a transaction object that was built earlier and is sent now (a replacement of a
transaction sent in the meantime) may consume outputs that a stored transaction consumes too. -/
def sendGuard (st : St) (txid : Nat) (b : TxBody) : Bool :=
  !hasTx st txid &&
  decide (outpoints b).Nodup &&
  b.outs.all (fun o => match o.2 with | some k => st.keys.contains k | none => true)

/-- mark an output row spent / unspent when its outpoint is in the list -/
def setSpent (v : Bool) (pts : List (Nat × Nat)) (o : OutRec) : OutRec :=
  if pts.contains (o.txid, o.n) then { o with spent := v } else o

def inRecs (txid : Nat) (b : TxBody) : List InRec := b.ins.map fun i => { tx := txid, ptx := i.1, pn := i.2.1 }

/-- `WalletTransaction.send()` after a successful push: `store()`, then every row of an outpoint
the transaction consumes is marked spent, then `_balance_update`.
The operation is defined (`ok`) under `sendGuard` (the id is the hash of a newly built
transaction); that the wallet never asks for anything else is part of the correspondence. -/
def send (st : St) (txid : Nat) (b : TxBody) : St × Status :=
  if sendGuard st txid b then
    (balanceUpdate { st with
      txs := st.txs ++ [{ txid := txid, conf := 0, body := some b }]
      ins := st.ins ++ inRecs txid b
      outs := (st.outs ++ newOuts st txid b).map (setSpent true (outpoints b)) }, .ok)
  else (st, .refused)

/-- the outpoints a transaction consumes that no OTHER stored transaction consumes -/
def freedBy (st : St) (txid : Nat) : List (Nat × Nat) :=
  ((st.ins.filter fun i => i.tx == txid).map fun i => (i.ptx, i.pn)).filter fun p =>
    !((st.ins.filter fun i => i.tx != txid).any fun i => i.ptx == p.1 && i.pn == p.2)

/-- `WalletTransaction.delete()`: the outputs of the transaction disappear, the outputs it
consumed become unspent again unless another stored transaction consumes them too, its inputs
and its row are removed; then the balances are brought up to date. -/
def delete (st : St) (txid : Nat) : St × Status :=
  if hasTx st txid then
    (balanceUpdate { st with
      outs := (st.outs.filter fun o => o.txid != txid).map (setSpent false (freedBy st txid))
      ins := st.ins.filter fun i => i.tx != txid
      txs := st.txs.filter fun x => x.txid != txid }, .ok)
  else (st, .refused)

/-- `delete` as it was before the repair F103: every consumed output becomes unspent -/
def deletePinned (st : St) (txid : Nat) : St × Status :=
  if hasTx st txid then
    let mine := (st.ins.filter fun i => i.tx == txid).map fun i => (i.ptx, i.pn)
    (balanceUpdate { st with
      outs := (st.outs.filter fun o => o.txid != txid).map (setSpent false mine)
      ins := st.ins.filter fun i => i.tx != txid
      txs := st.txs.filter fun x => x.txid != txid }, .ok)
  else (st, .refused)

/-- a new `Wallet` object on the same database: nothing but the tables survives -/
def reopen (st : St) : St := { st with cache := none }

/-- `Wallet.balance()` runs `_balance_update` and reads the group entry -/
def balance (st : St) : St × Nat :=
  let st' := balanceUpdate st
  (st', st'.cache.getD 0)

def step (st : St) : Op → St × Status
  | .newKey k => newKey st k
  | .utxoAdd key value txid n conf => utxoAdd st key value txid n conf
  | .send txid b => send st txid b
  | .delete txid => delete st txid
  | .reopen => (reopen st, .ok)
  | .balance => ((balance st).1, .ok)

def run (st : St) (ops : List Op) : St := ops.foldl (fun s o => (step s o).1) st

end Btc.Ledger

namespace Btc.Ledger

/-- `_balance_update` of the pinned tree (finding F23): the group entry of the open object is
only overwritten when the group still has unspent outputs -/
def balanceUpdatePinned (st : St) : St :=
  { st with keyBal := st.keys.map fun k => (k, keyTotal st k),
            cache := if (unspent st).isEmpty then st.cache else some (total st) }

end Btc.Ledger
