import BtcModel.Wire
/-!
# Transactions (properties C06, C01): consensus serialisation and an independent strict parser
-/
namespace Btc

/-- stream readers: (value, remaining bytes); `none` on truncated input -/
def readFixed (k : Nat) (bs : Bytes) : Option (Nat × Bytes) :=
  if bs.length < k then none else some (leVal (bs.take k), bs.drop k)

def readBytes (k : Nat) (bs : Bytes) : Option (Bytes × Bytes) :=
  if bs.length < k then none else some (bs.take k, bs.drop k)

/-- CompactSize stream reader (any encoding, canonical or not — like the library's) -/
def readCs : Bytes → Option (Nat × Bytes)
  | [] => none
  | b :: rest =>
    if b.toNat < 253 then some (b.toNat, rest)
    else if b.toNat = 253 then readFixed 2 rest
    else if b.toNat = 254 then readFixed 4 rest
    else readFixed 8 rest

def readVarBytes (bs : Bytes) : Option (Bytes × Bytes) :=
  match readCs bs with
  | none => none
  | some (n, r) => readBytes n r

/-- `csEnc` for values known to fit (callers carry the bound in `WF`) -/
def csE (n : Nat) : Bytes := (csEnc n).getD []

def serVarBytes (b : Bytes) : Bytes := csE b.length ++ b

structure TxIn where
  prevTxid : Bytes        -- 32 bytes, internal (wire) byte order
  vout : Nat
  scriptSig : Bytes
  sequence : Nat
  deriving Repr, DecidableEq

structure TxOut where
  value : Nat
  script : Bytes
  deriving Repr, DecidableEq

structure Tx where
  version : Nat
  ins : List TxIn
  outs : List TxOut
  /-- `some ws` = BIP144 serialisation with one witness stack per input -/
  witness : Option (List (List Bytes))
  locktime : Nat
  deriving Repr, DecidableEq

def TxIn.WF (i : TxIn) : Prop :=
  i.prevTxid.length = 32 ∧ i.vout < 2^32 ∧ i.scriptSig.length < 2^64 ∧ i.sequence < 2^32
def TxOut.WF (o : TxOut) : Prop := o.value < 2^64 ∧ o.script.length < 2^64
def stackWF (st : List Bytes) : Prop := st.length < 2^64 ∧ ∀ it ∈ st, it.length < 2^64
def Tx.WF (t : Tx) : Prop :=
  t.version < 2^32 ∧ t.locktime < 2^32 ∧ t.ins.length < 2^64 ∧ t.outs.length < 2^64 ∧
  (∀ i ∈ t.ins, i.WF) ∧ (∀ o ∈ t.outs, o.WF) ∧
  (match t.witness with
   | none => t.ins ≠ []       -- a legacy serialisation with 0 inputs would read as the segwit marker
   | some ws => ws.length = t.ins.length ∧ ∀ st ∈ ws, stackWF st)

def serIn (i : TxIn) : Bytes :=
  i.prevTxid ++ leBytes i.vout 4 ++ serVarBytes i.scriptSig ++ leBytes i.sequence 4
def serOut (o : TxOut) : Bytes := leBytes o.value 8 ++ serVarBytes o.script
def serStack (st : List Bytes) : Bytes := csE st.length ++ (st.map serVarBytes).flatten

def serIns (l : List TxIn) : Bytes := csE l.length ++ (l.map serIn).flatten
def serOuts (l : List TxOut) : Bytes := csE l.length ++ (l.map serOut).flatten

/-- witness-stripped serialisation (what the txid commits to) -/
def serLegacy (t : Tx) : Bytes :=
  leBytes t.version 4 ++ serIns t.ins ++ serOuts t.outs ++ leBytes t.locktime 4

def serTx (t : Tx) : Bytes :=
  match t.witness with
  | none => serLegacy t
  | some ws =>
    leBytes t.version 4 ++ [0x00, 0x01] ++ serIns t.ins ++ serOuts t.outs ++
      (ws.map serStack).flatten ++ leBytes t.locktime 4

def readIn (bs : Bytes) : Option (TxIn × Bytes) :=
  match readBytes 32 bs with
  | none => none
  | some (txid, r1) =>
    match readFixed 4 r1 with
    | none => none
    | some (vout, r2) =>
      match readVarBytes r2 with
      | none => none
      | some (sc, r3) =>
        match readFixed 4 r3 with
        | none => none
        | some (sq, r4) => some (⟨txid, vout, sc, sq⟩, r4)

def readOut (bs : Bytes) : Option (TxOut × Bytes) :=
  match readFixed 8 bs with
  | none => none
  | some (v, r1) =>
    match readVarBytes r1 with
    | none => none
    | some (sc, r2) => some (⟨v, sc⟩, r2)

/-- read `k` items with reader `rd` -/
def readN {α : Type} (rd : Bytes → Option (α × Bytes)) : Nat → Bytes → Option (List α × Bytes)
  | 0, bs => some ([], bs)
  | k+1, bs =>
    match rd bs with
    | none => none
    | some (a, r) =>
      match readN rd k r with
      | none => none
      | some (as, r') => some (a :: as, r')

def readList {α : Type} (rd : Bytes → Option (α × Bytes)) (bs : Bytes) : Option (List α × Bytes) :=
  match readCs bs with
  | none => none
  | some (n, r) => readN rd n r

def readStack (bs : Bytes) : Option (List Bytes × Bytes) := readList readVarBytes bs

/-- BIP144 marker + flag after the version -/
def isSegwitMarker : Bytes → Bool
  | 0x00 :: 0x01 :: _ => true
  | _ => false

/-- independent strict parser: (transaction, remaining bytes) -/
def parseTx (bs : Bytes) : Option (Tx × Bytes) :=
  match readFixed 4 bs with
  | none => none
  | some (ver, r0) =>
    let segwit := isSegwitMarker r0
    let r1 := if segwit then r0.drop 2 else r0
    match readList readIn r1 with
    | none => none
    | some (ins, r2) =>
      match readList readOut r2 with
      | none => none
      | some (outs, r3) =>
        if segwit then
          match readN readStack ins.length r3 with
          | none => none
          | some (ws, r4) =>
            match readFixed 4 r4 with
            | none => none
            | some (lt, r5) => some (⟨ver, ins, outs, some ws, lt⟩, r5)
        else
          match readFixed 4 r3 with
          | none => none
          | some (lt, r5) => some (⟨ver, ins, outs, none, lt⟩, r5)

end Btc
