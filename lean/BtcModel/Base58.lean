import BtcModel.Bytes
import BtcModel.Dev
/-!
# Base58 / Base58Check (property C11)

Positional conversion between digit lists (most significant first), with the Base58 rule that
each leading zero digit maps to one leading zero digit.  `convert 256 58` is `base58encode`,
`convert 58 256` the decoder; the same function in both directions, so one theorem
(`convert_convert`) gives the round trip *and* canonicity.
-/
namespace Btc

/-- little-endian digits of n in base b, empty for 0; for b < 2 the empty list -/
def digitsLE (b : Nat) (n : Nat) : List Nat :=
  if h : n = 0 ∨ b < 2 then [] else (n % b) :: digitsLE b (n / b)
termination_by n
decreasing_by
  have : n ≠ 0 := fun h' => h (Or.inl h')
  have : 2 ≤ b := by omega
  exact Nat.div_lt_self (by omega) (by omega)

def valLE (b : Nat) : List Nat → Nat
  | [] => 0
  | d :: ds => d + b * valLE b ds

def digitsBE (b n : Nat) : List Nat := (digitsLE b n).reverse
def valBE (b : Nat) (ds : List Nat) : Nat := valLE b ds.reverse

def leadingZeros : List Nat → Nat
  | 0 :: ds => leadingZeros ds + 1
  | _ => 0

/-- Base58-style conversion: leading zero digits are kept one-to-one, the rest is positional. -/
def convert (b1 b2 : Nat) (ds : List Nat) : List Nat :=
  List.replicate (leadingZeros ds) 0 ++ digitsBE b2 (valBE b1 ds)

def b58Alphabet : List Char := "123456789ABCDEFGHJKLMNPQRSTUVWXYZabcdefghijkmnopqrstuvwxyz".toList

def b58Index (c : Char) : Option Nat :=
  let i := b58Alphabet.idxOf c
  if i < 58 then some i else none

def b58Char (d : Nat) : Char := b58Alphabet.getD d '?'

/-- `base58encode` -/
def b58enc (b : Bytes) : List Char := (convert 256 58 (b.map (·.toNat))).map b58Char

/-- strict Base58 decoder -/
def b58dec (s : List Char) : Option Bytes := do
  let ds ← s.mapM b58Index
  pure ((convert 58 256 ds).map UInt8.ofNat)

/-- character lookup of `change_base`: a character that is not in the alphabet is retried in
lower case (so `O` and `I` are read as `o` and `i`) — deviation flag `b58Lower` (finding F27) -/
def b58IndexImpl (lower : Bool) (c : Char) : Option Nat :=
  match b58Index c with
  | some i => some i
  | none => if lower then b58Index c.toLower else none

/-- `change_base(s, 58, 256, min_length)` -/
def changeBase58 (lower : Bool) (s : List Char) (minLen : Nat) : Option Bytes := do
  let ds ← s.mapM (b58IndexImpl lower)
  let out := (convert 58 256 ds).map UInt8.ofNat
  pure (List.replicate (minLen - out.length) 0 ++ out)

/-- Base58Check with a 4-byte checksum from `H` (double SHA-256 in the instantiation) -/
def b58checkEnc (H : Bytes → Bytes) (payload : Bytes) : List Char :=
  b58enc (payload ++ (H payload).take 4)

def b58checkDec (H : Bytes → Bytes) (s : List Char) : Option Bytes := do
  let raw ← b58dec s
  if raw.length < 4 then none else
    let payload := raw.take (raw.length - 4)
    if raw.drop (raw.length - 4) = (H payload).take 4 then some payload else none

end Btc
