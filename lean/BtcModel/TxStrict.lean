import BtcModel.Tx
/-!
# The strict transaction reader (property C06, decode-then-encode direction)

`parseTx` (Tx.lean) reads CompactSize counts in any encoding, canonical or not - like the library.
`parseTxS` is the same reader with one change: a CompactSize is accepted only in its shortest form
(`readCsS`).  "Well-formed serialized transaction" in the property = a byte string `parseTxS` accepts.
-/
namespace Btc

/-- CompactSize reader that accepts the canonical encoding only -/
def readCsS (bs : Bytes) : Option (Nat × Bytes) :=
  match readCs bs with
  | none => none
  | some (n, r) => if csE n ++ r = bs then some (n, r) else none

def readVarBytesS (bs : Bytes) : Option (Bytes × Bytes) :=
  match readCsS bs with
  | none => none
  | some (n, r) => readBytes n r

def readInS (bs : Bytes) : Option (TxIn × Bytes) :=
  match readBytes 32 bs with
  | none => none
  | some (txid, r1) =>
    match readFixed 4 r1 with
    | none => none
    | some (vout, r2) =>
      match readVarBytesS r2 with
      | none => none
      | some (sc, r3) =>
        match readFixed 4 r3 with
        | none => none
        | some (sq, r4) => some (⟨txid, vout, sc, sq⟩, r4)

def readOutS (bs : Bytes) : Option (TxOut × Bytes) :=
  match readFixed 8 bs with
  | none => none
  | some (v, r1) =>
    match readVarBytesS r1 with
    | none => none
    | some (sc, r2) => some (⟨v, sc⟩, r2)

def readListS {α : Type} (rd : Bytes → Option (α × Bytes)) (bs : Bytes) : Option (List α × Bytes) :=
  match readCsS bs with
  | none => none
  | some (n, r) => readN rd n r

def readStackS (bs : Bytes) : Option (List Bytes × Bytes) := readListS readVarBytesS bs

def parseTxS (bs : Bytes) : Option (Tx × Bytes) :=
  match readFixed 4 bs with
  | none => none
  | some (ver, r0) =>
    let segwit := isSegwitMarker r0
    let r1 := if segwit then r0.drop 2 else r0
    match readListS readInS r1 with
    | none => none
    | some (ins, r2) =>
      match readListS readOutS r2 with
      | none => none
      | some (outs, r3) =>
        if segwit then
          match readN readStackS ins.length r3 with
          | none => none
          | some (ws, r4) =>
            match readFixed 4 r4 with
            | none => none
            | some (lt, r5) => some (⟨ver, ins, outs, some ws, lt⟩, r5)
        else
          match readFixed 4 r3 with
          | none => none
          | some (lt, r5) => some (⟨ver, ins, outs, none, lt⟩, r5)

end Btc
