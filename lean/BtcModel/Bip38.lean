import BtcModel.Base58
/-!
# BIP38 (property C15): byte layout of the non-EC-multiplied mode and the freshness discipline of
key generation.  The block cipher and scrypt are parameters.
-/
namespace Btc

def xorBytes (a b : Bytes) : Bytes := (a.zip b).map fun p => p.1 ^^^ p.2

structure Bip38Prims where
  /-- single-block AES-256 encryption / decryption with a 32-byte key -/
  aesEnc : Bytes → Bytes → Bytes
  aesDec : Bytes → Bytes → Bytes

/-- flag byte: 0xe0 compressed, 0xc0 uncompressed -/
def bip38Flag (compressed : Bool) : Byte := if compressed then 0xe0 else 0xc0

/-- non-EC-multiplied BIP38 payload (39 bytes before the checksum) for a 32-byte secret, given the
4-byte address hash and the 64-byte scrypt output for (passphrase, address hash) -/
def bip38Payload (P : Bip38Prims) (secret : Bytes) (compressed : Bool) (addrHash derived : Bytes) : Bytes :=
  let dh1 := derived.take 32
  let dh2 := derived.drop 32
  let e1 := P.aesEnc dh2 (xorBytes (secret.take 16) (dh1.take 16))
  let e2 := P.aesEnc dh2 (xorBytes (secret.drop 16) (dh1.drop 16))
  [0x01, 0x42, bip38Flag compressed] ++ addrHash ++ e1 ++ e2

/-- compression flag of a flag byte (0xe0 / 0x20 compressed, 0xc0 uncompressed) -/
def flagComp (flag : Byte) : Option Bool :=
  if flag = 0xe0 ∨ flag = 0x20 then some true else if flag = 0xc0 then some false else none

/-- decryption of a payload: (secret, compressed, address hash); `none` for a wrong prefix / flag / length -/
def bip38Open (P : Bip38Prims) (payload derived : Bytes) : Option (Bytes × Bool × Bytes) :=
  match payload with
  | 0x01 :: 0x42 :: flag :: rest =>
    if rest.length ≠ 36 then none
    else
      match flagComp flag with
      | none => none
      | some c =>
        let e1 := (rest.drop 4).take 16
        let e2 := rest.drop 20
        let dh1 := derived.take 32
        let dh2 := derived.drop 32
        let p1 := xorBytes (P.aesDec dh2 e1) (dh1.take 16)
        let p2 := xorBytes (P.aesDec dh2 e2) (dh1.drop 16)
        some (p1 ++ p2, c, rest.take 4)
  | _ => none

/-! ## Whole operations: the address hash is the salt and the commitment -/

/-- environment of the two operations: `addrHashOf secret compressed` = first 4 bytes of
sha256d(P2PKH address of the key), `none` when the secret is not a valid key;
`derive salt` = scrypt(NFC(passphrase), salt, 16384, 8, 8, 64) for the passphrase in use -/
structure Bip38Env where
  P : Bip38Prims
  addrHashOf : Bytes → Bool → Option Bytes

def bip38Encrypt (E : Bip38Env) (derive : Bytes → Bytes) (secret : Bytes) (compressed : Bool) : Option Bytes :=
  match E.addrHashOf secret compressed with
  | none => none
  | some ah => some (bip38Payload E.P secret compressed ah (derive ah))

/-- decryption with the passphrase behind `derive`: the decrypted key is returned only when it
hashes to the address hash stored in the payload -/
def bip38Decrypt (E : Bip38Env) (derive : Bytes → Bytes) (payload : Bytes) : Option (Bytes × Bool) :=
  match bip38Open E.P payload (derive ((payload.drop 3).take 4)) with
  | none => none
  | some (sec, c, ah) =>
    if E.addrHashOf sec c == some ah then some (sec, c) else none

/-! ## Freshness of generated keys: an entropy source as explicit state -/

/-- the world: an infinite stream of entropy draws, consumed from the front -/
structure World where
  next : Nat       -- index of the next unused draw
  deriving Repr, DecidableEq

/-- Spec: every call of the key generator consumes a fresh draw -/
def createNewSpec (w : World) : World × Nat := ({ next := w.next + 1 }, w.next)

/-- the pinned tree (finding F11): the default argument `seed=os.urandom(24)` is evaluated once at
import time — every call without an explicit seed uses draw 0 -/
def createNewDefaultArg (w : World) : World × Nat := (w, 0)

def runCalls (f : World → World × Nat) : Nat → World → List Nat
  | 0, _ => []
  | n + 1, w => let (w', d) := f w; d :: runCalls f n w'

end Btc
