import BtcModel.Bytes
import BtcModel.Dev
/-!
# Wire primitives (property C18)

* CompactSize: `csEnc` (Bitcoin Core `WriteCompactSize`), `csEncImpl` (`int_to_varbyteint`),
  `csDec` (`varbyteint_to_int`)
* `varstr`
* script numbers: `encodeNum` / `decodeNum` (`CScriptNum::serialize` / `set_vch`)
* pushes: `dataPack` (`data_pack`), `Cmd`, `serialize`, `tokenize` (consensus `GetOp`),
  `parseImpl` (the command extraction of `Script.parse_bytesio`, without its nested-script and
  whole-blob heuristics, which are described by the predicates `blobTrigger`, `nestTrigger`).
-/
namespace Btc

/-! ## CompactSize -/

/-- canonical CompactSize; `none` for values that do not fit 8 bytes (Python: OverflowError) -/
def csEnc (n : Nat) : Option Bytes :=
  if n < 0xfd then some [UInt8.ofNat n]
  else if n ≤ 0xffff then some (0xfd :: leBytes n 2)
  else if n ≤ 0xffffffff then some (0xfe :: leBytes n 4)
  else if n < 2^64 then some (0xff :: leBytes n 8)
  else none

/-- `int_to_varbyteint` of the code; with `D.varintLt` the comparisons are the strict ones of
the pinned tree (finding F01). -/
def csEncImpl (D : Dev) (n : Nat) : Option Bytes :=
  if n < 0xfd then some [UInt8.ofNat n]
  else if (if D.varintLt then n < 0xffff else n ≤ 0xffff) then some (0xfd :: leBytes n 2)
  else if (if D.varintLt then n < 0xffffffff else n ≤ 0xffffffff) then some (0xfe :: leBytes n 4)
  else if n < 2^64 then some (0xff :: leBytes n 8)
  else none

/-- `varbyteint_to_int` : (value, size); reads what is there when the input is short -/
def csDec : Bytes → Nat × Nat
  | [] => (0, 0)
  | b :: rest =>
    if b.toNat < 253 then (b.toNat, 1)
    else if b.toNat = 253 then (leVal (rest.take 2), 3)
    else if b.toNat = 254 then (leVal (rest.take 4), 5)
    else (leVal (rest.take 8), 9)

/-- a CompactSize prefix is canonical when it uses the shortest form -/
def csCanonical : Bytes → Bool
  | [] => false
  | b :: rest =>
    if b.toNat < 253 then true
    else if b.toNat = 253 then rest.length ≥ 2 && leVal (rest.take 2) ≥ 0xfd
    else if b.toNat = 254 then rest.length ≥ 4 && leVal (rest.take 4) > 0xffff
    else rest.length ≥ 8 && leVal (rest.take 8) > 0xffffffff

/-- length-prefixed string -/
def varstr (s : Bytes) : Option Bytes := (csEnc s.length).map (· ++ s)

/-- `varstr` of the code (F01 through `int_to_varbyteint`, F02 special case) -/
def varstrImpl (D : Dev) (s : Bytes) : Option Bytes :=
  if D.varstrZero && s == [0] then some s else (csEncImpl D s.length).map (· ++ s)

/-! ## Script numbers -/

/-- sign-magnitude little-endian encoding of a positive magnitude -/
def encMag (a : Nat) (neg : Bool) : Bytes :=
  if a < 128 then [UInt8.ofNat (a + (if neg then 128 else 0))]
  else if h : a < 256 then [UInt8.ofNat a, if neg then 0x80 else 0]
  else UInt8.ofNat (a % 256) :: encMag (a / 256) neg
termination_by a
decreasing_by omega

/-- `encode_num` / `CScriptNum::serialize` -/
def encodeNum (z : Int) : Bytes :=
  if z = 0 then [] else encMag z.natAbs (z < 0)

/-- magnitude and sign of a script number byte string -/
def decMag : Bytes → Nat × Bool
  | [] => (0, false)
  | [b] => (b.toNat % 128, decide (b.toNat ≥ 128))
  | b :: c :: rest => let r := decMag (c :: rest); (b.toNat + 256 * r.1, r.2)

/-- `decode_num` / `CScriptNum::set_vch` (no length limit here; callers apply the 4-byte rule) -/
def decodeNum (bs : Bytes) : Int :=
  let r := decMag bs
  if r.2 then - (r.1 : Int) else (r.1 : Int)

/-- minimal encoding rule of consensus (`fRequireMinimal`) -/
def numMinimal : Bytes → Bool
  | [] => true
  | [b] => b.toNat % 128 ≠ 0
  | [b, c] => c.toNat % 128 ≠ 0 || b.toNat ≥ 128
  | _ :: c :: d :: rest => numMinimal (c :: d :: rest)

/-! ## Data pushes and scripts -/

/-- `data_pack`; `none` above 65535 bytes (Python raises `OverflowError`) -/
def dataPack (d : Bytes) : Option Bytes :=
  if d.length ≤ 75 then some (UInt8.ofNat d.length :: d)
  else if d.length ≤ 255 then some (0x4c :: UInt8.ofNat d.length :: d)
  else if d.length ≤ 65535 then some (0x4d :: (leBytes d.length 2 ++ d))
  else none

inductive Cmd where
  | op (b : Byte)
  | data (d : Bytes)
  deriving Repr, DecidableEq, BEq

/-- well-formed command: a non-push opcode, or data of 1..65535 bytes -/
def Cmd.WF : Cmd → Prop
  | Cmd.op b => b.toNat = 0 ∨ b.toNat > 0x4e
  | Cmd.data d => 1 ≤ d.length ∧ d.length ≤ 65535

instance : DecidablePred Cmd.WF := fun c => by
  cases c <;> simp only [Cmd.WF] <;> exact inferInstance

/-- `Script.serialize` -/
def serialize : List Cmd → Option Bytes
  | [] => some []
  | Cmd.op b :: cs => (serialize cs).map (b :: ·)
  | Cmd.data d :: cs => do
    let p ← dataPack d
    let r ← serialize cs
    pure (p ++ r)

/-- push header of consensus `GetOp`: `none` for a non-push opcode, else (length of the length
field, payload length) -/
def pushHdrSpec (b : Byte) (rest : Bytes) : Option (Nat × Nat) :=
  if b.toNat = 0 ∨ b.toNat > 0x4e then none
  else if b.toNat ≤ 75 then some (0, b.toNat)
  else if b.toNat = 0x4c then some (1, leVal (rest.take 1))
  else if b.toNat = 0x4d then some (2, leVal (rest.take 2))
  else some (4, leVal (rest.take 4))

/-- consensus tokeniser (`CScript::GetOp`), fuel = remaining length.
`OP_0` is the token `op 0`. -/
def tokF : Nat → Bytes → Option (List Cmd)
  | _, [] => some []
  | 0, _ :: _ => none
  | f+1, b :: rest =>
    match pushHdrSpec b rest with
    | none => (tokF f rest).map (Cmd.op b :: ·)
    | some (hdr, n) =>
      if rest.length < hdr + n then none
      else (tokF f (rest.drop (hdr + n))).map (Cmd.data ((rest.drop hdr).take n) :: ·)

def tokenize (b : Bytes) : Option (List Cmd) := tokF b.length b

/-- push header as `Script.parse_bytesio` reads it: `OP_PUSHDATA4` is not a push; a missing
length field reads as 0 -/
def pushHdrImpl (b : Byte) (rest : Bytes) : Nat × Nat :=
  if 1 ≤ b.toNat ∧ b.toNat ≤ 75 then (0, b.toNat)
  else if b.toNat = 0x4c then (1, leVal (rest.take 1))
  else if b.toNat = 0x4d then (2, leVal (rest.take 2))
  else (0, 0)

/-- Command extraction loop of `Script.parse_bytesio` (strict mode), *without* the whole-blob
special case and the nested-script heuristic.  Differences to `tokenize` that are kept:
`OP_PUSHDATA4` is not a push; a `PUSHDATA1/2` with length 0 (or a truncated length) becomes the
plain opcode and its length bytes are consumed. -/
def parseF : Nat → Bytes → Option (List Cmd)
  | _, [] => some []
  | 0, _ :: _ => none
  | f+1, b :: rest =>
    let hn := pushHdrImpl b rest
    if hn.2 = 0 then (parseF f (rest.drop hn.1)).map (Cmd.op b :: ·)
    else if rest.length < hn.1 + hn.2 then none
    else (parseF f (rest.drop (hn.1 + hn.2))).map (Cmd.data ((rest.drop hn.1).take hn.2) :: ·)

def parseImpl (b : Bytes) : Option (List Cmd) := parseF b.length b

/-- `get_data_type` yields `'other'` for this item -/
def isOtherData (d : Bytes) : Bool :=
  let n := d.length
  let h := d.headD 0
  !( (h == 0x30 && 69 ≤ n && n ≤ 74) || ((h == 2 || h == 3) && n == 33) || (h == 4 && n == 65)
     || n == 20 || n == 32 || n == 64 || (1 ≤ n && n ≤ 4))

/-- the whole input is taken as one data item by `Script.parse_bytes` (finding F04b) -/
def blobTrigger (b : Bytes) : Bool :=
  let n := b.length
  let h := b.headD 0
  n == 64 || (h == 0x30 && 69 ≤ n && n ≤ 74) || ((h == 2 || h == 3) && n == 33) || (h == 4 && n == 65)

/-- some data item is handed to the level-0 nested-script heuristic (finding F04a):
an item of type `other` that does not directly follow `OP_RETURN`. -/
def nestTriggerAux : Option Cmd → List Cmd → Bool
  | _, [] => false
  | prev, Cmd.data d :: cs =>
    (isOtherData d && prev != some (Cmd.op 0x6a)) || nestTriggerAux (some (Cmd.data d)) cs
  | _, Cmd.op b :: cs => nestTriggerAux (some (Cmd.op b)) cs

def nestTrigger (cs : List Cmd) : Bool := nestTriggerAux none cs

/-- items are "signature"- or "key"-typed: the library parses them (`Signature.parse_bytes`,
`Key(...)`) and may raise on malformed content; reported separately -/
def sigKeyTyped (d : Bytes) : Bool :=
  let n := d.length
  let h := d.headD 0
  (h == 0x30 && 69 ≤ n && n ≤ 74) || ((h == 2 || h == 3) && n == 33) || (h == 4 && n == 65)

end Btc
