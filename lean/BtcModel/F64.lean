/-!
# Exact model of IEEE-754 binary64 arithmetic on rationals (property C17)

Every finite double is a rational; `roundF64` is round-to-nearest-even to 53 significant bits
(normal range only: the amounts handled here are far from overflow and underflow).  CPython's
`float * float`, `float / float`, `float(str)`, `round(x)`, `round(x, k)` and `'%.kf' % x` are all
correctly rounded, so they are expressible exactly with this one function.
-/
namespace Btc

/-- round half to even of a rational to an integer -/
def roundHalfEven (x : Rat) : Int :=
  let f := x.floor
  let r := x - f
  if r < (1 : Rat) / 2 then f
  else if r > (1 : Rat) / 2 then f + 1
  else if f % 2 = 0 then f else f + 1

/-- the exponent e with 2^52 ≤ |x| / 2^e < 2^53, found by search from a fuel bound -/
def f64Exp (ax : Rat) : Int := Id.run do
  -- ax > 0
  let mut e : Int := 0
  let lo : Rat := (2 : Rat) ^ 52
  let hi : Rat := (2 : Rat) ^ 53
  let mut y := ax
  let mut fuel := 2200
  while fuel > 0 do
    fuel := fuel - 1
    if y ≥ hi then
      y := y / 2; e := e + 1
    else if y < lo then
      y := y * 2; e := e - 1
    else
      fuel := 0
  return e

def pow2 (e : Int) : Rat := if e ≥ 0 then (2 : Rat) ^ e.toNat else 1 / (2 : Rat) ^ (-e).toNat

/-- nearest binary64 (ties to even) of a rational -/
def roundF64 (x : Rat) : Rat :=
  if x = 0 then 0 else
    let ax := if x < 0 then -x else x
    let e := f64Exp ax
    let m := roundHalfEven (ax / pow2 e)
    let r := (m : Rat) * pow2 e
    if x < 0 then -r else r

def fmul (a b : Rat) : Rat := roundF64 (a * b)
def fdiv (a b : Rat) : Rat := roundF64 (a / b)

def pow10 (k : Nat) : Rat := (10 : Rat) ^ k

/-- `round(x, k)` of CPython for k ≥ 0: exact decimal rounding (half even) of the double, then to double -/
def pyRoundN (x : Rat) (k : Nat) : Rat := roundF64 ((roundHalfEven (x * pow10 k) : Rat) / pow10 k)

/-- digits of a natural number -/
def natDigits (n : Nat) : String := toString n

/-- `'%.kf' % x` for a double x (given exactly): correctly rounded decimal with k places -/
def fmtFixed (x : Rat) (k : Nat) : String :=
  let neg := x < 0
  let ax := if neg then -x else x
  let scaled := roundHalfEven (ax * pow10 k)
  let s := scaled.toNat
  let ip := s / 10 ^ k
  let fp := s % 10 ^ k
  let fs := toString fp
  let frac := String.ofList (List.replicate (k - fs.length) '0') ++ fs
  (if neg ∧ s ≠ 0 then "-" else "") ++ toString ip ++ (if k = 0 then "" else "." ++ frac)

/-- decimal string → rational (`float(str)` before rounding): digits, optional sign, optional fraction -/
def parseDecimal (s : String) : Option Rat :=
  let cs := s.toList
  let (neg, cs) := match cs with
    | '-' :: r => (true, r)
    | '+' :: r => (false, r)
    | r => (false, r)
  let ip := cs.takeWhile (· ≠ '.')
  let fp := (cs.dropWhile (· ≠ '.')).drop 1
  if (ip ++ fp).isEmpty ∨ !(ip ++ fp).all Char.isDigit then none else
    let toN : List Char → Nat := fun l => l.foldl (fun a c => a * 10 + (c.toNat - 48)) 0
    let v : Rat := (toN ip : Rat) + (toN fp : Rat) / pow10 fp.length
    some (if neg then -v else v)

end Btc
