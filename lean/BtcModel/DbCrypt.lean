import BtcModel.Bytes
/-!
# Field encryption of the wallet database (property C16, last sentence): the decision logic

Transcription of `bitcoinlib/db.py`: `_get_encryption_key`, `EncryptedBinary` and
`EncryptedString` (`process_bind_param` / `process_result_value`).  The columns `DbKey.private`
(`EncryptedBinary`) and `DbKey.wif` (`EncryptedString`) are the only places where a wallet database
holds private key material.

The cipher (`aes_encrypt` / `aes_decrypt`: AES in SIV mode, pycryptodome) and the hash that turns a
password into a key (`double_sha256`) are parameters; what is transcribed is which of the two
environment variables supplies the key, when a value is passed to the cipher and when it is
written or returned as it is.
-/
namespace Btc

/-- Python truthiness of an environment variable read with `os.environ.get`: unset (`None`) and the
empty string are false -/
def envSet : Option Bytes → Bool
  | some (_ :: _) => true
  | _ => false

/-- what `config.py` reads at import: the `database_encryption_enabled` switch of config.ini, the key
(bytes of the hexadecimal text in `DB_FIELD_ENCRYPTION_KEY`), the password (UTF-8 bytes of
`DB_FIELD_ENCRYPTION_PASSWORD`) -/
structure CryptCfg where
  enabled : Bool
  keyEnv : Option Bytes
  pwEnv : Option Bytes
  deriving Repr

/-- `_get_encryption_key`: the key wins over the password; `kdf` = `double_sha256` -/
def selKey (kdf : Bytes → Bytes) (c : CryptCfg) : Option Bytes :=
  if envSet c.keyEnv then c.keyEnv
  else if envSet c.pwEnv then c.pwEnv.map kdf
  else none

/-- the only effect of the config.ini switch: a warning in the log when no key is supplied -/
def warns (c : CryptCfg) : Bool := c.enabled && !(envSet c.keyEnv || envSet c.pwEnv)

/-- a Python value handed to / returned by a column type: `None`, `bytes`, `str` (as UTF-8) -/
inductive PyVal where
  | none
  | bytes (b : Bytes)
  | str (utf8 : Bytes)
  deriving Repr, DecidableEq

/-- result of a column operation -/
inductive ColRes where
  | val (v : PyVal)
  | raises            -- ValueError("Data is encrypted please provide key in environment")
  | cipherErr         -- the cipher refused (wrong key: tag mismatch; wrong key length)
  deriving Repr, DecidableEq

/-- `value is None or self.key is None or not (DB_FIELD_ENCRYPTION_KEY or DB_FIELD_ENCRYPTION_PASSWORD)` -/
def passThrough (kdf : Bytes → Bytes) (c : CryptCfg) (v : PyVal) : Bool :=
  v == .none || (selKey kdf c).isNone || !(envSet c.keyEnv || envSet c.pwEnv)

section
variable (kdf : Bytes → Bytes) (enc : Bytes → Bytes → Bytes) (dec : Bytes → Bytes → Option Bytes)

/-- payload bytes of a value (`bytes(value, 'utf8')` for text) -/
def PyVal.payload : PyVal → Bytes
  | .none => []
  | .bytes b => b
  | .str s => s

/-- `EncryptedBinary.process_bind_param`; the binary column hands its value to the cipher as it is,
and the cipher takes bytes only: text is refused (`TypeError`), never stored -/
def binBind (c : CryptCfg) (v : PyVal) : ColRes :=
  if passThrough kdf c v then .val v
  else match selKey kdf c, v with
    | some _, .str _ => .cipherErr
    | some k, _ => .val (.bytes (enc k v.payload))
    | Option.none, _ => .val v

/-- what a failed write leaves to be read: nothing -/
def ColRes.stored : ColRes → PyVal
  | .val v => v
  | _ => .none

/-- `EncryptedBinary.process_result_value` -/
def binResult (c : CryptCfg) (v : PyVal) : ColRes :=
  if passThrough kdf c v then .val v
  else match selKey kdf c with
    | some k => match dec k v.payload with
      | some p => .val (.bytes p)
      | Option.none => .cipherErr
    | Option.none => .val v

/-- `EncryptedString.process_bind_param` (text is converted to UTF-8 bytes first) -/
def strBind (c : CryptCfg) (v : PyVal) : ColRes :=
  if passThrough kdf c v then .val v
  else match selKey kdf c with
    | some k => .val (.bytes (enc k v.payload))
    | Option.none => .val v

/-- `EncryptedString.process_result_value`: without a key a *bytes* value in the column is refused
(it is a ciphertext written while a key was configured) -/
def strResult (c : CryptCfg) (v : PyVal) : ColRes :=
  if passThrough kdf c v then
    (match v with
     | .bytes _ => .raises
     | _ => .val v)
  else match selKey kdf c with
    | some k => match dec k v.payload with
      | some p => .val (.str p)
      | Option.none => .cipherErr
    | Option.none => .val v

end

/-- the configuration counts as "field encryption switched on" when a key or a password is supplied
(the documented way, `docs/_static/manuals.sqlcipher.rst`) -/
def switchedOn (c : CryptCfg) : Bool := envSet c.keyEnv || envSet c.pwEnv

end Btc
