import BtcModel.F64
/-!
# Amount conversion (property C17): the `Value` pipelines on the exact binary64 model, and the
exact decimal specification.
-/
namespace Btc

/-- the double nearest to 10^-k (what the literal `1e-08` etc. denotes) -/
def fDen (k : Int) : Rat := roundF64 (if k ≥ 0 then pow10 k.toNat else 1 / pow10 (-k).toNat)

/-- the binary64 value of the literal `1e-08` written out (`(1e-08).as_integer_ratio()`); the driver op `amt_lit` shows that it is
`fDen (-8)` and the harness that it is CPython's; C17 `lit1em8_close` bounds its distance from 10^-8 -/
def lit1em8 : Rat := (3022314549036573 : Rat) / 302231454903657293676544

/-- `Value.from_satoshi(n)` on a network with denominator 10^-8: `self.value = float(n) * 1e-08` -/
def fromSatoshiF (n : Nat) : Rat := fmul (roundF64 n) (fDen (-8))

/-- `Value.value_sat`: `round(self.value / 1e-08)` -/
def valueSatF (v : Rat) : Int := roundHalfEven (fdiv v (fDen (-8)))

/-- `value_to_satoshi('<decimal> BTC')`: `float(str) * 1` then `value_sat` -/
def parseToSatoshiF (s : String) : Option Int := (parseDecimal s).map fun q => valueSatF (fmul (roundF64 q) 1)

/-- exact: decimal string (up to 8 decimals) → satoshi; `none` if it is not a whole number of satoshi -/
def parseToSatoshiSpec (s : String) : Option Int :=
  match parseDecimal s with
  | none => none
  | some q => let x := q * pow10 8; if x.floor = x.ceil then some x.floor else none

/-- `Value.from_satoshi(n).str(denominator = 10^e, decimals = k)` : `'%.kf' % round(value / den, k)` -/
def fmtF (n : Nat) (e : Int) (k : Nat) : String :=
  fmtFixed (pyRoundN (fdiv (fromSatoshiF n) (fDen e)) k) k

/-- exact: n satoshi expressed in the unit 10^e coins with k decimals (half-even if digits are cut) -/
def fmtSpec (n : Nat) (e : Int) (k : Nat) : String :=
  let q : Rat := (n : Rat) / pow10 8 / (if e ≥ 0 then pow10 e.toNat else 1 / pow10 (-e).toNat)
  fmtFixed q k

end Btc
