/-!
# `Input.verify` — the signature counting loop (property C02)

`ok j x` = signature number `j` verifies under key number `x` for this input's digest.
Transcribed from `bitcoinlib/transactions.py: Input.verify` (with its "try previous signature"
branch); `fuel` is the number of keys not yet visited.
-/
namespace Btc

def verifyLoop (m S : Nat) (ok : Nat → Nat → Bool) : (fuel : Nat) → (s k v : Nat) → Bool
  | fuel, s, k, v =>
    if v ≥ m then true
    else match fuel with
      | 0 => false                                  -- key_n >= len(keys)
      | f + 1 =>
        if s ≥ S then false                         -- sig_n >= len(signatures)
        else if ok s k then verifyLoop m S ok f (s + 1) (k + 1) (v + 1)
        else if s > 0 && ok (s - 1) k then verifyLoop m S ok f s (k + 1) (v + 1)
        else verifyLoop m S ok f s (k + 1) v

/-- `Input.verify` for a non-coinbase input with `K` keys, `S` signatures, threshold `m` -/
def inputVerify (m K S : Nat) (ok : Nat → Nat → Bool) : Bool :=
  if S = 0 then false else verifyLoop m S ok K 0 0 0

/-- consensus-style m-of-n matching (each signature is consumed once, keys in order) -/
def cmsOrdered (ok : Nat → Nat → Bool) : (sigs : List Nat) → (keys : List Nat) → Bool
  | [], _ => true
  | _ :: _, [] => false
  | s :: ss, k :: ks => if ok s k then cmsOrdered ok ss ks else cmsOrdered ok (s :: ss) ks

/-- the comparison `Input.verify` makes since the repair F101: signature `j` counts for key `x` only
when its hash type byte is the one the digest was made for (`h`) -/
def okTyped (h : Nat) (ht : Nat → Nat) (valid : Nat → Nat → Bool) : Nat → Nat → Bool :=
  fun j x => ht j == h && valid j x

/-- one input as `Transaction.verify` sees it -/
structure VIn where
  /-- the previous transaction id is all zeros (`script_type == 'coinbase'`) -/
  coinbaseTyped : Bool
  vout : Nat
  /-- result of `Input.verify` (always `true` for an input typed coinbase) -/
  sigsOk : Bool
  deriving Repr, DecidableEq

/-- `Transaction.verify` since the repair F102: every input must pass, and an input typed
coinbase passes only as the single null-outpoint input of the transaction -/
def txVerify (ins : List VIn) : Bool :=
  ins.all fun i => if i.coinbaseTyped then (ins.length == 1 && i.vout == 0xffffffff) else i.sigsOk

end Btc
