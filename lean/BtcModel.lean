import BtcModel.Bytes
import BtcModel.Dev
import BtcModel.Wire
