import BtcModel.Wallet.KeyPaths
/-! Helper lemmas for C09: the machine of key rows. -/
namespace Btc.KeyPaths

theorem newRows_spec (ms : Bool) (c : Chain) : ∀ (n index id : Nat) (rs : List KeyRow),
    newRows ms c index id n = some rs →
    rs.map (·.index) = List.range' index n ∧ rs.map (·.id) = List.range' id n ∧
    ∀ r ∈ rs, r.chain = c ∧ r.used = false ∧ pathOf ms c r.index = some r.path
  | 0, index, id, rs, h => by
    simp only [newRows, Option.some.injEq] at h
    subst h; simp
  | n + 1, index, id, rs, h => by
    simp only [newRows] at h
    cases hp : pathOf ms c index with
    | none => simp [hp] at h
    | some p =>
      cases hr : newRows ms c (index + 1) (id + 1) n with
      | none => simp [hp, hr] at h
      | some rs' =>
        simp only [hp, hr, Option.some.injEq] at h
        subst h
        obtain ⟨h1, h2, h3⟩ := newRows_spec ms c n (index + 1) (id + 1) rs' hr
        refine ⟨by simp [h1, List.range'_succ], by simp [h2, List.range'_succ], ?_⟩
        intro r hr'
        rcases List.mem_cons.mp hr' with e | e
        · subst e; exact ⟨rfl, rfl, hp⟩
        · exact h3 r e

theorem maxIndex_none {l : List KeyRow} (h : maxIndex l = none) : l = [] := by
  cases l with
  | nil => rfl
  | cons r l =>
    simp only [maxIndex] at h
    split at h <;> cases h

theorem maxIndex_ge : ∀ {l : List KeyRow} {m : Nat}, maxIndex l = some m → ∀ r ∈ l, r.index ≤ m
  | [], _, h, _, hr => by simp at hr
  | a :: l, m, h, r, hr => by
    simp only [maxIndex] at h
    cases hm : maxIndex l with
    | none =>
      simp only [hm, Option.some.injEq] at h
      have := maxIndex_none hm
      subst this
      simp at hr; subst hr; omega
    | some m' =>
      simp only [hm, Option.some.injEq] at h
      rcases List.mem_cons.mp hr with e | e
      · subst e; omega
      · have := maxIndex_ge hm r e; omega

/-- every index of the chain is below the next index -/
theorem lt_nextIndex (st : St) (c : Chain) : ∀ r ∈ chainRows st c, r.index < nextIndex st c := by
  intro r hr
  unfold nextIndex
  cases hm : maxIndex (chainRows st c) with
  | none => rw [maxIndex_none hm] at hr; simp at hr
  | some m => have := maxIndex_ge hm r hr; simp only; omega

/-- the invariant of the key rows -/
structure Inv (st : St) : Prop where
  paths : ∀ r ∈ st.rows, pathOf st.multisig r.chain r.index = some r.path
  nodup : (st.rows.map fun r => (r.chain, r.index)).Nodup
  ids : ∀ r ∈ st.rows, r.id < st.nextId

theorem inv_init (ms : Bool) : Inv (init ms) := ⟨by simp [init], by simp [init], by simp [init]⟩

theorem nodup_map_inj {α β : Type} (f : α → β) (hf : ∀ a b, f a = f b → a = b) :
    ∀ (l : List α), l.Nodup → (l.map f).Nodup
  | [], _ => by simp
  | a :: l, h => by
    rw [List.nodup_cons] at h
    simp only [List.map_cons, List.nodup_cons, List.mem_map, not_exists, not_and]
    exact ⟨fun x hx e => h.1 (hf _ _ e ▸ hx), nodup_map_inj f hf l h.2⟩

theorem mem_range' {a i n : Nat} (h : a ∈ List.range' i n) : i ≤ a ∧ a < i + n := by
  have := List.mem_range'_1.mp h
  omega

/-- adding rows at indices that are all new keeps the invariant -/
theorem inv_addRows {st : St} (hinv : Inv st) (c : Chain) (index n : Nat) (st' : St) (rs : List KeyRow)
    (hfresh : ∀ r ∈ chainRows st c, r.index < index ∨ index + n ≤ r.index)
    (h : addRows st c index n = some (st', rs)) :
    Inv st' ∧ st'.multisig = st.multisig ∧ st'.rows = st.rows ++ rs ∧
    rs.map (·.index) = List.range' index n ∧ (∀ r ∈ rs, r.chain = c ∧ pathOf st.multisig c r.index = some r.path) := by
  unfold addRows at h
  cases hr : newRows st.multisig c index st.nextId n with
  | none => simp [hr] at h
  | some rs0 =>
    simp only [hr, Option.map_some, Option.some.injEq, Prod.mk.injEq] at h
    obtain ⟨h1, h2⟩ := h
    subst h2; subst h1
    obtain ⟨s1, s2, s3⟩ := newRows_spec st.multisig c n index st.nextId rs0 hr
    refine ⟨⟨?_, ?_, ?_⟩, rfl, rfl, s1, fun r hr' => ⟨(s3 r hr').1, (s3 r hr').2.2⟩⟩
    · intro r hr'
      rcases List.mem_append.mp hr' with e | e
      · exact hinv.paths r e
      · have := s3 r e
        rw [this.1]; exact this.2.2
    · simp only [List.map_append]
      rw [List.nodup_append]
      refine ⟨hinv.nodup, ?_, ?_⟩
      · -- the new rows have distinct indices
        have : (rs0.map fun r => (r.chain, r.index)) = (rs0.map (·.index)).map fun i => (c, i) := by
          rw [List.map_map]
          apply List.map_congr_left
          intro r hr'
          simp [(s3 r hr').1]
        rw [this, s1]
        exact nodup_map_inj _ (fun a b e => by simpa using e) _ (List.nodup_range' (step := 1) (by omega))
      · intro a ha b hb hab
        subst hab
        simp only [List.mem_map] at ha hb
        obtain ⟨r1, hr1, rfl⟩ := ha
        obtain ⟨r2, hr2, he⟩ := hb
        simp only [Prod.mk.injEq] at he
        have hc2 := (s3 r2 hr2).1
        have hi2 : r2.index ∈ List.range' index n := by rw [← s1]; exact List.mem_map.mpr ⟨r2, hr2, rfl⟩
        have hin : r1 ∈ chainRows st c := by
          unfold chainRows
          rw [List.mem_filter]
          exact ⟨hr1, by rw [← he.1, hc2]; simp⟩
        have h1 := hfresh r1 hin
        have h2 := mem_range' hi2
        have h3 := he.2
        omega
    · intro r hr'
      simp only
      rcases List.mem_append.mp hr' with e | e
      · have := hinv.ids r e; omega
      · have : r.id ∈ List.range' st.nextId n := by rw [← s2]; exact List.mem_map.mpr ⟨r, e, rfl⟩
        have := (mem_range' this).2
        omega

theorem inv_newKeys {st : St} (hinv : Inv st) (c : Chain) (n : Nat) (st' : St) (rs : List KeyRow)
    (h : newKeys st c n = some (st', rs)) : Inv st' :=
  (inv_addRows hinv c (nextIndex st c) n st' rs (fun r hr => Or.inl (lt_nextIndex st c r hr)) h).1

theorem inv_markUsed {st : St} (hinv : Inv st) (id : Nat) : Inv (markUsed st id) := by
  unfold markUsed
  refine ⟨?_, ?_, ?_⟩
  · intro r hr
    simp only [List.mem_map] at hr
    obtain ⟨r0, hr0, rfl⟩ := hr
    have := hinv.paths r0 hr0
    split <;> exact this
  · have : (List.map (fun r => (r.chain, r.index)) (List.map (fun r => if (r.id == id) = true then { r with used := true } else r) st.rows))
        = st.rows.map fun r => (r.chain, r.index) := by
      rw [List.map_map]
      apply List.map_congr_left
      intro r _
      simp only [Function.comp]
      split <;> rfl
    simp only
    rw [this]; exact hinv.nodup
  · intro r hr
    simp only [List.mem_map] at hr
    obtain ⟨r0, hr0, rfl⟩ := hr
    have := hinv.ids r0 hr0
    split <;> exact this

theorem inv_step {st : St} (hinv : Inv st) (op : Op) : Inv (step st op) := by
  cases op with
  | newKeys c n =>
    simp only [step]
    cases h : newKeys st c n with
    | none => exact hinv
    | some p => exact inv_newKeys hinv c n p.1 p.2 h
  | getKeys c n =>
    simp only [step]
    cases h : getKeys st c n with
    | none => exact hinv
    | some p =>
      unfold getKeys at h
      simp only at h
      split at h
      · cases h; exact hinv
      · cases hk : newKeys st c (n - ((chainRows st c).filter fun r => !r.used && r.id > lastUsedId st c).length) with
        | none => simp [hk] at h
        | some q =>
          simp only [hk, Option.some.injEq] at h
          subst h
          exact inv_newKeys hinv c _ q.1 q.2 hk
  | markUsed id => exact inv_markUsed hinv id
  | keyForIndex c i =>
    simp only [step]
    cases h : keyForIndex st c i with
    | none => exact hinv
    | some p =>
      unfold keyForIndex at h
      cases hf : (chainRows st c).find? (·.index == i) with
      | some r => simp only [hf, Option.some.injEq] at h; subst h; exact hinv
      | none =>
        simp only [hf] at h
        have hfresh : ∀ r ∈ chainRows st c, r.index < i ∨ i + 1 ≤ r.index := by
          intro r hr
          have := List.find?_eq_none.mp hf r hr
          have : r.index ≠ i := by simpa using this
          omega
        cases ha : addRows st c i 1 with
        | none => simp [ha] at h
        | some q =>
          obtain ⟨st', rs⟩ := q
          have hi := (inv_addRows hinv c i 1 st' rs hfresh ha).1
          simp only [ha] at h
          split at h
          · rename_i st2 r2 heq
            simp only [Option.some.injEq, Prod.mk.injEq] at heq
            cases h
            rw [← heq.1]; exact hi
          · cases h

theorem inv_run {st : St} (hinv : Inv st) (ops : List Op) : Inv (run st ops) := by
  induction ops generalizing st with
  | nil => exact hinv
  | cons op ops ih => exact ih (inv_step hinv op)

end Btc.KeyPaths

namespace Btc.KeyPaths

/-- gap-freeness: the indices of every chain are `0, 1, …, k-1` in creation order -/
def GapFree (st : St) : Prop := ∀ c, (chainRows st c).map (·.index) = List.range (chainRows st c).length

theorem maxIndex_attained : ∀ {l : List KeyRow} {m : Nat}, maxIndex l = some m → ∃ r ∈ l, r.index = m
  | [], _, h => by simp [maxIndex] at h
  | a :: l, m, h => by
    simp only [maxIndex] at h
    cases hm : maxIndex l with
    | none => simp only [hm, Option.some.injEq] at h; exact ⟨a, by simp, h⟩
    | some m' =>
      simp only [hm, Option.some.injEq] at h
      by_cases hle : a.index ≤ m'
      · obtain ⟨r, hr, e⟩ := maxIndex_attained hm
        exact ⟨r, List.mem_cons_of_mem _ hr, by omega⟩
      · exact ⟨a, by simp, by omega⟩

theorem nextIndex_of_gapfree {st : St} (hg : GapFree st) (c : Chain) :
    nextIndex st c = (chainRows st c).length := by
  have hall := lt_nextIndex st c
  have hmap := hg c
  unfold nextIndex at *
  cases hm : maxIndex (chainRows st c) with
  | none => rw [maxIndex_none hm]; rfl
  | some m =>
    simp only [hm] at hall
    obtain ⟨r, hr, e⟩ := maxIndex_attained hm
    have h1 : r.index ∈ (chainRows st c).map (·.index) := List.mem_map.mpr ⟨r, hr, rfl⟩
    rw [hmap, List.mem_range] at h1
    -- the largest index n-1 is below the next index
    have h2 : (chainRows st c).length ≤ m + 1 := by
      by_cases hz : (chainRows st c).length = 0
      · omega
      · have : (chainRows st c).length - 1 ∈ (chainRows st c).map (·.index) := by
          rw [hmap, List.mem_range]; omega
        obtain ⟨r', hr', e'⟩ := List.mem_map.mp this
        have := hall r' hr'
        omega
    simp only
    omega

theorem chainRows_append (st : St) (rs : List KeyRow) (c c' : Chain) (hrs : ∀ r ∈ rs, r.chain = c) :
    chainRows { st with rows := st.rows ++ rs } c' =
      if c' = c then chainRows st c' ++ rs else chainRows st c' := by
  unfold chainRows
  simp only [List.filter_append]
  by_cases e : c' = c
  · subst e
    rw [if_pos rfl]
    congr 1
    rw [List.filter_eq_self]
    intro r hr; simp [hrs r hr]
  · rw [if_neg e]
    have : rs.filter (fun r => r.chain == c') = [] := by
      rw [List.filter_eq_nil_iff]
      intro r hr
      simp only [beq_iff_eq]
      rw [hrs r hr]; exact fun h => e h.symm
    rw [this, List.append_nil]

theorem gapfree_newKeys {st : St} (hinv : Inv st) (hg : GapFree st) (c : Chain) (n : Nat) (st' : St) (rs : List KeyRow)
    (h : newKeys st c n = some (st', rs)) : GapFree st' := by
  unfold newKeys at h
  obtain ⟨_, hms, hrows, hidx, hch⟩ := inv_addRows hinv c (nextIndex st c) n st' rs
    (fun r hr => Or.inl (lt_nextIndex st c r hr)) h
  intro c'
  have hst : st' = { st' with rows := st.rows ++ rs } := by rw [← hrows]
  have hcr : chainRows st' c' = if c' = c then chainRows st c' ++ rs else chainRows st c' := by
    have := chainRows_append st rs c c' (fun r hr => (hch r hr).1)
    unfold chainRows at this ⊢
    rw [hrows]; exact this
  rw [hcr]
  by_cases e : c' = c
  · subst e
    rw [if_pos rfl, List.map_append, hg c', hidx, nextIndex_of_gapfree hg c', List.length_append]
    have : rs.length = n := by have := congrArg List.length hidx; simpa using this
    rw [this, List.range_eq_range', List.range_eq_range']
    have := List.range'_append (s := 0) (m := (chainRows st c').length) (n := n) (step := 1)
    simp only [Nat.one_mul, Nat.zero_add] at this
    exact this
  · rw [if_neg e]; exact hg c'

theorem chainRows_markUsed (st : St) (id : Nat) (c : Chain) :
    (chainRows (markUsed st id) c).map (·.index) = (chainRows st c).map (·.index) := by
  unfold chainRows markUsed
  simp only
  induction st.rows with
  | nil => rfl
  | cons r l ih =>
    simp only [List.map_cons, List.filter_cons]
    have hc : (if (r.id == id) = true then { r with used := true } else r).chain = r.chain := by split <;> rfl
    have hi : (if (r.id == id) = true then { r with used := true } else r).index = r.index := by split <;> rfl
    rw [hc]
    by_cases e : (r.chain == c) = true
    · simp only [e, if_true, List.map_cons, hi, ih]
    · simp only [e]; exact ih

theorem gapfree_markUsed {st : St} (hg : GapFree st) (id : Nat) : GapFree (markUsed st id) := by
  intro c
  have h1 := chainRows_markUsed st id c
  have h2 : (chainRows (markUsed st id) c).length = (chainRows st c).length := by
    have := congrArg List.length h1; simpa using this
  rw [h1, h2]; exact hg c

end Btc.KeyPaths

namespace Btc.KeyPaths

theorem addRows_multisig {st st' : St} {c : Chain} {i n : Nat} {rs : List KeyRow}
    (h : addRows st c i n = some (st', rs)) : st'.multisig = st.multisig := by
  unfold addRows at h
  cases hr : newRows st.multisig c i st.nextId n with
  | none => simp [hr] at h
  | some rs0 =>
    simp only [hr, Option.map_some, Option.some.injEq, Prod.mk.injEq] at h
    rw [← h.1]

theorem step_multisig (st : St) (op : Op) : (step st op).multisig = st.multisig := by
  cases op with
  | newKeys c n =>
    simp only [step]
    cases h : newKeys st c n with
    | none => rfl
    | some p => exact addRows_multisig (rs := p.2) (by unfold newKeys at h; exact h)
  | getKeys c n =>
    simp only [step]
    cases h : getKeys st c n with
    | none => rfl
    | some p =>
      unfold getKeys at h
      simp only at h
      split at h
      · cases h; rfl
      · cases hk : newKeys st c (n - ((chainRows st c).filter fun r => !r.used && r.id > lastUsedId st c).length) with
        | none => simp [hk] at h
        | some q =>
          simp only [hk, Option.some.injEq] at h; subst h
          exact addRows_multisig (rs := q.2) (by unfold newKeys at hk; exact hk)
  | markUsed id => rfl
  | keyForIndex c i =>
    simp only [step]
    cases h : keyForIndex st c i with
    | none => rfl
    | some p =>
      unfold keyForIndex at h
      split at h
      · cases h; rfl
      · cases ha : addRows st c i 1 with
        | none => simp [ha] at h
        | some q =>
          obtain ⟨st', rs⟩ := q
          have hm := addRows_multisig ha
          simp only [ha] at h
          split at h
          · rename_i st2 r2 heq
            simp only [Option.some.injEq, Prod.mk.injEq] at heq
            cases h
            simp only [Option.map_some, Option.getD_some]
            rw [← heq.1]; exact hm
          · cases h

theorem run_multisig (ops : List Op) : ∀ (st : St), (run st ops).multisig = st.multisig := by
  induction ops with
  | nil => intro st; rfl
  | cons op ops ih =>
    intro st
    show (run (step st op) ops).multisig = st.multisig
    rw [ih, step_multisig]

end Btc.KeyPaths
