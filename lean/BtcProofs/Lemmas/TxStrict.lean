import BtcModel.TxStrict
import BtcProofs.Lemmas.Tx
/-! Lemmas for the strict reader: what it accepts re-serialises to the bytes read; it refines `parseTx`. -/
namespace Btc

theorem readCsS_some (bs : Bytes) (n : Nat) (r : Bytes) (h : readCsS bs = some (n, r)) :
    csE n ++ r = bs ∧ readCs bs = some (n, r) := by
  unfold readCsS at h
  split at h
  · simp at h
  · rename_i n' r' e
    split at h
    · rename_i hc
      simp only [Option.some.injEq, Prod.mk.injEq] at h
      obtain ⟨h1, h2⟩ := h
      subst h1; subst h2
      exact ⟨hc, e⟩
    · simp at h

theorem readVarBytesS_some (bs b r : Bytes) (h : readVarBytesS bs = some (b, r)) :
    serVarBytes b ++ r = bs ∧ readVarBytes bs = some (b, r) := by
  unfold readVarBytesS at h
  split at h
  · simp at h
  · rename_i n r1 e
    obtain ⟨a1, a2⟩ := readCsS_some _ _ _ e
    obtain ⟨b1, b2⟩ := readBytes_some _ _ _ _ h
    constructor
    · unfold serVarBytes
      rw [b2, List.append_assoc, b1, a1]
    · unfold readVarBytes
      rw [a2]; exact h

/-- generic: `k` items read with a reader whose accepted input re-serialises -/
theorem readN_some {α : Type} (rd : Bytes → Option (α × Bytes)) (ser : α → Bytes)
    (hrd : ∀ bs a r, rd bs = some (a, r) → ser a ++ r = bs) :
    ∀ (k : Nat) (bs : Bytes) (l : List α) (r : Bytes), readN rd k bs = some (l, r) →
      (l.map ser).flatten ++ r = bs ∧ l.length = k := by
  intro k
  induction k with
  | zero =>
    intro bs l r h
    simp only [readN, Option.some.injEq, Prod.mk.injEq] at h
    obtain ⟨h1, h2⟩ := h
    subst h1; subst h2; simp
  | succ k ih =>
    intro bs l r h
    unfold readN at h
    split at h
    · simp at h
    · rename_i a r1 e
      split at h
      · simp at h
      · rename_i as r' e'
        simp only [Option.some.injEq, Prod.mk.injEq] at h
        obtain ⟨h1, h2⟩ := h
        subst h1; subst h2
        obtain ⟨i1, i2⟩ := ih _ _ _ e'
        have := hrd _ _ _ e
        constructor
        · simp only [List.map_cons, List.flatten_cons, List.append_assoc]
          rw [i1, this]
        · simp [i2]

/-- generic: a reader that refines another one item-wise refines it on `k` items -/
theorem readN_mono {α : Type} (rd rd' : Bytes → Option (α × Bytes))
    (hrd : ∀ bs x, rd bs = some x → rd' bs = some x) :
    ∀ (k : Nat) (bs : Bytes) (x : List α × Bytes), readN rd k bs = some x → readN rd' k bs = some x := by
  intro k
  induction k with
  | zero => intro bs x h; simpa [readN] using h
  | succ k ih =>
    intro bs x h
    unfold readN at h ⊢
    split at h
    · simp at h
    · rename_i a r1 e
      rw [hrd _ _ e]
      split at h
      · simp at h
      · rename_i as r' e'
        simp only [ih _ _ e']
        exact h

theorem readListS_some {α : Type} (rd : Bytes → Option (α × Bytes)) (ser : α → Bytes)
    (hrd : ∀ bs a r, rd bs = some (a, r) → ser a ++ r = bs) (bs : Bytes) (l : List α) (r : Bytes)
    (h : readListS rd bs = some (l, r)) : csE l.length ++ (l.map ser).flatten ++ r = bs := by
  unfold readListS at h
  split at h
  · simp at h
  · rename_i n r1 e
    obtain ⟨a1, _⟩ := readCsS_some _ _ _ e
    obtain ⟨b1, b2⟩ := readN_some rd ser hrd _ _ _ _ h
    rw [b2, List.append_assoc, b1, a1]

theorem readListS_mono {α : Type} (rd rd' : Bytes → Option (α × Bytes))
    (hrd : ∀ bs x, rd bs = some x → rd' bs = some x) (bs : Bytes) (x : List α × Bytes)
    (h : readListS rd bs = some x) : readList rd' bs = some x := by
  unfold readListS at h
  unfold readList
  split at h
  · simp at h
  · rename_i n r1 e
    obtain ⟨_, a2⟩ := readCsS_some _ _ _ e
    rw [a2]
    exact readN_mono rd rd' hrd _ _ _ h

theorem readInS_some (bs : Bytes) (i : TxIn) (r : Bytes) (h : readInS bs = some (i, r)) :
    serIn i ++ r = bs ∧ readIn bs = some (i, r) := by
  unfold readInS at h
  split at h
  · simp at h
  · rename_i txid r1 e1
    split at h
    · simp at h
    · rename_i vout r2 e2
      split at h
      · simp at h
      · rename_i sc r3 e3
        split at h
        · simp at h
        · rename_i sq r4 e4
          simp only [Option.some.injEq, Prod.mk.injEq] at h
          obtain ⟨h1, h2⟩ := h
          subst h1; subst h2
          obtain ⟨a1, _⟩ := readBytes_some _ _ _ _ e1
          obtain ⟨a2, _⟩ := readFixed_some _ _ _ _ e2
          obtain ⟨a3, c3⟩ := readVarBytesS_some _ _ _ e3
          obtain ⟨a4, _⟩ := readFixed_some _ _ _ _ e4
          constructor
          · simp only [serIn, List.append_assoc]
            rw [a4, a3, a2, a1]
          · unfold readIn
            simp only [e1, e2, c3, e4]

theorem readOutS_some (bs : Bytes) (o : TxOut) (r : Bytes) (h : readOutS bs = some (o, r)) :
    serOut o ++ r = bs ∧ readOut bs = some (o, r) := by
  unfold readOutS at h
  split at h
  · simp at h
  · rename_i v r1 e1
    split at h
    · simp at h
    · rename_i sc r2 e2
      simp only [Option.some.injEq, Prod.mk.injEq] at h
      obtain ⟨h1, h2⟩ := h
      subst h1; subst h2
      obtain ⟨a1, _⟩ := readFixed_some _ _ _ _ e1
      obtain ⟨a2, c2⟩ := readVarBytesS_some _ _ _ e2
      constructor
      · simp only [serOut, List.append_assoc]
        rw [a2, a1]
      · unfold readOut
        simp only [e1, c2]

theorem readStackS_some (bs : Bytes) (st : List Bytes) (r : Bytes) (h : readStackS bs = some (st, r)) :
    serStack st ++ r = bs ∧ readStack bs = some (st, r) := by
  constructor
  · have := readListS_some readVarBytesS serVarBytes (fun bs a r h => (readVarBytesS_some bs a r h).1) bs st r h
    simpa [serStack] using this
  · exact readListS_mono readVarBytesS readVarBytes (fun bs x h => (readVarBytesS_some bs x.1 x.2 h).2) bs (st, r) h

end Btc

namespace Btc

/-! ### The strict reader accepts every canonical serialisation -/

theorem readCsS_csE (n : Nat) (h : n < 2^64) (r : Bytes) : readCsS (csE n ++ r) = some (n, r) := by
  unfold readCsS
  rw [readCs_csE n h r]
  simp

theorem readVarBytesS_ser (b r : Bytes) (h : b.length < 2^64) :
    readVarBytesS (serVarBytes b ++ r) = some (b, r) := by
  unfold readVarBytesS serVarBytes
  rw [List.append_assoc, readCsS_csE _ h]
  exact readBytes_append b r

theorem readInS_serIn (i : TxIn) (h : i.WF) (r : Bytes) : readInS (serIn i ++ r) = some (i, r) := by
  obtain ⟨h1, h2, h3, h4⟩ := h
  unfold readInS serIn
  have e1 : i.prevTxid ++ leBytes i.vout 4 ++ serVarBytes i.scriptSig ++ leBytes i.sequence 4 ++ r
      = i.prevTxid ++ (leBytes i.vout 4 ++ (serVarBytes i.scriptSig ++ (leBytes i.sequence 4 ++ r))) := by
    simp [List.append_assoc]
  rw [e1]
  have := readBytes_append i.prevTxid (leBytes i.vout 4 ++ (serVarBytes i.scriptSig ++ (leBytes i.sequence 4 ++ r)))
  rw [h1] at this
  simp only [this, readFixed_le _ 4 _ (by omega : i.vout < 256 ^ 4), readVarBytesS_ser _ _ h3,
    readFixed_le _ 4 _ (by omega : i.sequence < 256 ^ 4)]

theorem readOutS_serOut (o : TxOut) (h : o.WF) (r : Bytes) : readOutS (serOut o ++ r) = some (o, r) := by
  obtain ⟨h1, h2⟩ := h
  unfold readOutS serOut
  rw [List.append_assoc]
  simp only [readFixed_le _ 8 _ (by omega : o.value < 256 ^ 8), readVarBytesS_ser _ _ h2]

theorem readListS_ser {α : Type} (rd : Bytes → Option (α × Bytes)) (ser : α → Bytes) (l : List α)
    (hl : l.length < 2^64) (h : ∀ a ∈ l, ∀ r, rd (ser a ++ r) = some (a, r)) (r : Bytes) :
    readListS rd (csE l.length ++ (l.map ser).flatten ++ r) = some (l, r) := by
  unfold readListS
  rw [List.append_assoc, readCsS_csE _ hl]
  exact readN_ser rd ser l h r

theorem readStackS_serStack (st : List Bytes) (h : stackWF st) (r : Bytes) :
    readStackS (serStack st ++ r) = some (st, r) := by
  unfold readStackS serStack
  exact readListS_ser readVarBytesS serVarBytes st h.1 (fun a ha r => readVarBytesS_ser a r (h.2 a ha)) r

end Btc
