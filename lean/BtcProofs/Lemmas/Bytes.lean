import BtcModel.Bytes
/-! Helper lemmas about little-endian byte strings. -/
namespace Btc

@[simp] theorem leBytes_length (n k : Nat) : (leBytes n k).length = k := by
  induction k generalizing n with
  | zero => rfl
  | succ k ih => simp [leBytes, ih]

theorem toNat_ofNat_mod (n : Nat) : (UInt8.ofNat (n % 256)).toNat = n % 256 := by
  simp [UInt8.toNat_ofNat']

theorem toNat_ofNat_lt {n : Nat} (h : n < 256) : (UInt8.ofNat n).toNat = n := by
  simp [UInt8.toNat_ofNat']; omega

theorem leVal_leBytes (n k : Nat) : leVal (leBytes n k) = n % 256 ^ k := by
  induction k generalizing n with
  | zero => simp [leBytes, leVal, Nat.mod_one]
  | succ k ih =>
    simp only [leBytes, leVal, ih, toNat_ofNat_mod]
    rw [Nat.pow_succ, Nat.mul_comm (256 ^ k) 256, Nat.mod_mul]

theorem leVal_lt (b : Bytes) : leVal b < 256 ^ b.length := by
  induction b with
  | nil => simp [leVal]
  | cons x xs ih =>
    simp only [leVal, List.length_cons, Nat.pow_succ]
    have := x.toNat_lt
    omega

theorem ofNat_toNat (b : UInt8) : UInt8.ofNat b.toNat = b := by
  simp

theorem leBytes_leVal (b : Bytes) : leBytes (leVal b) b.length = b := by
  induction b with
  | nil => rfl
  | cons x xs ih =>
    simp only [leVal, List.length_cons, leBytes]
    have hx := x.toNat_lt
    have h1 : (x.toNat + 256 * leVal xs) % 256 = x.toNat := by omega
    have h2 : (x.toNat + 256 * leVal xs) / 256 = leVal xs := by omega
    rw [h1, h2, ih, ofNat_toNat]

theorem take_leBytes_append (n k : Nat) (r : Bytes) : (leBytes n k ++ r).take k = leBytes n k := by
  simp

theorem drop_leBytes_append (n k : Nat) (r : Bytes) : (leBytes n k ++ r).drop k = r := by
  simp

end Btc
