import BtcModel.Bech32
/-! Bech32 checksum algebra: the polymod step is XOR-linear on 30-bit states and its zero-input
map is injective, hence a change of one value always changes the checksum state. -/
namespace Btc

theorem xor_eq_zero' {a b : Nat} (h : a ^^^ b = 0) : a = b := by
  have h2 : a ^^^ (a ^^^ b) = a ^^^ 0 := by rw [h]
  rw [← Nat.xor_assoc, Nat.xor_self, Nat.zero_xor, Nat.xor_zero] at h2
  exact h2.symm

theorem gen_low5_inj : ∀ t : Fin 32, bech32Gen t.val % 32 = 0 → t.val = 0 := by decide
theorem gen_lt : ∀ t : Fin 32, bech32Gen t.val < 2^30 := by decide
theorem gen_xor : ∀ a b : Fin 32, bech32Gen (a.val ^^^ b.val) = bech32Gen a.val ^^^ bech32Gen b.val := by decide

theorem polyStep_lt (c v : Nat) (hc : c < 2^30) (hv : v < 2^30) : polyStep c v < 2^30 := by
  unfold polyStep
  have ht : c / 2^25 < 32 := by omega
  have hg := gen_lt ⟨c / 2^25, ht⟩
  simp only at hg
  have h1 : (c % 2^25) * 32 < 2^30 := by omega
  exact Nat.xor_lt_two_pow (Nat.xor_lt_two_pow h1 hv) hg

/-- zero-input step -/
def polyT (c : Nat) : Nat := polyStep c 0

theorem polyT_zero_imp (c : Nat) (hc : c < 2^30) (h : polyT c = 0) : c = 0 := by
  unfold polyT polyStep at h
  have htop : c / 2^25 < 32 := by omega
  simp only [Nat.xor_zero] at h
  have heq : (c % 2^25) * 32 = bech32Gen (c / 2^25) := xor_eq_zero' h
  have hm : bech32Gen (c / 2^25) % 32 = 0 := by rw [← heq]; omega
  have ht := gen_low5_inj ⟨c / 2^25, htop⟩ hm
  simp only at ht
  have hg : bech32Gen (c / 2^25) = 0 := by rw [ht]; decide
  omega

theorem polyStep_xor (c1 c2 v1 v2 : Nat) (h1 : c1 < 2^30) (h2 : c2 < 2^30) :
    polyStep (c1 ^^^ c2) (v1 ^^^ v2) = polyStep c1 v1 ^^^ polyStep c2 v2 := by
  unfold polyStep
  have ht1 : c1 / 2^25 < 32 := by omega
  have ht2 : c2 / 2^25 < 32 := by omega
  have hG := gen_xor ⟨c1 / 2^25, ht1⟩ ⟨c2 / 2^25, ht2⟩
  simp only at hG
  rw [Nat.xor_div_two_pow, hG, Nat.xor_mod_two_pow]
  have hm : ∀ a b : Nat, (a ^^^ b) * 32 = a * 32 ^^^ b * 32 := by
    intro a b
    have := @Nat.shiftLeft_xor_distrib 5 a b
    simpa [Nat.shiftLeft_eq] using this
  rw [hm]
  ac_rfl

/-- two runs over the same values from different 30-bit states stay different -/
theorem foldl_polyStep_ne (vs : List Nat) (hvs : ∀ v ∈ vs, v < 2^30) :
    ∀ (c1 c2 : Nat), c1 < 2^30 → c2 < 2^30 → c1 ≠ c2 →
      vs.foldl polyStep c1 ≠ vs.foldl polyStep c2 := by
  induction vs with
  | nil => intro c1 c2 _ _ h; simpa using h
  | cons v vs ih =>
    intro c1 c2 h1 h2 hne
    simp only [List.foldl_cons]
    have hv : v < 2^30 := hvs v (by simp)
    apply ih (fun x hx => hvs x (by simp [hx])) _ _ (polyStep_lt _ _ h1 hv) (polyStep_lt _ _ h2 hv)
    intro heq
    -- the difference of the two next states is T (c1 ^^^ c2)
    have hx := polyStep_xor c1 c2 v v h1 h2
    rw [Nat.xor_self] at hx
    have hd : polyT (c1 ^^^ c2) = 0 := by
      unfold polyT; rw [hx, heq, Nat.xor_self]
    have hlt : c1 ^^^ c2 < 2^30 := Nat.xor_lt_two_pow h1 h2
    have := polyT_zero_imp _ hlt hd
    exact hne (xor_eq_zero' this)

theorem foldl_polyStep_lt (vs : List Nat) (hvs : ∀ v ∈ vs, v < 2^30) (c : Nat) (hc : c < 2^30) :
    vs.foldl polyStep c < 2^30 := by
  induction vs generalizing c with
  | nil => simpa using hc
  | cons v vs ih =>
    simp only [List.foldl_cons]
    exact ih (fun x hx => hvs x (by simp [hx])) _ (polyStep_lt _ _ hc (hvs v (by simp)))

end Btc
