import BtcModel.Wallet.Multisig
/-! Helper lemmas for C10: the slots of `Transaction.sign` (`placeAll`). -/
namespace Btc.Multisig
open Btc

/-- slot `i` is empty or holds `i` -/
def SlotsOk (d : Slots) : Prop := ∀ i, i < d.length → d[i]? = some none ∨ d[i]? = some (some i)

theorem slotsOk_replicate (n : Nat) : SlotsOk (List.replicate n none) := by
  intro i hi
  left
  simp at hi
  simp [hi]

theorem putNew_ok (d : Slots) (p : Nat) (h : SlotsOk d) : SlotsOk (putNew d p) ∧ (putNew d p).length = d.length := by
  unfold putNew
  refine ⟨?_, by simp⟩
  intro i hi
  simp only [List.length_set] at hi
  by_cases hip : p = i
  · subst hip; right; simp [hi]
  · rw [List.getElem?_set_ne hip]; exact h i hi

theorem putKnown_ok (d : Slots) (p : Nat) (h : SlotsOk d) : SlotsOk (putKnown d p) ∧ (putKnown d p).length = d.length := by
  unfold putKnown
  split
  · exact putNew_ok d p h
  · exact ⟨h, rfl⟩

/-- membership after a new signature -/
theorem putNew_mem (d : Slots) (p i : Nat) (hp : p < d.length) :
    (putNew d p)[i]? = some (some i) ↔ (i = p ∨ d[i]? = some (some i)) := by
  unfold putNew
  by_cases hip : p = i
  · subst hip; simp [hp]
  · rw [List.getElem?_set_ne hip]
    constructor
    · intro h; right; exact h
    · intro h; rcases h with h | h
      · exact absurd h.symm hip
      · exact h

theorem putKnown_mem (d : Slots) (p i : Nat) (hp : p < d.length) (h : SlotsOk d) :
    (putKnown d p)[i]? = some (some i) ↔ (i = p ∨ d[i]? = some (some i)) := by
  unfold putKnown
  split
  · exact putNew_mem d p i hp
  · rename_i hne
    constructor
    · intro hh; right; exact hh
    · intro hh; rcases hh with hh | hh
      · subst hh
        rcases h i hp with h1 | h1
        · simp [h1] at hne
        · exact h1
      · exact hh


/-- slot `j` of `d` is empty or holds `k + j` -/
def OkFrom (k : Nat) (d : Slots) : Prop := ∀ j, j < d.length → d[j]? = some none ∨ d[j]? = some (some (k + j))

theorem okFrom_tail {k : Nat} {a : Option Nat} {d : Slots} (h : OkFrom k (a :: d)) : OkFrom (k + 1) d := by
  intro j hj
  have := h (j + 1) (by simp; omega)
  simp only [List.getElem?_cons_succ] at this
  rcases this with h1 | h1
  · left; exact h1
  · right; rw [h1]; congr 2; omega

theorem filterMap_okFrom : ∀ (d : Slots) (k : Nat), OkFrom k d →
    (d.filterMap id).Pairwise (· < ·) ∧ ∀ x, x ∈ d.filterMap id ↔ (k ≤ x ∧ d[x - k]? = some (some x))
  | [], k, _ => by
    refine ⟨by simp, ?_⟩
    intro x; simp
  | a :: d, k, h => by
    have ih := filterMap_okFrom d (k + 1) (okFrom_tail h)
    have h0 := h 0 (by simp)
    simp only [List.getElem?_cons_zero, Nat.add_zero] at h0
    have shift : ∀ x, k + 1 ≤ x → (a :: d)[x - k]? = d[x - (k + 1)]? := by
      intro x hx
      have : x - k = (x - (k + 1)) + 1 := by omega
      rw [this, List.getElem?_cons_succ]
    rcases h0 with ha | ha
    · -- the first slot is empty
      have ha' : a = none := by simpa using ha
      subst ha'
      refine ⟨by simpa using ih.1, ?_⟩
      intro x
      simp only [List.filterMap_cons, id]
      rw [ih.2 x]
      constructor
      · rintro ⟨h1, h2⟩
        exact ⟨by omega, by rw [shift x h1]; exact h2⟩
      · rintro ⟨h1, h2⟩
        by_cases hx : x = k
        · subst hx; simp at h2
        · have h1' : k + 1 ≤ x := by omega
          exact ⟨h1', by rw [← shift x h1']; exact h2⟩
    · -- the first slot holds k
      have ha' : a = some k := by simpa using ha
      subst ha'
      constructor
      · simp only [List.filterMap_cons, id]
        rw [List.pairwise_cons]
        refine ⟨?_, ih.1⟩
        intro y hy
        have := (ih.2 y).mp hy
        omega
      · intro x
        simp only [List.filterMap_cons, id, List.mem_cons]
        rw [ih.2 x]
        constructor
        · rintro (h1 | ⟨h1, h2⟩)
          · subst h1; simp
          · exact ⟨by omega, by rw [shift x h1]; exact h2⟩
        · rintro ⟨h1, h2⟩
          by_cases hx : x = k
          · left; exact hx
          · right
            have h1' : k + 1 ≤ x := by omega
            exact ⟨h1', by rw [← shift x h1']; exact h2⟩


theorem foldl_putNew : ∀ (ps : List Nat) (d : Slots), SlotsOk d → (∀ p ∈ ps, p < d.length) →
    SlotsOk (ps.foldl putNew d) ∧ (ps.foldl putNew d).length = d.length ∧
      ∀ i, (ps.foldl putNew d)[i]? = some (some i) ↔ (i ∈ ps ∨ d[i]? = some (some i))
  | [], d, h, _ => ⟨h, rfl, fun i => by simp⟩
  | p :: ps, d, h, hp => by
    have h1 := putNew_ok d p h
    have ih := foldl_putNew ps (putNew d p) h1.1 (fun q hq => by rw [h1.2]; exact hp q (List.mem_cons_of_mem _ hq))
    simp only [List.foldl_cons]
    refine ⟨ih.1, by rw [ih.2.1, h1.2], ?_⟩
    intro i
    rw [ih.2.2 i, putNew_mem d p i (hp p List.mem_cons_self)]
    simp only [List.mem_cons]
    constructor
    · rintro (a | a | a)
      · exact Or.inl (Or.inr a)
      · exact Or.inl (Or.inl a)
      · exact Or.inr a
    · rintro ((a | a) | a)
      · exact Or.inr (Or.inl a)
      · exact Or.inl a
      · exact Or.inr (Or.inr a)

theorem foldl_putKnown : ∀ (ps : List Nat) (d : Slots), SlotsOk d → (∀ p ∈ ps, p < d.length) →
    SlotsOk (ps.foldl putKnown d) ∧ (ps.foldl putKnown d).length = d.length ∧
      ∀ i, (ps.foldl putKnown d)[i]? = some (some i) ↔ (i ∈ ps ∨ d[i]? = some (some i))
  | [], d, h, _ => ⟨h, rfl, fun i => by simp⟩
  | p :: ps, d, h, hp => by
    have h1 := putKnown_ok d p h
    have ih := foldl_putKnown ps (putKnown d p) h1.1 (fun q hq => by rw [h1.2]; exact hp q (List.mem_cons_of_mem _ hq))
    simp only [List.foldl_cons]
    refine ⟨ih.1, by rw [ih.2.1, h1.2], ?_⟩
    intro i
    rw [ih.2.2 i, putKnown_mem d p i (hp p List.mem_cons_self) h]
    simp only [List.mem_cons]
    constructor
    · rintro (a | a | a)
      · exact Or.inl (Or.inr a)
      · exact Or.inl (Or.inl a)
      · exact Or.inr a
    · rintro ((a | a) | a)
      · exact Or.inr (Or.inl a)
      · exact Or.inl a
      · exact Or.inr (Or.inr a)


end Btc.Multisig
