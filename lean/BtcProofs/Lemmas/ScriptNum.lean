import BtcModel.Wire
import BtcProofs.Lemmas.Bytes
/-! Helper lemmas for script numbers. -/
namespace Btc

theorem encMag_ne_nil (a : Nat) (neg : Bool) : encMag a neg ≠ [] := by
  unfold encMag; split
  · simp
  · split <;> simp

theorem decMag_cons_of_ne_nil (b : Byte) (l : Bytes) (h : l ≠ []) :
    decMag (b :: l) = (b.toNat + 256 * (decMag l).1, (decMag l).2) := by
  cases l with
  | nil => exact absurd rfl h
  | cons c rest => simp [decMag]

theorem decMag_encMag (a : Nat) (neg : Bool) (ha : 0 < a) : decMag (encMag a neg) = (a, neg) := by
  induction a using Nat.strongRecOn with
  | _ a ih =>
    unfold encMag
    split
    · rename_i h1
      cases neg
      · have : (UInt8.ofNat (a + 0)).toNat = a := toNat_ofNat_lt (by omega)
        simp [decMag, this]; omega
      · have : (UInt8.ofNat (a + 128)).toNat = a + 128 := toNat_ofNat_lt (by omega)
        simp [decMag]; omega
    · split
      · rename_i h1 h2
        have : (UInt8.ofNat a).toNat = a := toNat_ofNat_lt h2
        cases neg <;> simp [decMag, this]
      · rename_i h1 h2
        rw [decMag_cons_of_ne_nil _ _ (encMag_ne_nil _ _)]
        rw [ih (a / 256) (by omega) (by omega), toNat_ofNat_mod]
        simp; omega

theorem numMinimal_encMag (a : Nat) (neg : Bool) (ha : 0 < a) : numMinimal (encMag a neg) = true := by
  induction a using Nat.strongRecOn with
  | _ a ih =>
    unfold encMag
    split
    · rename_i h1
      cases neg
      · have : (UInt8.ofNat (a + 0)).toNat = a := toNat_ofNat_lt (by omega)
        simp [numMinimal, this]; omega
      · have : (UInt8.ofNat (a + 128)).toNat = a + 128 := toNat_ofNat_lt (by omega)
        simp [numMinimal, this]; omega
    · split
      · rename_i h1 h2
        have : (UInt8.ofNat a).toNat = a := toNat_ofNat_lt h2
        simp [numMinimal, this]; omega
      · rename_i h1 h2
        have ih' := ih (a / 256) (by omega) (by omega)
        -- the tail is itself an `encMag`, look at its shape
        generalize hl : encMag (a / 256) neg = l at ih'
        match l, hl with
        | [], hl => exact absurd hl (encMag_ne_nil _ _)
        | [c], hl =>
          -- single byte tail: a/256 < 128, so the tail byte has a non-zero magnitude
          have hd := decMag_encMag (a / 256) neg (by omega)
          rw [hl] at hd
          simp [decMag] at hd
          simp [numMinimal]
          left; omega
        | c :: d :: rest, hl =>
          simpa [numMinimal] using ih'

theorem decMag_pos_of_minimal : ∀ (l : Bytes), numMinimal l = true → l ≠ [] → 0 < (decMag l).1
  | [], _, h => absurd rfl h
  | [b], hm, _ => by simp [numMinimal] at hm; simp [decMag]; omega
  | [b, c], hm, _ => by
    simp [numMinimal] at hm
    simp [decMag]; omega
  | b :: c :: d :: rest, hm, _ => by
    have := decMag_pos_of_minimal (c :: d :: rest) (by simpa [numMinimal] using hm) (by simp)
    rw [decMag_cons_of_ne_nil _ _ (by simp)]
    simp only; omega

theorem encMag_decMag : ∀ (l : Bytes), numMinimal l = true → l ≠ [] →
    encMag (decMag l).1 (decMag l).2 = l
  | [], _, h => absurd rfl h
  | [b], hm, _ => by
    have hb := b.toNat_lt
    simp [numMinimal] at hm
    simp only [decMag]
    unfold encMag
    rw [if_pos (by omega)]
    by_cases h : b.toNat ≥ 128
    · simp only [h, decide_true, if_true]
      have : b.toNat % 128 + 128 = b.toNat := by omega
      rw [this, ofNat_toNat]
    · simp only [h, decide_false]
      have : b.toNat % 128 + 0 = b.toNat := by omega
      simp only [Bool.false_eq_true, if_false, this, ofNat_toNat]
  | [b, c], hm, _ => by
    have hb := b.toNat_lt
    have hc := c.toNat_lt
    simp [numMinimal] at hm
    simp only [decMag]
    by_cases hz : c.toNat % 128 = 0
    · -- magnitude is b ≥ 128, < 256
      have hb2 : 128 ≤ b.toNat := by omega
      unfold encMag
      rw [if_neg (by omega), dif_pos (by omega)]
      have e1 : b.toNat + 256 * (c.toNat % 128) = b.toNat := by omega
      rw [e1, ofNat_toNat]
      by_cases h : c.toNat ≥ 128
      · have : c = 0x80 := by apply UInt8.toNat_inj.mp; simp; omega
        simp [h, this]
      · have : c = 0 := by apply UInt8.toNat_inj.mp; simp; omega
        simp [this]
    · unfold encMag
      rw [if_neg (by omega), dif_neg (by omega)]
      have e1 : (b.toNat + 256 * (c.toNat % 128)) % 256 = b.toNat := by omega
      have e2 : (b.toNat + 256 * (c.toNat % 128)) / 256 = c.toNat % 128 := by omega
      rw [e1, e2, ofNat_toNat]
      unfold encMag
      rw [if_pos (by omega)]
      by_cases h : c.toNat ≥ 128
      · simp only [h, decide_true, if_true]
        have : c.toNat % 128 + 128 = c.toNat := by omega
        rw [this, ofNat_toNat]
      · simp only [h, decide_false]
        have : c.toNat % 128 + 0 = c.toNat := by omega
        simp only [Bool.false_eq_true, if_false, this, ofNat_toNat]
  | b :: c :: d :: rest, hm, _ => by
    have hb := b.toNat_lt
    have hm' : numMinimal (c :: d :: rest) = true := by simpa [numMinimal] using hm
    have ih := encMag_decMag (c :: d :: rest) hm' (by simp)
    have hpos := decMag_pos_of_minimal (c :: d :: rest) hm' (by simp)
    rw [decMag_cons_of_ne_nil _ _ (by simp)]
    simp only
    generalize (decMag (c :: d :: rest)).1 = m at *
    unfold encMag
    rw [if_neg (by omega), dif_neg (by omega)]
    have e1 : (b.toNat + 256 * m) % 256 = b.toNat := by omega
    have e2 : (b.toNat + 256 * m) / 256 = m := by omega
    rw [e1, e2, ofNat_toNat, ih]

theorem encMag_length_le_1 (a : Nat) (neg : Bool) : (encMag a neg).length ≤ 1 ↔ a < 2^7 := by
  unfold encMag
  split
  · simp; omega
  · split
    · simp; omega
    · have := encMag_ne_nil (a / 256) neg
      have : 0 < (encMag (a / 256) neg).length := List.length_pos_iff.mpr this
      simp only [List.length_cons]; omega

theorem encMag_length_le_succ (k : Nat) (B : Nat) (hB : 128 ≤ B)
    (ih : ∀ a neg, (encMag a neg).length ≤ k + 1 ↔ a < B) (a : Nat) (neg : Bool) :
    (encMag a neg).length ≤ k + 2 ↔ a < 256 * B := by
  unfold encMag
  split
  · simp; omega
  · split
    · simp; omega
    · have := ih (a / 256) neg
      simp only [List.length_cons]
      constructor
      · intro h; have := this.mp (by omega); omega
      · intro h; have := this.mpr (by omega); omega

end Btc
