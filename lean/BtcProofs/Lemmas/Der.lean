import BtcModel.Ecdsa
import BtcProofs.Lemmas.Bytes
/-! Helper lemmas: minimal byte strings and strict DER integers. -/
namespace Btc

theorem leBytesMin_zero : leBytesMin 0 = [] := by
  rw [leBytesMin]; simp

theorem leBytesMin_pos {n : Nat} (h : n ≠ 0) :
    leBytesMin n = UInt8.ofNat (n % 256) :: leBytesMin (n / 256) := by
  rw [leBytesMin]; simp [h]

theorem leVal_leBytesMin (n : Nat) : leVal (leBytesMin n) = n := by
  induction n using Nat.strongRecOn with
  | _ n ih =>
    by_cases h : n = 0
    · subst h; rw [leBytesMin_zero]; rfl
    · rw [leBytesMin_pos h]
      simp only [leVal]
      rw [ih (n / 256) (by omega), toNat_ofNat_mod]
      omega

theorem leBytesMin_length (n : Nat) : ∀ k, n < 256 ^ k → (leBytesMin n).length ≤ k := by
  induction n using Nat.strongRecOn with
  | _ n ih =>
    intro k hk
    by_cases h : n = 0
    · subst h; rw [leBytesMin_zero]; simp
    · rw [leBytesMin_pos h]
      cases k with
      | zero => simp at hk; omega
      | succ k =>
        simp only [List.length_cons]
        have : n / 256 < 256 ^ k := by
          rw [Nat.pow_succ] at hk
          exact Nat.div_lt_of_lt_mul (by omega)
        have := ih (n / 256) (by omega) k this
        omega

/-- the most significant byte of the minimal form is not zero -/
theorem leBytesMin_getLast (n : Nat) (h : n ≠ 0) :
    ∃ b, (leBytesMin n).getLast? = some b ∧ b.toNat ≠ 0 := by
  induction n using Nat.strongRecOn with
  | _ n ih =>
    rw [leBytesMin_pos h]
    by_cases h2 : n / 256 = 0
    · rw [h2, leBytesMin_zero]
      refine ⟨UInt8.ofNat (n % 256), rfl, ?_⟩
      rw [toNat_ofNat_mod]; omega
    · obtain ⟨b, hb, hb0⟩ := ih (n / 256) (by omega) h2
      refine ⟨b, ?_, hb0⟩
      rw [List.getLast?_cons]
      rw [hb]; rfl

theorem leBytesMin_ne_nil {n : Nat} (h : n ≠ 0) : leBytesMin n ≠ [] := by
  rw [leBytesMin_pos h]; simp

/-- minimal big-endian form -/
def beMin (n : Nat) : Bytes := (leBytesMin n).reverse

theorem beVal_beMin (n : Nat) : beVal (beMin n) = n := by
  simp [beVal, beMin, leVal_leBytesMin]

theorem beMin_head (n : Nat) (h : n ≠ 0) : ∃ b l, beMin n = b :: l ∧ b.toNat ≠ 0 := by
  obtain ⟨b, hb, hb0⟩ := leBytesMin_getLast n h
  unfold beMin
  have : (leBytesMin n).reverse.head? = some b := by rw [List.head?_reverse]; exact hb
  cases hr : (leBytesMin n).reverse with
  | nil => rw [hr] at this; cases this
  | cons x l =>
    rw [hr] at this
    simp only [List.head?_cons, Option.some.injEq] at this
    exact ⟨x, l, rfl, this ▸ hb0⟩

theorem beMin_length (n k : Nat) (h : n < 256 ^ k) : (beMin n).length ≤ k := by
  simp only [beMin, List.length_reverse]; exact leBytesMin_length n k h

theorem beVal_cons_zero (l : Bytes) : beVal (0 :: l) = beVal l := by
  simp [beVal, leVal, List.reverse_cons]
  induction l.reverse with
  | nil => simp [leVal]
  | cons a t ih => simp [leVal, ih]

/-- what `derInt` produces for a positive integer below 2^256 -/
theorem derInt_spec (n : Nat) (h1 : 1 ≤ n) (h2 : n < 2 ^ 256) :
    beVal (derInt n) = n ∧ 1 ≤ (derInt n).length ∧ (derInt n).length ≤ 33 ∧ derIntOk (derInt n) = true := by
  have hn : n ≠ 0 := by omega
  obtain ⟨b, l, hbl, hb0⟩ := beMin_head n hn
  have hlen : (beMin n).length ≤ 32 := beMin_length n 32 (by
    have : (256 : Nat) ^ 32 = 2 ^ 256 := by decide
    omega)
  have hval := beVal_beMin n
  unfold derInt
  have e1 : (leBytesMin n).reverse = b :: l := hbl
  simp only [e1, List.isEmpty_cons, Bool.false_eq_true, if_false, List.headD_cons]
  rw [hbl] at hlen hval
  by_cases hhi : b.toNat ≥ 0x80
  · simp only [hhi, if_true]
    refine ⟨by rw [beVal_cons_zero]; exact hval, by simp, by simp at hlen ⊢; omega, ?_⟩
    unfold derIntOk
    simp only [List.isEmpty_cons, Bool.not_false, List.headD_cons, List.drop_succ_cons, List.drop_zero, Bool.true_and]
    have : (0 : UInt8).toNat = 0 := rfl
    simp [this]
    omega
  · simp only [hhi, if_false]
    refine ⟨hval, by simp, by simp at hlen ⊢; omega, ?_⟩
    unfold derIntOk
    simp only [List.isEmpty_cons, Bool.not_false, List.headD_cons, Bool.true_and]
    have hlt : b.toNat < 128 := by omega
    simp [hlt, hb0]

end Btc
