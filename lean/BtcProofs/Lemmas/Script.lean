import BtcModel.Wire
import BtcProofs.Lemmas.Bytes
/-! Helper lemmas: pushes and the script tokeniser. -/
namespace Btc

/-- what follows a packed item: header as both readers see it -/
theorem pack_shape (d : Bytes) (p : Bytes) (h : dataPack d = some p) (h1 : 1 ≤ d.length) :
    ∃ b hdrBytes, p = b :: (hdrBytes ++ d) ∧
      (∀ r, pushHdrSpec b (hdrBytes ++ d ++ r) = some (hdrBytes.length, d.length)) ∧
      (∀ r, pushHdrImpl b (hdrBytes ++ d ++ r) = (hdrBytes.length, d.length)) := by
  unfold dataPack at h
  split at h
  · rename_i hl
    cases h
    refine ⟨UInt8.ofNat d.length, [], by simp, ?_, ?_⟩
    · intro r
      have : (UInt8.ofNat d.length).toNat = d.length := toNat_ofNat_lt (by omega)
      unfold pushHdrSpec
      rw [this, if_neg (by omega), if_pos hl]; rfl
    · intro r
      have : (UInt8.ofNat d.length).toNat = d.length := toNat_ofNat_lt (by omega)
      unfold pushHdrImpl
      rw [this, if_pos ⟨h1, hl⟩]; rfl
  · split at h
    · rename_i hl hl2
      cases h
      have e : (0x4c : UInt8).toNat = 76 := by decide
      have e2 : (UInt8.ofNat d.length).toNat = d.length := toNat_ofNat_lt (by omega)
      refine ⟨0x4c, [UInt8.ofNat d.length], by simp, ?_, ?_⟩
      · intro r
        unfold pushHdrSpec
        simp [e, leVal, e2]
      · intro r
        unfold pushHdrImpl
        simp [e, leVal, e2]
    · split at h
      · rename_i hl hl2 hl3
        cases h
        have e : (0x4d : UInt8).toNat = 77 := by decide
        refine ⟨0x4d, leBytes d.length 2, by simp, ?_, ?_⟩
        · intro r
          unfold pushHdrSpec
          have : (leBytes d.length 2 ++ d ++ r).take 2 = leBytes d.length 2 := by
            rw [List.append_assoc]; exact take_leBytes_append _ _ _
          simp only [e, this, leVal_leBytes, leBytes_length]
          simp; omega
        · intro r
          unfold pushHdrImpl
          have : (leBytes d.length 2 ++ d ++ r).take 2 = leBytes d.length 2 := by
            rw [List.append_assoc]; exact take_leBytes_append _ _ _
          simp only [e, this, leVal_leBytes, leBytes_length]
          simp; omega
      · cases h

theorem pushHdrSpec_op (b : Byte) (rest : Bytes) (h : b.toNat = 0 ∨ b.toNat > 0x4e) :
    pushHdrSpec b rest = none := by
  unfold pushHdrSpec; rw [if_pos h]

theorem pushHdrImpl_op (b : Byte) (rest : Bytes) (h : b.toNat = 0 ∨ b.toNat > 0x4e) :
    pushHdrImpl b rest = (0, 0) := by
  unfold pushHdrImpl
  rw [if_neg (by omega), if_neg (by omega), if_neg (by omega)]

theorem serialize_length_data (d : Bytes) (cs : List Cmd) (bs : Bytes)
    (h : serialize (Cmd.data d :: cs) = some bs) :
    ∃ p r, dataPack d = some p ∧ serialize cs = some r ∧ bs = p ++ r := by
  simp only [serialize] at h
  cases hp : dataPack d with
  | none => simp [hp] at h
  | some p =>
    cases hr : serialize cs with
    | none => simp [hp, hr] at h
    | some r =>
      simp [hp, hr] at h
      exact ⟨p, r, rfl, rfl, h.symm⟩

theorem tokF_serialize : ∀ (cs : List Cmd), (∀ c ∈ cs, c.WF) → ∀ bs, serialize cs = some bs →
    ∀ f, bs.length ≤ f → tokF f bs = some cs
  | [], _, bs, h, f, _ => by
    simp [serialize] at h; subst h; cases f <;> simp [tokF]
  | Cmd.op b :: cs, hwf, bs, h, f, hf => by
    simp only [serialize] at h
    cases hr : serialize cs with
    | none => simp [hr] at h
    | some r =>
      simp [hr] at h; subst h
      cases f with
      | zero => simp at hf
      | succ f =>
        have hb : (Cmd.op b).WF := hwf _ (by simp)
        simp only [tokF, pushHdrSpec_op b r hb]
        rw [tokF_serialize cs (fun c hc => hwf c (by simp [hc])) r hr f (by simpa using hf)]
        rfl
  | Cmd.data d :: cs, hwf, bs, h, f, hf => by
    obtain ⟨p, r, hp, hr, rfl⟩ := serialize_length_data d cs bs h
    have hd : (Cmd.data d).WF := hwf _ (by simp)
    obtain ⟨b, hb, rfl, hspec, _⟩ := pack_shape d p hp hd.1
    cases f with
    | zero => simp at hf
    | succ f =>
      simp only [List.cons_append, tokF, hspec r]
      have hlen : ¬ (hb ++ d ++ r).length < hb.length + d.length := by simp
      rw [if_neg hlen]
      have e1 : (hb ++ d ++ r).drop (hb.length + d.length) = r := by
        rw [← List.length_append]; simp
      have e2 : ((hb ++ d ++ r).drop hb.length).take d.length = d := by
        rw [List.append_assoc]; simp
      rw [e1, e2, tokF_serialize cs (fun c hc => hwf c (by simp [hc])) r hr f
        (by simp at hf; omega)]
      rfl

theorem parseF_serialize : ∀ (cs : List Cmd), (∀ c ∈ cs, c.WF) → ∀ bs, serialize cs = some bs →
    ∀ f, bs.length ≤ f → parseF f bs = some cs
  | [], _, bs, h, f, _ => by
    simp [serialize] at h; subst h; cases f <;> simp [parseF]
  | Cmd.op b :: cs, hwf, bs, h, f, hf => by
    simp only [serialize] at h
    cases hr : serialize cs with
    | none => simp [hr] at h
    | some r =>
      simp [hr] at h; subst h
      cases f with
      | zero => simp at hf
      | succ f =>
        have hb : (Cmd.op b).WF := hwf _ (by simp)
        simp only [parseF, pushHdrImpl_op b r hb]
        simp only [if_true, List.drop_zero]
        rw [parseF_serialize cs (fun c hc => hwf c (by simp [hc])) r hr f (by simpa using hf)]
        rfl
  | Cmd.data d :: cs, hwf, bs, h, f, hf => by
    obtain ⟨p, r, hp, hr, rfl⟩ := serialize_length_data d cs bs h
    have hd : (Cmd.data d).WF := hwf _ (by simp)
    obtain ⟨b, hb, rfl, _, himpl⟩ := pack_shape d p hp hd.1
    cases f with
    | zero => simp at hf
    | succ f =>
      simp only [List.cons_append, parseF, himpl r]
      have hn : ¬ d.length = 0 := by have := hd.1; omega
      rw [if_neg hn]
      have hlen : ¬ (hb ++ d ++ r).length < hb.length + d.length := by simp
      rw [if_neg hlen]
      have e1 : (hb ++ d ++ r).drop (hb.length + d.length) = r := by
        rw [← List.length_append]; simp
      have e2 : ((hb ++ d ++ r).drop hb.length).take d.length = d := by
        rw [List.append_assoc]; simp
      rw [e1, e2, parseF_serialize cs (fun c hc => hwf c (by simp [hc])) r hr f
        (by simp at hf; omega)]
      rfl

theorem serialize_isSome (cs : List Cmd) (h : ∀ c ∈ cs, c.WF) : (serialize cs).isSome := by
  induction cs with
  | nil => simp [serialize]
  | cons c cs ih =>
    have ih' := ih (fun c hc => h c (by simp [hc]))
    cases c with
    | op b =>
      simp only [serialize]
      cases hr : serialize cs <;> simp_all
    | data d =>
      have hd : (Cmd.data d).WF := h _ (by simp)
      simp only [serialize]
      have : (dataPack d).isSome := by
        unfold dataPack
        have := hd.2
        repeat' split
        all_goals first | simp | omega
      cases hp : dataPack d <;> cases hr : serialize cs <;> simp_all

end Btc
