import BtcModel.Base58
/-! Positional digit lemmas (any base ≥ 2): the content of Base58 round trip and canonicity. -/
namespace Btc

theorem valLE_digitsLE (b : Nat) (hb : 2 ≤ b) (n : Nat) : valLE b (digitsLE b n) = n := by
  induction n using Nat.strongRecOn with
  | _ n ih =>
    unfold digitsLE
    split
    · rename_i h
      cases h with
      | inl h => simp [valLE, h]
      | inr h => omega
    · rename_i h
      have hn : n ≠ 0 := fun h' => h (Or.inl h')
      have hlt : n / b < n := Nat.div_lt_self (by omega) (by omega)
      simp only [valLE, ih (n / b) hlt]
      have := Nat.div_add_mod n b
      omega

/-- canonical LE digit lists: all digits < b and the most significant (last) one non-zero -/
def CanonLE (b : Nat) : List Nat → Prop
  | [] => True
  | [d] => d < b ∧ d ≠ 0
  | d :: e :: ds => d < b ∧ CanonLE b (e :: ds)

theorem valLE_pos_of_canon (b : Nat) (hb : 2 ≤ b) : ∀ ds, ds ≠ [] → CanonLE b ds → 0 < valLE b ds
  | [], h, _ => absurd rfl h
  | [d], _, hc => by simp [CanonLE] at hc; simp [valLE]; omega
  | d :: e :: ds, _, hc => by
    have ih := valLE_pos_of_canon b hb (e :: ds) (by simp) hc.2
    simp only [valLE] at ih ⊢
    have : 0 < b * (e + b * valLE b ds) := Nat.mul_pos (by omega) ih
    omega

theorem digitsLE_zero (b : Nat) : digitsLE b 0 = [] := by
  unfold digitsLE; simp

theorem digitsLE_valLE (b : Nat) (hb : 2 ≤ b) : ∀ ds, CanonLE b ds → digitsLE b (valLE b ds) = ds
  | [], _ => by simp [valLE, digitsLE_zero]
  | [d], hc => by
    simp [CanonLE] at hc
    have h1 : valLE b [d] = d := by simp [valLE]
    rw [h1]
    unfold digitsLE
    rw [dif_neg (by omega)]
    rw [Nat.mod_eq_of_lt hc.1, Nat.div_eq_of_lt hc.1, digitsLE_zero]
  | d :: e :: ds, hc => by
    have hpos := valLE_pos_of_canon b hb (e :: ds) (by simp) hc.2
    have ih := digitsLE_valLE b hb (e :: ds) hc.2
    have hd : d < b := hc.1
    have hne : valLE b (d :: e :: ds) ≠ 0 := by
      show d + b * valLE b (e :: ds) ≠ 0
      have : 0 < b * valLE b (e :: ds) := Nat.mul_pos (by omega) hpos
      omega
    unfold digitsLE
    rw [dif_neg (by omega)]
    have hm : valLE b (d :: e :: ds) % b = d := by
      show (d + b * valLE b (e :: ds)) % b = d
      rw [Nat.add_mul_mod_self_left, Nat.mod_eq_of_lt hd]
    have hq : valLE b (d :: e :: ds) / b = valLE b (e :: ds) := by
      show (d + b * valLE b (e :: ds)) / b = valLE b (e :: ds)
      rw [Nat.add_mul_div_left _ _ (by omega : 0 < b), Nat.div_eq_of_lt hd, Nat.zero_add]
    rw [hm, hq, ih]

/-- digits produced by `digitsLE` are canonical -/
theorem canonLE_digitsLE (b : Nat) (hb : 2 ≤ b) (n : Nat) : CanonLE b (digitsLE b n) := by
  induction n using Nat.strongRecOn with
  | _ n ih =>
    unfold digitsLE
    split
    · trivial
    · rename_i h
      have hn : n ≠ 0 := fun h' => h (Or.inl h')
      have hlt : n / b < n := Nat.div_lt_self (by omega) (by omega)
      have ih' := ih (n / b) hlt
      have hmod : n % b < b := Nat.mod_lt _ (by omega)
      cases hq : digitsLE b (n / b) with
      | nil =>
        -- then n / b = 0, so n % b = n ≠ 0
        have hv := valLE_digitsLE b hb (n / b)
        rw [hq] at hv
        simp [valLE] at hv
        have : n % b = n := by
          have := Nat.div_add_mod n b
          rw [← hv] at this; simp at this; exact this
        exact ⟨hmod, by omega⟩
      | cons e es =>
        rw [hq] at ih'
        exact ⟨hmod, ih'⟩

theorem digitsLE_lt (b : Nat) (hb : 2 ≤ b) (n : Nat) : ∀ d ∈ digitsLE b n, d < b := by
  induction n using Nat.strongRecOn with
  | _ n ih =>
    unfold digitsLE
    split
    · simp
    · rename_i h
      have hn : n ≠ 0 := fun h' => h (Or.inl h')
      have hlt : n / b < n := Nat.div_lt_self (by omega) (by omega)
      intro d hd
      simp at hd
      cases hd with
      | inl h => rw [h]; exact Nat.mod_lt _ (by omega)
      | inr h => exact ih (n / b) hlt d h

end Btc
