import BtcModel.Wallet.TxCreate
/-! Helper lemmas for C07: coin selection. -/
namespace Btc.TxCreate

theorem sumU_cons (u : Utxo) (l : List Utxo) : sumU (u :: l) = u.value + sumU l := by simp [sumU]

theorem mem_le_sumU {u : Utxo} {l : List Utxo} (h : u ∈ l) : u.value ≤ sumU l := by
  induction l with
  | nil => simp at h
  | cons a l ih =>
    rw [sumU_cons]
    rcases List.mem_cons.mp h with h | h
    · subst h; omega
    · have := ih h; omega

theorem sublist_sumU_le {a b : List Utxo} (h : a.Sublist b) : sumU a ≤ sumU b := by
  induction h with
  | slnil => simp
  | cons x _ ih => rw [sumU_cons]; omega
  | cons_cons x _ ih => rw [sumU_cons, sumU_cons]; omega

theorem perm_sumU {a b : List Utxo} (h : a.Perm b) : sumU a = sumU b := by
  induction h with
  | nil => rfl
  | cons x _ ih => rw [sumU_cons, sumU_cons, ih]
  | swap x y l => simp only [sumU_cons]; omega
  | trans _ _ ih1 ih2 => rw [ih1, ih2]

theorem takeUntil_sublist (amount : Nat) : ∀ (tot : Nat) (l : List Utxo), (takeUntil amount tot l).Sublist l
  | _, [] => by simp [takeUntil]
  | tot, u :: l => by
    unfold takeUntil
    split
    · exact List.Sublist.cons_cons u (takeUntil_sublist amount _ l)
    · exact List.nil_sublist _

theorem lessersOf_subperm (cands : List Utxo) (amount : Nat) (maxUtxos : Option Nat) :
    ∃ m, (lessersOf cands amount maxUtxos).Sublist m ∧ m.Perm (cands.filter fun u => u.value < amount) := by
  refine ⟨(cands.filter fun u => u.value < amount).mergeSort leConfValDesc, ?_, List.mergeSort_perm _ _⟩
  unfold lessersOf
  cases maxUtxos with
  | none => exact List.Sublist.refl _
  | some m =>
    simp only
    split
    · exact List.Sublist.refl _
    · exact List.take_sublist _ _

/-- the three outcomes of `selectInputs` -/
theorem selectInputs_cases (cands : List Utxo) (amount variance : Nat) (maxUtxos : Option Nat) :
    (∃ u, u ∈ cands ∧ amount ≤ u.value ∧ selectInputs cands amount variance maxUtxos = [u]) ∨
    selectInputs cands amount variance maxUtxos = [] ∨
    (selectInputs cands amount variance maxUtxos = takeUntil amount 0 (lessersOf cands amount maxUtxos) ∧
      amount ≤ sumU (takeUntil amount 0 (lessersOf cands amount maxUtxos))) := by
  unfold selectInputs
  cases h1 : cands.find? (fun u => amount ≤ u.value && u.value ≤ amount + variance) with
  | some u =>
    left
    have hm := List.mem_of_find?_eq_some h1
    have hp := List.find?_some h1
    simp only [Bool.and_eq_true, decide_eq_true_eq] at hp
    exact ⟨u, hm, hp.1, rfl⟩
  | none =>
    simp only
    cases h2 : (cands.mergeSort leConfValAsc).find? (fun u => amount ≤ u.value) with
    | some u =>
      left
      have hm := List.mem_of_find?_eq_some h2
      have hp := List.find?_some h2
      simp only [decide_eq_true_eq] at hp
      exact ⟨u, (List.mergeSort_perm cands leConfValAsc).mem_iff.mp hm, hp, rfl⟩
    | none =>
      simp only
      split
      · right; left; rfl
      · split
        · right; left; rfl
        · rename_i hs
          right; right
          exact ⟨rfl, by omega⟩

theorem selectInputs_mem (cands : List Utxo) (amount variance : Nat) (maxUtxos : Option Nat) :
    ∀ u ∈ selectInputs cands amount variance maxUtxos, u ∈ cands := by
  intro u hu
  rcases selectInputs_cases cands amount variance maxUtxos with ⟨v, hv, _, he⟩ | he | ⟨he, _⟩
  · rw [he] at hu; simp at hu; exact hu ▸ hv
  · rw [he] at hu; simp at hu
  · rw [he] at hu
    obtain ⟨m, hs, hp⟩ := lessersOf_subperm cands amount maxUtxos
    have h1 := (takeUntil_sublist amount 0 _).subset hu
    have h2 := hp.mem_iff.mp (hs.subset h1)
    exact (List.mem_filter.mp h2).1

theorem selectInputs_nodup (cands : List Utxo) (amount variance : Nat) (maxUtxos : Option Nat)
    (hn : cands.Nodup) : (selectInputs cands amount variance maxUtxos).Nodup := by
  rcases selectInputs_cases cands amount variance maxUtxos with ⟨v, _, _, he⟩ | he | ⟨he, _⟩
  · rw [he]; simp
  · rw [he]; simp
  · rw [he]
    obtain ⟨m, hs, hp⟩ := lessersOf_subperm cands amount maxUtxos
    have h1 : m.Nodup := hp.nodup_iff.mpr (hn.sublist List.filter_sublist)
    exact (h1.sublist hs).sublist (takeUntil_sublist amount 0 _)

theorem selectInputs_enough (cands : List Utxo) (amount variance : Nat) (maxUtxos : Option Nat)
    (hne : selectInputs cands amount variance maxUtxos ≠ []) :
    amount ≤ sumU (selectInputs cands amount variance maxUtxos) := by
  rcases selectInputs_cases cands amount variance maxUtxos with ⟨v, _, hv, he⟩ | he | ⟨he, hs⟩
  · rw [he]; simp [sumU]; exact hv
  · exact absurd he hne
  · rw [he]; exact hs

theorem selectInputs_le_cands (cands : List Utxo) (amount variance : Nat) (maxUtxos : Option Nat) :
    sumU (selectInputs cands amount variance maxUtxos) ≤ sumU cands := by
  rcases selectInputs_cases cands amount variance maxUtxos with ⟨v, hv, _, he⟩ | he | ⟨he, _⟩
  · rw [he]; simp [sumU]; exact mem_le_sumU hv
  · rw [he]; simp [sumU]
  · rw [he]
    obtain ⟨m, hs, hp⟩ := lessersOf_subperm cands amount maxUtxos
    calc sumU (takeUntil amount 0 (lessersOf cands amount maxUtxos))
        ≤ sumU (lessersOf cands amount maxUtxos) := sublist_sumU_le (takeUntil_sublist amount 0 _)
      _ ≤ sumU m := sublist_sumU_le hs
      _ = sumU (cands.filter fun u => u.value < amount) := perm_sumU hp
      _ ≤ sumU cands := sublist_sumU_le List.filter_sublist

/-- insufficient funds: the selection is empty -/
theorem selectInputs_insufficient (cands : List Utxo) (amount variance : Nat) (maxUtxos : Option Nat)
    (h : sumU cands < amount) : selectInputs cands amount variance maxUtxos = [] := by
  by_cases hne : selectInputs cands amount variance maxUtxos = []
  · exact hne
  · have h1 := selectInputs_enough cands amount variance maxUtxos hne
    have h2 := selectInputs_le_cands cands amount variance maxUtxos
    omega

end Btc.TxCreate
