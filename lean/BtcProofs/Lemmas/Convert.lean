import BtcProofs.Lemmas.Digits
/-! `convert b2 b1 ∘ convert b1 b2 = id` on digit lists — Base58 round trip and canonicity. -/
namespace Btc

theorem canonLE_of (b : Nat) : ∀ (l : List Nat), (∀ d ∈ l, d < b) → (∀ h : l ≠ [], l.getLast h ≠ 0) → CanonLE b l
  | [], _, _ => trivial
  | [d], hall, hlast => ⟨hall d (by simp), by simpa using hlast (by simp)⟩
  | d :: e :: ds, hall, hlast => by
    refine ⟨hall d (by simp), canonLE_of b (e :: ds) (fun x hx => hall x (by simp [hx])) ?_⟩
    intro h
    have := hlast (by simp)
    simpa [List.getLast_cons] using this

theorem canonLE_getLast (b : Nat) : ∀ (l : List Nat), CanonLE b l → ∀ h : l ≠ [], l.getLast h ≠ 0
  | [], _, h => absurd rfl h
  | [d], hc, _ => by simpa using hc.2
  | d :: e :: ds, hc, _ => by
    have := canonLE_getLast b (e :: ds) hc.2 (by simp)
    simpa [List.getLast_cons] using this

theorem valLE_append_zeros (b : Nat) (l : List Nat) (z : Nat) :
    valLE b (l ++ List.replicate z 0) = valLE b l := by
  induction l with
  | nil =>
    induction z with
    | zero => simp
    | succ z ih => simp [List.replicate_succ, valLE, ih] at *
  | cons x xs ih => simp [valLE, ih]

theorem leadingZeros_replicate_append (z : Nat) (l : List Nat) (h : ∀ hne : l ≠ [], l.head hne ≠ 0) :
    leadingZeros (List.replicate z 0 ++ l) = z := by
  induction z with
  | zero =>
    cases l with
    | nil => rfl
    | cons x xs =>
      have := h (by simp)
      simp at this
      cases x with
      | zero => exact absurd rfl this
      | succ n => simp [leadingZeros]
  | succ z ih => simp [List.replicate_succ, leadingZeros, ih]

/-- split a digit list into its leading zeros and the rest -/
theorem split_leadingZeros : ∀ (ds : List Nat),
    ∃ rest, ds = List.replicate (leadingZeros ds) 0 ++ rest ∧ (∀ hne : rest ≠ [], rest.head hne ≠ 0)
  | [] => ⟨[], by simp [leadingZeros], fun h => absurd rfl h⟩
  | 0 :: ds => by
    obtain ⟨rest, h1, h2⟩ := split_leadingZeros ds
    refine ⟨rest, ?_, h2⟩
    simp only [leadingZeros, List.replicate_succ, List.cons_append]
    rw [← h1]
  | (n+1) :: ds => ⟨(n+1) :: ds, by simp [leadingZeros], fun _ => by simp⟩

theorem valBE_zeros_append (b z : Nat) (rest : List Nat) :
    valBE b (List.replicate z 0 ++ rest) = valBE b rest := by
  unfold valBE
  rw [List.reverse_append, List.reverse_replicate, valLE_append_zeros]

theorem digitsBE_head_ne_zero (b : Nat) (hb : 2 ≤ b) (n : Nat) :
    ∀ hne : digitsBE b n ≠ [], (digitsBE b n).head hne ≠ 0 := by
  intro hne
  unfold digitsBE at hne ⊢
  have hne' : digitsLE b n ≠ [] := by simpa using hne
  have := canonLE_getLast b _ (canonLE_digitsLE b hb n) hne'
  simpa [List.head_reverse] using this

theorem convert_convert (b1 b2 : Nat) (h1 : 2 ≤ b1) (h2 : 2 ≤ b2) (ds : List Nat)
    (hlt : ∀ d ∈ ds, d < b1) : convert b2 b1 (convert b1 b2 ds) = ds := by
  obtain ⟨rest, hsplit, hhead⟩ := split_leadingZeros ds
  have hv : valBE b1 ds = valBE b1 rest := by
    rw [hsplit, valBE_zeros_append]
    -- the count on the right refers to ds, which is fine: both sides strip the same zeros
  unfold convert
  rw [leadingZeros_replicate_append _ _ (digitsBE_head_ne_zero b2 h2 _)]
  rw [valBE_zeros_append]
  have hval : valBE b2 (digitsBE b2 (valBE b1 ds)) = valBE b1 ds := by
    unfold valBE digitsBE; rw [List.reverse_reverse, valLE_digitsLE b2 h2]
  rw [hval, hv]
  -- remaining: digitsBE b1 (valBE b1 rest) = rest
  have hcanon : CanonLE b1 rest.reverse := by
    apply canonLE_of
    · intro d hd
      have : d ∈ ds := by rw [hsplit]; simp at hd; simp [hd]
      exact hlt d this
    · intro h
      have hne : rest ≠ [] := by simpa using h
      have := hhead hne
      simpa [List.getLast_reverse] using this
  have : digitsBE b1 (valBE b1 rest) = rest := by
    unfold digitsBE valBE
    rw [digitsLE_valLE b1 h1 _ hcanon, List.reverse_reverse]
  rw [this]
  exact hsplit.symm

/-- all digits produced by `convert` are valid digits of the target base -/
theorem convert_lt (b1 b2 : Nat) (h2 : 2 ≤ b2) (ds : List Nat) : ∀ d ∈ convert b1 b2 ds, d < b2 := by
  intro d hd
  unfold convert at hd
  simp only [List.mem_append, List.mem_replicate] at hd
  cases hd with
  | inl h => omega
  | inr h =>
    unfold digitsBE at h
    exact digitsLE_lt b2 h2 _ d (by simpa using h)

end Btc
