import BtcModel.Wallet.Ledger
/-! Helper lemmas for C08: the ledger invariant and its preservation by every operation. -/
namespace Btc.Ledger

/-- The invariant of the tables. -/
structure Inv (st : St) : Prop where
  /-- an output that a stored input refers to is marked spent -/
  spentOk : ∀ o ∈ st.outs, spentInDb st o.txid o.n = true → o.spent = true
  /-- outputs name keys of the wallet -/
  keysOk : ∀ o ∈ st.outs, ∀ k, o.key = some k → k ∈ st.keys
  nodupKeys : st.keys.Nodup
  /-- the `keys.balance` column holds the per-key sums of unspent outputs -/
  balOk : st.keyBal = st.keys.map fun k => (k, keyTotal st k)

theorem inv_init : Inv init :=
  ⟨by simp [init], by simp [init], by simp [init], by simp [init]⟩

/-- the part of the invariant that does not mention the balance column -/
structure InvT (st : St) : Prop where
  spentOk : ∀ o ∈ st.outs, spentInDb st o.txid o.n = true → o.spent = true
  keysOk : ∀ o ∈ st.outs, ∀ k, o.key = some k → k ∈ st.keys
  nodupKeys : st.keys.Nodup

theorem Inv.toT {st : St} (h : Inv st) : InvT st := ⟨h.spentOk, h.keysOk, h.nodupKeys⟩

theorem inv_balanceUpdate {st : St} (h : InvT st) : Inv (balanceUpdate st) :=
  ⟨h.spentOk, h.keysOk, h.nodupKeys, rfl⟩

theorem sumValues_append (a b : List OutRec) : sumValues (a ++ b) = sumValues a + sumValues b := by
  simp [sumValues]

theorem sumValues_cons (o : OutRec) (l : List OutRec) : sumValues (o :: l) = o.value + sumValues l := by
  simp [sumValues]

/-- a key that no output names has total 0 -/
theorem keyTotalL_zero (outs : List OutRec) (k : Nat) (h : ∀ o ∈ outs, o.key ≠ some k) :
    keyTotalL outs k = 0 := by
  unfold keyTotalL
  have : (unspentL outs).filter (fun o => o.key == some k) = [] := by
    rw [List.filter_eq_nil_iff]
    intro o ho
    have ho' : o ∈ outs := (List.mem_filter.mp ho).1
    simpa using h o ho'
  rw [this]; rfl

theorem sum_map_zero (l : List Nat) (f : Nat → Nat) (h : ∀ x ∈ l, f x = 0) : (l.map f).sum = 0 := by
  induction l with
  | nil => rfl
  | cons a l ih =>
    simp only [List.map_cons, List.sum_cons]
    rw [h a (List.mem_cons_self), ih (fun x hx => h x (List.mem_cons_of_mem _ hx))]

theorem sum_map_add' (l : List Nat) (f g : Nat → Nat) :
    (l.map fun x => f x + g x).sum = (l.map f).sum + (l.map g).sum := by
  induction l with
  | nil => rfl
  | cons a l ih => simp only [List.map_cons, List.sum_cons, ih]; omega

/-- summing an indicator over a duplicate-free list that contains the key -/
theorem sum_indicator (keys : List Nat) (k v : Nat) (hn : keys.Nodup) (hk : k ∈ keys) :
    (keys.map fun k' => if k = k' then v else 0).sum = v := by
  induction keys with
  | nil => simp at hk
  | cons a l ih =>
    rw [List.nodup_cons] at hn
    simp only [List.map_cons, List.sum_cons]
    by_cases hka : k = a
    · subst hka
      have : (l.map fun k' => if k = k' then v else 0).sum = 0 := by
        apply sum_map_zero
        intro k' hk'
        have : k ≠ k' := fun e => hn.1 (e ▸ hk')
        simp [this]
      simp [this]
    · have hk' : k ∈ l := by
        rcases List.mem_cons.mp hk with h | h
        · exact absurd h hka
        · exact h
      simp [hka, ih hn.2 hk']

theorem sum_zero_indicator (keys : List Nat) : (keys.map fun _ => (0 : Nat)).sum = 0 := by
  induction keys with
  | nil => rfl
  | cons a l ih => simp [ih]

/-- the per-key totals of a duplicate-free key list that covers the outputs add up to the total -/
theorem sum_keyTotalL (keys : List Nat) (hn : keys.Nodup) :
    ∀ (outs : List OutRec), (∀ o ∈ outs, ∀ k, o.key = some k → k ∈ keys) →
    (keys.map fun k => keyTotalL outs k).sum = sumValues (unspentL outs)
  | [], _ => by
    simp only [keyTotalL, unspentL, sumValues, List.filter_nil, List.map_nil, List.sum_nil]
    exact sum_map_zero keys _ (fun _ _ => rfl)
  | o :: outs, h => by
    have ih := sum_keyTotalL keys hn outs (fun o' ho' => h o' (List.mem_cons_of_mem _ ho'))
    by_cases hu : (!o.spent && o.key.isSome) = true
    · -- the output counts: it adds its value to exactly one key
      have hk : ∃ k, o.key = some k := by
        cases hk : o.key with
        | none => simp [hk] at hu
        | some k => exact ⟨k, rfl⟩
      obtain ⟨k, hk⟩ := hk
      have hmem : k ∈ keys := h o (List.mem_cons_self) k hk
      have e1 : unspentL (o :: outs) = o :: unspentL outs := by
        simp only [unspentL, List.filter_cons, hu, if_true]
      have e2 : ∀ k', keyTotalL (o :: outs) k' = (if k = k' then o.value else 0) + keyTotalL outs k' := by
        intro k'
        unfold keyTotalL
        rw [e1]
        by_cases hkk : k = k'
        · subst hkk
          rw [List.filter_cons_of_pos (by simp [hk]), sumValues_cons]; simp
        · rw [List.filter_cons_of_neg (by simp [hk, hkk])]; simp [hkk]
      have e3 : (keys.map fun k' => keyTotalL (o :: outs) k') =
          keys.map fun k' => (if k = k' then o.value else 0) + keyTotalL outs k' := by
        apply List.map_congr_left; intro k' _; exact e2 k'
      rw [e3, sum_map_add' keys (fun k' => if k = k' then o.value else 0) (fun k' => keyTotalL outs k'), sum_indicator keys k o.value hn hmem, ih, e1, sumValues_cons]
    · have e1 : unspentL (o :: outs) = unspentL outs := by
        simp only [unspentL, List.filter_cons, hu]; rfl
      have e3 : (keys.map fun k' => keyTotalL (o :: outs) k') = keys.map fun k' => keyTotalL outs k' := by
        apply List.map_congr_left; intro k' _; unfold keyTotalL; rw [e1]
      rw [e3, ih, e1]

/-! ## Preservation -/

theorem inv_newKey {st : St} (h : Inv st) (k : Nat) : Inv (newKey st k).1 := by
  unfold newKey
  split
  · exact h
  · rename_i hk
    refine ⟨h.spentOk, ?_, ?_, ?_⟩
    · intro o ho k' hk'
      exact List.mem_append_left _ (h.keysOk o ho k' hk')
    · rw [List.nodup_append]
      refine ⟨h.nodupKeys, by simp, ?_⟩
      intro a ha b hb
      simp at hb; subst hb
      exact fun e => hk (e ▸ ha)
    · have hz : keyTotalL st.outs k = 0 :=
        keyTotalL_zero st.outs k (fun o ho e => hk (h.keysOk o ho k e))
      show st.keyBal ++ [(k, 0)] = (st.keys ++ [k]).map fun k' => (k', keyTotalL st.outs k')
      rw [List.map_append, h.balOk]
      simp [hz, keyTotal]

theorem spentInDb_iff (st : St) (t n : Nat) :
    spentInDb st t n = true ↔ ∃ i ∈ st.ins, i.ptx = t ∧ i.pn = n := by
  simp [spentInDb]

theorem invT_utxoAdd {st : St} (h : Inv st) (key value txid n conf : Nat) (hk : key ∈ st.keys) :
    InvT (if hasOut st txid n then
        { st with
          outs := st.outs.map fun o => if o.txid == txid && o.n == n then { o with key := some key, spent := spentInDb st txid n } else o
          txs := st.txs.map fun x => if x.txid == txid then { x with conf := conf } else x }
      else
        { st with
          txs := if hasTx st txid then st.txs else st.txs ++ [{ txid := txid, conf := conf, body := none }]
          outs := st.outs ++ [{ txid := txid, n := n, value := value, key := some key, spent := spentInDb st txid n }] }) := by
  split
  · refine ⟨?_, ?_, h.nodupKeys⟩
    · intro o ho hs
      simp only [List.mem_map] at ho
      obtain ⟨o0, ho0, rfl⟩ := ho
      by_cases hm : (o0.txid == txid && o0.n == n) = true
      · simp only [hm, if_true] at hs ⊢
        simp only [Bool.and_eq_true, beq_iff_eq] at hm
        obtain ⟨h1, h2⟩ := hm
        have : spentInDb st txid n = true := by
          rw [← h1, ← h2]; simpa [spentInDb] using hs
        simpa using this
      · simp only [hm] at hs ⊢
        exact h.spentOk o0 ho0 (by simpa [spentInDb] using hs)
    · intro o ho k hk'
      simp only [List.mem_map] at ho
      obtain ⟨o0, ho0, rfl⟩ := ho
      by_cases hm : (o0.txid == txid && o0.n == n) = true
      · simp only [hm, if_true] at hk'
        cases hk'; exact hk
      · simp only [hm] at hk'
        exact h.keysOk o0 ho0 k hk'
  · refine ⟨?_, ?_, h.nodupKeys⟩
    · intro o ho hs
      rcases List.mem_append.mp ho with ho | ho
      · exact h.spentOk o ho (by simpa [spentInDb] using hs)
      · simp at ho; subst ho
        simpa [spentInDb] using hs
    · intro o ho k hk'
      rcases List.mem_append.mp ho with ho | ho
      · exact h.keysOk o ho k hk'
      · simp at ho; subst ho
        cases hk'; exact hk

theorem inv_utxoAdd {st : St} (h : Inv st) (key value txid n conf : Nat) :
    Inv (utxoAdd st key value txid n conf).1 := by
  unfold utxoAdd
  split
  · exact h
  · rename_i hk
    exact inv_balanceUpdate (invT_utxoAdd h key value txid n conf (by simpa using hk))


/-- what the guard of `send` establishes -/
structure SendOk (st : St) (txid : Nat) (b : TxBody) : Prop where
  fresh : hasTx st txid = false
  nodup : (outpoints b).Nodup
  keys : ∀ o ∈ b.outs, ∀ k, o.2 = some k → k ∈ st.keys

theorem sendGuard_ok {st : St} {txid : Nat} {b : TxBody} (g : sendGuard st txid b = true) :
    SendOk st txid b := by
  unfold sendGuard at g
  simp only [Bool.and_eq_true, Bool.not_eq_true', List.all_eq_true, bne_iff_ne, ne_eq,
    decide_eq_true_eq] at g
  obtain ⟨⟨g1, g4⟩, g5⟩ := g
  refine ⟨g1, g4, ?_⟩
  intro o ho k hk
  have := g5 o ho
  simp only [hk] at this
  simpa using this

@[simp] theorem setSpent_txid (v : Bool) (pts : List (Nat × Nat)) (o : OutRec) : (setSpent v pts o).txid = o.txid := by
  unfold setSpent; split <;> rfl
@[simp] theorem setSpent_n (v : Bool) (pts : List (Nat × Nat)) (o : OutRec) : (setSpent v pts o).n = o.n := by
  unfold setSpent; split <;> rfl
@[simp] theorem setSpent_key (v : Bool) (pts : List (Nat × Nat)) (o : OutRec) : (setSpent v pts o).key = o.key := by
  unfold setSpent; split <;> rfl
@[simp] theorem setSpent_value (v : Bool) (pts : List (Nat × Nat)) (o : OutRec) : (setSpent v pts o).value = o.value := by
  unfold setSpent; split <;> rfl
theorem setSpent_spent (v : Bool) (pts : List (Nat × Nat)) (o : OutRec) :
    (setSpent v pts o).spent = if (o.txid, o.n) ∈ pts then v else o.spent := by
  unfold setSpent
  by_cases h : (o.txid, o.n) ∈ pts
  · simp [h]
  · simp [h]

theorem mem_newOuts {st : St} {txid : Nat} {b : TxBody} {o : OutRec} (h : o ∈ newOuts st txid b) :
    o.txid = txid ∧ o.spent = spentInDb st o.txid o.n ∧ ∃ p ∈ b.outs, o.key = p.2 := by
  unfold newOuts at h
  simp only [List.mem_map] at h
  obtain ⟨p, hp, rfl⟩ := h
  exact ⟨rfl, rfl, p.2, (List.of_mem_zip hp).2, rfl⟩

theorem mem_inRecs {txid : Nat} {b : TxBody} {i : InRec} (h : i ∈ inRecs txid b) :
    i.tx = txid ∧ (i.ptx, i.pn) ∈ outpoints b := by
  unfold inRecs at h
  simp only [List.mem_map] at h
  obtain ⟨x, hx, rfl⟩ := h
  exact ⟨rfl, by unfold outpoints; exact List.mem_map.mpr ⟨x, hx, rfl⟩⟩

theorem inRecs_outpoints (txid : Nat) (b : TxBody) :
    (inRecs txid b).map (fun i => (i.ptx, i.pn)) = outpoints b := by
  unfold inRecs outpoints
  rw [List.map_map]; apply List.map_congr_left; intro x _; rfl

theorem inv_send {st : St} (h : Inv st) (txid : Nat) (b : TxBody) : Inv (send st txid b).1 := by
  unfold send
  by_cases gg : sendGuard st txid b = true
  · have g := sendGuard_ok gg
    rw [if_pos gg]
    apply inv_balanceUpdate
    refine ⟨?_, ?_, h.nodupKeys⟩
    · -- spentOk
      intro o ho hs
      simp only [List.mem_map] at ho
      obtain ⟨o0, ho0, rfl⟩ := ho
      rw [setSpent_spent]
      by_cases hc : (o0.txid, o0.n) ∈ outpoints b
      · simp [hc]
      · simp only [hc, if_false]
        rw [spentInDb_iff] at hs
        obtain ⟨i, hi, h1, h2⟩ := hs
        simp only [setSpent_txid, setSpent_n] at h1 h2
        rcases List.mem_append.mp hi with hi | hi
        · rcases List.mem_append.mp ho0 with ho0 | ho0
          · exact h.spentOk o0 ho0 ((spentInDb_iff _ _ _).mpr ⟨i, hi, h1, h2⟩)
          · -- a new row that a stored input refers to: spent from the start
            rw [(mem_newOuts ho0).2.1]
            exact (spentInDb_iff _ _ _).mpr ⟨i, hi, h1, h2⟩
        · exfalso; apply hc
          have := (mem_inRecs hi).2
          rwa [h1, h2] at this
    · -- keysOk
      intro o ho k hk
      simp only [List.mem_map] at ho
      obtain ⟨o0, ho0, rfl⟩ := ho
      simp only [setSpent_key] at hk
      rcases List.mem_append.mp ho0 with ho0 | ho0
      · exact h.keysOk o0 ho0 k hk
      · obtain ⟨_, _, p, hp, hpk⟩ := mem_newOuts ho0
        exact g.keys p hp k (hpk ▸ hk)
  · rw [if_neg gg]; exact h

theorem inv_delete {st : St} (h : Inv st) (txid : Nat) : Inv (delete st txid).1 := by
  unfold delete
  split
  · apply inv_balanceUpdate
    refine ⟨?_, ?_, h.nodupKeys⟩
    · intro o ho hs
      simp only [List.mem_map, List.mem_filter] at ho
      obtain ⟨o0, ⟨ho0, _⟩, rfl⟩ := ho
      rw [spentInDb_iff] at hs
      obtain ⟨i, hi, h1, h2⟩ := hs
      simp only [setSpent_txid, setSpent_n] at h1 h2
      rw [setSpent_spent]
      by_cases hf : (o0.txid, o0.n) ∈ freedBy st txid
      · -- freed by the deleted transaction and still consumed by another one: excluded by `freedBy`
        exfalso
        unfold freedBy at hf
        rw [List.mem_filter] at hf
        have hany : ((st.ins.filter fun i => i.tx != txid).any fun i => i.ptx == o0.txid && i.pn == o0.n) = true := by
          rw [List.any_eq_true]
          exact ⟨i, hi, by simp [h1, h2]⟩
        simp [hany] at hf
      · simp only [hf, if_false]
        have hi' : i ∈ st.ins := (List.mem_filter.mp hi).1
        exact h.spentOk o0 ho0 ((spentInDb_iff _ _ _).mpr ⟨i, hi', h1, h2⟩)
    · intro o ho k hk
      simp only [List.mem_map, List.mem_filter] at ho
      obtain ⟨o0, ⟨ho0, _⟩, rfl⟩ := ho
      simp only [setSpent_key] at hk
      exact h.keysOk o0 ho0 k hk
  · exact h

theorem inv_step {st : St} (h : Inv st) (op : Op) : Inv (step st op).1 := by
  cases op with
  | newKey k => exact inv_newKey h k
  | utxoAdd key value txid n conf => exact inv_utxoAdd h key value txid n conf
  | send txid b => exact inv_send h txid b
  | delete txid => exact inv_delete h txid
  | reopen => exact ⟨h.spentOk, h.keysOk, h.nodupKeys, h.balOk⟩
  | balance => exact inv_balanceUpdate h.toT

theorem inv_run {st : St} (h : Inv st) (ops : List Op) : Inv (run st ops) := by
  induction ops generalizing st with
  | nil => exact h
  | cons op ops ih => exact ih (inv_step h op)

end Btc.Ledger
