import BtcModel.Bech32
import BtcModel.Bip39
/-! Bit-list lemmas: regrouping a stream of w-bit values into bits and back. -/
namespace Btc

@[simp] theorem bitsOf_length (w v : Nat) : (bitsOf w v).length = w := by
  induction w with
  | zero => rfl
  | succ w ih => simp [bitsOf, ih]

theorem ofBits_lt (l : List Bool) : ofBits l < 2 ^ l.length := by
  induction l with
  | nil => simp [ofBits]
  | cons b l ih =>
    simp only [ofBits, List.length_cons, Nat.pow_succ]
    cases b <;> simp <;> omega

theorem ofBits_bitsOf (w v : Nat) : ofBits (bitsOf w v) = v % 2 ^ w := by
  induction w with
  | zero => simp [bitsOf, ofBits, Nat.mod_one]
  | succ w ih =>
    simp only [bitsOf, ofBits, bitsOf_length, ih, Nat.toNat_testBit]
    rw [Nat.mod_pow_succ]; rw [Nat.mul_comm]; omega

theorem bitsOf_mod (w v : Nat) : bitsOf w (v % 2 ^ w) = bitsOf w v := by
  suffices h : ∀ k, k ≤ w → bitsOf k (v % 2 ^ w) = bitsOf k v from h w (Nat.le_refl _)
  intro k
  induction k with
  | zero => intro _; rfl
  | succ k ih =>
    intro hk
    simp only [bitsOf, ih (by omega), Nat.testBit_mod_two_pow]
    simp; omega

theorem bitsOf_ofBits (l : List Bool) : bitsOf l.length (ofBits l) = l := by
  induction l with
  | nil => rfl
  | cons b l ih =>
    simp only [List.length_cons, bitsOf, ofBits]
    have hlt := ofBits_lt l
    have e : b.toNat * 2 ^ l.length + ofBits l = 2 ^ l.length * b.toNat + ofBits l := by rw [Nat.mul_comm]
    rw [e]
    congr 1
    · rw [Nat.testBit_two_pow_mul_add _ hlt]
      simp
      cases b <;> simp
    · rw [← bitsOf_mod]
      have : (2 ^ l.length * b.toNat + ofBits l) % 2 ^ l.length = ofBits l := by
        rw [Nat.mul_add_mod, Nat.mod_eq_of_lt hlt]
      rw [this, ih]

/-- chunks of a concatenation of equal-length blocks are the blocks -/
theorem chunksOf_flatten (w : Nat) (hw : 0 < w) : ∀ (ls : List (List Bool)) (fuel : Nat),
    (∀ l ∈ ls, l.length = w) → ls.flatten.length < fuel → chunksOf w fuel ls.flatten = ls
  | [], fuel, _, hf => by
    cases fuel with
    | zero => simp at hf
    | succ f => simp [chunksOf]
  | l :: ls, fuel, hall, hf => by
    cases fuel with
    | zero => simp at hf
    | succ f =>
      have hl : l.length = w := hall l (by simp)
      have hne : ¬ ((l ++ ls.flatten).isEmpty = true ∨ w = 0) := by
        intro h; rcases h with h | h
        · simp at h; have := h.1; subst this; simp at hl; omega
        · omega
      simp only [List.flatten_cons, chunksOf, hne, if_false]
      have t1 : (l ++ ls.flatten).take w = l := by rw [← hl]; simp
      have t2 : (l ++ ls.flatten).drop w = ls.flatten := by rw [← hl]; simp
      rw [t1, t2, chunksOf_flatten w hw ls f (fun x hx => hall x (by simp [hx]))
        (by simp only [List.flatten_cons, List.length_append] at hf; omega)]

/-- values below 2^w survive bits → chunks → values -/
theorem fromBits_toBits (w : Nat) (hw : 0 < w) (vals : List Nat) (h : ∀ v ∈ vals, v < 2 ^ w) :
    fromBits w (toBits w vals) = vals := by
  unfold fromBits toBits
  rw [List.flatMap_def]
  rw [chunksOf_flatten w hw (vals.map (bitsOf w)) _ (by intro l hl; simp at hl; obtain ⟨v, _, rfl⟩ := hl; simp)
    (by omega)]
  rw [List.map_map]
  have : (ofBits ∘ bitsOf w) = fun v => v % 2 ^ w := by funext v; simp [ofBits_bitsOf]
  rw [this]
  induction vals with
  | nil => rfl
  | cons v vs ih =>
    simp only [List.map_cons]
    rw [Nat.mod_eq_of_lt (h v (by simp)), ih (fun x hx => h x (by simp [hx]))]

/-- a bit list whose length is a multiple of w splits into chunks of exactly w bits -/
theorem chunksOf_spec (w : Nat) (hw : 0 < w) : ∀ (n : Nat) (bits : List Bool) (fuel : Nat),
    bits.length = n * w → bits.length < fuel →
    (chunksOf w fuel bits).flatten = bits ∧ (∀ c ∈ chunksOf w fuel bits, c.length = w) ∧
      (chunksOf w fuel bits).length = n
  | 0, bits, fuel, hl, hf => by
    have : bits = [] := List.eq_nil_of_length_eq_zero (by simpa using hl)
    subst this
    cases fuel <;> simp [chunksOf]
  | n + 1, bits, fuel, hl, hf => by
    cases fuel with
    | zero => simp at hf
    | succ f =>
      have hlen : w ≤ bits.length := by rw [hl]; exact Nat.le_mul_of_pos_left w (by omega)
      have hne : ¬ (bits.isEmpty = true ∨ w = 0) := by
        intro h; rcases h with h | h
        · simp at h; subst h; simp at hlen; omega
        · omega
      simp only [chunksOf, hne, if_false]
      have hd : (bits.drop w).length = n * w := by
        simp [hl, Nat.succ_mul]
      obtain ⟨ih1, ih2, ih3⟩ := chunksOf_spec w hw n (bits.drop w) f hd (by simp; omega)
      refine ⟨by simp [ih1], ?_, by simp [ih3]⟩
      intro c hc
      simp at hc
      rcases hc with rfl | hc
      · simp; omega
      · exact ih2 c hc

theorem toBits_fromBits (w : Nat) (hw : 0 < w) (n : Nat) (bits : List Bool) (hl : bits.length = n * w) :
    toBits w (fromBits w bits) = bits := by
  unfold toBits fromBits
  obtain ⟨h1, h2, _⟩ := chunksOf_spec w hw n bits (bits.length + 1) hl (by omega)
  rw [List.flatMap_def, List.map_map]
  have : (chunksOf w (bits.length + 1) bits).map (bitsOf w ∘ ofBits) = chunksOf w (bits.length + 1) bits := by
    have hc : ∀ c ∈ chunksOf w (bits.length + 1) bits, (bitsOf w ∘ ofBits) c = id c := by
      intro c hc
      have := h2 c hc
      simp only [Function.comp, id]
      rw [← this, bitsOf_ofBits]
    rw [List.map_congr_left hc, List.map_id]
  rw [this, h1]

theorem toBits_length (w : Nat) (vals : List Nat) : (toBits w vals).length = vals.length * w := by
  unfold toBits
  induction vals with
  | nil => simp
  | cons v vs ih => simp [List.flatMap_cons, ih, Nat.succ_mul]; omega

theorem fromBits_length (w : Nat) (hw : 0 < w) (n : Nat) (bits : List Bool) (hl : bits.length = n * w) :
    (fromBits w bits).length = n := by
  unfold fromBits
  obtain ⟨_, _, h3⟩ := chunksOf_spec w hw n bits (bits.length + 1) hl (by omega)
  simp [h3]

theorem fromBits_lt (w : Nat) (hw : 0 < w) (n : Nat) (bits : List Bool) (hl : bits.length = n * w) :
    ∀ v ∈ fromBits w bits, v < 2 ^ w := by
  unfold fromBits
  obtain ⟨_, h2, _⟩ := chunksOf_spec w hw n bits (bits.length + 1) hl (by omega)
  intro v hv
  simp at hv
  obtain ⟨c, hc, rfl⟩ := hv
  have := ofBits_lt c
  rw [h2 c hc] at this
  exact this

end Btc
